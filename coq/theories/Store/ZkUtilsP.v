(** Proofs about Store/ZkUtils.v (zkutils.py / zkbackend.py over a ZooKeeper tree). *)
From Coq Require Import ZArith List Bool Lia.
From TM Require Import Store.ZkUtils.
Import ListNotations.
Open Scope Z_scope.

(* ------------------------------------------------------------------ equality tests, tables *)
Lemma zl_eqb_eq a b : zl_eqb a b = true <-> a = b.
Proof.
  revert b; induction a as [|x a IH]; intros [|y b]; cbn; split; intros H; try congruence; try discriminate.
  - apply andb_true_iff in H as [H1 H2]. apply Z.eqb_eq in H1. apply IH in H2. congruence.
  - inversion H; subst. rewrite Z.eqb_refl. cbn. apply IH. reflexivity.
Qed.

Lemma path_eqb_eq a b : path_eqb a b = true <-> a = b.
Proof.
  revert b; induction a as [|x a IH]; intros [|y b]; cbn; split; intros H; try congruence; try discriminate.
  - apply andb_true_iff in H as [H1 H2]. apply zl_eqb_eq in H1. apply IH in H2. congruence.
  - inversion H; subst. apply andb_true_iff. split; [apply zl_eqb_eq | apply IH]; reflexivity.
Qed.

Lemma path_eqb_refl p : path_eqb p p = true.
Proof. apply path_eqb_eq. reflexivity. Qed.

Lemma path_eqb_neq a b : a <> b -> path_eqb a b = false.
Proof. intros H. destruct (path_eqb a b) eqn:E; [apply path_eqb_eq in E; congruence | reflexivity]. Qed.

Lemma path_eqb_false a b : path_eqb a b = false -> a <> b.
Proof. intros H E. subst. rewrite path_eqb_refl in H. discriminate. Qed.

Lemma path_eqb_sym a b : path_eqb a b = path_eqb b a.
Proof.
  destruct (path_eqb a b) eqn:E.
  - apply path_eqb_eq in E. subst. symmetry. apply path_eqb_refl.
  - symmetry. apply path_eqb_neq. intros H. subst. rewrite path_eqb_refl in E. discriminate.
Qed.

Lemma lookup_upsert {A} p q (a : A) l :
  lookup q (upsert p a l) = if path_eqb p q then Some a else lookup q l.
Proof.
  induction l as [|[k b] l IH]; cbn.
  - reflexivity.
  - destruct (path_eqb k p) eqn:E; cbn.
    + apply path_eqb_eq in E. subst k. destruct (path_eqb p q); reflexivity.
    + destruct (path_eqb k q) eqn:E2.
      * apply path_eqb_eq in E2. subst k. rewrite path_eqb_sym, E. reflexivity.
      * exact IH.
Qed.

Lemma lookup_del_where {A} (f : path -> bool) q (l : list (path * A)) :
  lookup q (del_where f l) = if f q then None else lookup q l.
Proof.
  induction l as [|[k b] l IH]; cbn.
  - destruct (f q); reflexivity.
  - destruct (f k) eqn:Ek; cbn.
    + destruct (path_eqb k q) eqn:E.
      * apply path_eqb_eq in E. subst k. rewrite Ek in IH |- *. exact IH.
      * exact IH.
    + destruct (path_eqb k q) eqn:E.
      * apply path_eqb_eq in E. subst k. rewrite Ek. reflexivity.
      * exact IH.
Qed.

Lemma find_upsert p q n N : find (upsert p n N) q = if path_eqb p q then Some n else find N q.
Proof.
  unfold find. rewrite lookup_upsert. destruct (path_eqb p q); reflexivity.
Qed.

Lemma find_del_where f q N : f [] = false ->
  find (del_where f N) q = if f q then None else find N q.
Proof.
  intros H0. unfold find. rewrite lookup_del_where. destruct (f q) eqn:E; [|reflexivity].
  destruct q; [congruence | reflexivity].
Qed.

Lemma has_upsert p q n N : has (upsert p n N) q = path_eqb p q || has N q.
Proof. unfold has. rewrite find_upsert. destruct (path_eqb p q); reflexivity. Qed.

Lemma has_root N : has N [] = true.
Proof. unfold has, find. destruct (lookup [] N); reflexivity. Qed.

Lemma lookup_In {A} p (a : A) l : lookup p l = Some a -> In (p, a) l.
Proof.
  induction l as [|[k b] l IH]; cbn; [discriminate|].
  destruct (path_eqb k p) eqn:E.
  - apply path_eqb_eq in E. intros H. inversion H; subst. left. reflexivity.
  - intros H. right. exact (IH H).
Qed.

Lemma In_lookup {A} p (a : A) l : In (p, a) l -> exists b, lookup p l = Some b.
Proof.
  induction l as [|[k b] l IH]; cbn; [tauto|].
  intros [H|H].
  - inversion H; subst. rewrite path_eqb_refl. eauto.
  - destruct (path_eqb k p); eauto.
Qed.

(** a tree as ZooKeeper keeps it: the parent of every node exists *)
Definition wf (N : list (path * node)) : Prop := forall q, has N q = true -> has N (removelast q) = true.
Definition wfb (N : list (path * node)) : bool := forallb (fun e => has N (removelast (fst e))) N.

Lemma wfb_wf N : wfb N = true -> wf N.
Proof.
  intros H q Hq. unfold has in Hq. destruct (find N q) as [n|] eqn:E; [|discriminate].
  unfold find in E. destruct (lookup q N) as [m|] eqn:L.
  - apply lookup_In in L. unfold wfb in H. rewrite forallb_forall in H. exact (H _ L).
  - destruct q; [apply has_root | discriminate].
Qed.

Lemma wf_prefix N : wf N -> forall r a, has N (a ++ r) = true -> has N a = true.
Proof.
  intros W r. induction r as [|x r IH] using rev_ind; intros a H.
  - rewrite app_nil_r in H. exact H.
  - apply IH. apply W in H. rewrite app_assoc, removelast_last in H. exact H.
Qed.

(* ------------------------------------------------------------------ (g) _payload *)
Lemma payload_bytes_verbatim enc b : payload enc (PBytes b) = b /\ length (payload enc (PBytes b)) = length b.
Proof. split; reflexivity. Qed.
Lemma payload_none_empty enc : payload enc PNone = [].
Proof. reflexivity. Qed.
Lemma payload_other_encoder enc x : payload enc (POther x) = enc x.
Proof. reflexivity. Qed.

(* ------------------------------------------------------------------ the server's create *)
Lemma srv_create_exn t p v acl eph sequ e t' : srv_create t p v acl eph sequ = (RExn e, t') -> t' = t.
Proof.
  unfold srv_create. destruct (find (nodes t) (removelast p)) as [pn|]; [|intros H; inversion H; reflexivity].
  destruct (has (nodes t) _); [intros H; inversion H; reflexivity|].
  destruct (n_eph pn); intros H; inversion H; reflexivity.
Qed.

Lemma srv_create_shape t p v acl eph sequ :
  (exists e, srv_create t p v acl eph sequ = (RExn e, t)) \/
  (exists p' t', srv_create t p v acl eph sequ = (RPath p', t')).
Proof.
  unfold srv_create. destruct (find (nodes t) (removelast p)) as [pn|]; [|left; eauto].
  destruct (has (nodes t) _); [left; eauto|].
  destruct (n_eph pn); [left; eauto | right; eauto].
Qed.

Lemma srv_create_ok t p v acl eph p' t' : srv_create t p v acl eph false = (RPath p', t') ->
  p' = p /\ has (nodes t) p = false /\ has (nodes t) (removelast p) = true /\
  forall q, find (nodes t') q = if path_eqb p q then Some (mknode v eph acl) else find (nodes t) q.
Proof.
  unfold srv_create, has. destruct (find (nodes t) (removelast p)) as [pn|]; [|discriminate].
  destruct (find (nodes t) p) eqn:E; [discriminate|].
  destruct (n_eph pn); [discriminate|]. intros H. inversion H; subst. cbn.
  repeat split; try reflexivity. intros q. apply find_upsert.
Qed.

Lemma srv_create_existing t p v acl eph : wf (nodes t) -> has (nodes t) p = true ->
  srv_create t p v acl eph false = (RExn ENodeExists, t).
Proof.
  intros W H. unfold srv_create. pose proof (W _ H) as Hp. unfold has in Hp.
  destruct (find (nodes t) (removelast p)); [|discriminate]. rewrite H. reflexivity.
Qed.

Lemma k_create_existing t p v acl eph mk : wf (nodes t) -> has (nodes t) p = true ->
  k_create t p v acl eph false mk = (RExn ENodeExists, t).
Proof. intros W H. unfold k_create. rewrite (srv_create_existing t p v acl eph W H). reflexivity. Qed.

(* ------------------------------------------------------------------ (c) create of an existing node *)
Theorem create_existing_raises enc t p d acl dflt eph : wf (nodes t) -> has (nodes t) p = true ->
  zu_create enc t p d acl false dflt eph = (RExn ENodeExists, t).
Proof. intros W H. unfold zu_create, c_create. apply k_create_existing; assumption. Qed.

(* ------------------------------------------------------------------ set / set_acls *)
Lemma srv_set_find t p v n : find (nodes t) p = Some n ->
  srv_set t p v = (RTrue, {| nodes := upsert p {| n_data := v; n_eph := n_eph n; n_ver := n_ver n + 1;
                                                   n_acl := n_acl n |} (nodes t); cvs := cvs t |}).
Proof. intros H. unfold srv_set. rewrite H. reflexivity. Qed.

Lemma set_and_acl_spec t p pl ra n : find (nodes t) p = Some n ->
  exists t', set_and_acl t p pl ra = (RPath p, t') /\ cvs t' = cvs t /\
    forall q, find (nodes t') q =
      if path_eqb p q then Some {| n_data := pl; n_eph := n_eph n; n_ver := n_ver n + 1; n_acl := mk_default ra |}
      else find (nodes t) q.
Proof.
  intros H. unfold set_and_acl. rewrite (srv_set_find t p pl n H). unfold c_set_acls, srv_set_acls. cbn [nodes cvs].
  rewrite find_upsert, path_eqb_refl. cbn. eexists. split; [reflexivity|]. split; [reflexivity|].
  intros q. cbn. rewrite !find_upsert. destruct (path_eqb p q); reflexivity.
Qed.

(** put on an existing node: what the except branch does *)
Lemma zu_put_existing enc t p d acl dflt eph chk n : wf (nodes t) -> find (nodes t) p = Some n ->
  zu_put enc t p d acl false dflt eph chk =
  if chk && zl_eqb (n_data n) (payload enc d) then (RNone, t)
  else set_and_acl t p (payload enc d) (realacl dflt acl).
Proof.
  intros W H. unfold zu_put, c_create.
  rewrite k_create_existing by (try assumption; unfold has; rewrite H; reflexivity).
  destruct chk; cbn [andb]; [|reflexivity]. unfold srv_get. rewrite H. reflexivity.
Qed.

(* ------------------------------------------------------------------ (b) check_content *)
Theorem put_same_payload_no_write enc t p d acl dflt eph n : wf (nodes t) -> find (nodes t) p = Some n ->
  (snd (zu_put enc t p d acl false dflt eph true) = t <-> n_data n = payload enc d) /\
  (n_data n = payload enc d -> zu_put enc t p d acl false dflt eph true = (RNone, t)) /\
  (n_data n <> payload enc d -> exists t', zu_put enc t p d acl false dflt eph true = (RPath p, t') /\
      find (nodes t') p = Some {| n_data := payload enc d; n_eph := n_eph n; n_ver := n_ver n + 1;
                                  n_acl := mk_default (realacl dflt acl) |}).
Proof.
  intros W H. rewrite (zu_put_existing enc t p d acl dflt eph true n W H). cbn [andb].
  destruct (zl_eqb (n_data n) (payload enc d)) eqn:E.
  - apply zl_eqb_eq in E. split; [split; intros; [assumption | reflexivity]|]. split; [reflexivity | congruence].
  - assert (Hne : n_data n <> payload enc d) by (intros X; apply zl_eqb_eq in X; congruence).
    destruct (set_and_acl_spec t p (payload enc d) (realacl dflt acl) n H) as [t' [E1 [E2 E3]]].
    rewrite E1. cbn [snd]. split; [split|split].
    + intros X. subst t'. specialize (E3 p). rewrite path_eqb_refl, H in E3. inversion E3 as [Hn].
      exfalso. assert (Hv : n_ver n = n_ver n + 1) by (rewrite Hn at 1; reflexivity). lia.
    + intros X. contradiction.
    + intros X. contradiction.
    + intros _. exists t'. split; [reflexivity|]. rewrite E3, path_eqb_refl. reflexivity.
Qed.

(** without check_content the same payload is written again: the version moves *)
Theorem put_same_payload_rewrites_witness enc t p d acl dflt eph n : wf (nodes t) -> find (nodes t) p = Some n ->
  exists t', zu_put enc t p d acl false dflt eph false = (RPath p, t') /\
    find (nodes t') p = Some {| n_data := payload enc d; n_eph := n_eph n; n_ver := n_ver n + 1;
                                n_acl := mk_default (realacl dflt acl) |}.
Proof.
  intros W H. rewrite (zu_put_existing enc t p d acl dflt eph false n W H). cbn [andb].
  destruct (set_and_acl_spec t p (payload enc d) (realacl dflt acl) n H) as [t' [E1 [E2 E3]]].
  exists t'. split; [exact E1|]. rewrite E3, path_eqb_refl. reflexivity.
Qed.

(* ------------------------------------------------------------------ (d) update never creates *)
Theorem update_never_creates enc t p d chk r t' : zu_update enc t p d chk = (r, t') ->
  (forall q, has (nodes t') q = has (nodes t) q) /\
  (has (nodes t) p = false -> r = RExn ENoNode /\ t' = t) /\
  (forall q, q <> p -> find (nodes t') q = find (nodes t) q) /\
  (forall n, find (nodes t) p = Some n ->
     (r = RNone /\ t' = t /\ chk = true /\ n_data n = payload enc d) \/
     (r = RPath p /\ (chk = true -> n_data n <> payload enc d) /\
      find (nodes t') p = Some {| n_data := payload enc d; n_eph := n_eph n; n_ver := n_ver n + 1;
                                  n_acl := n_acl n |})).
Proof.
  unfold zu_update, srv_get, srv_set, has. destruct (find (nodes t) p) as [n|] eqn:E.
  - intros H.
    assert (Hset : forall (X : (r, t') = (RPath p, {| nodes := upsert p {| n_data := payload enc d; n_eph := n_eph n;
                     n_ver := n_ver n + 1; n_acl := n_acl n |} (nodes t); cvs := cvs t |})),
               (forall q, match find (nodes t') q with Some _ => true | None => false end =
                          match find (nodes t) q with Some _ => true | None => false end) /\
               (forall q, q <> p -> find (nodes t') q = find (nodes t) q) /\
               find (nodes t') p = Some {| n_data := payload enc d; n_eph := n_eph n; n_ver := n_ver n + 1;
                                           n_acl := n_acl n |}).
    { intros X. inversion X; subst. cbn [nodes]. split; [|split].
      - intros q. rewrite find_upsert. destruct (path_eqb p q) eqn:Q; [|reflexivity].
        apply path_eqb_eq in Q. subst q. rewrite E. reflexivity.
      - intros q Hq. rewrite find_upsert, path_eqb_neq by congruence. reflexivity.
      - rewrite find_upsert, path_eqb_refl. reflexivity. }
    destruct chk.
    + destruct (zl_eqb (n_data n) (payload enc d)) eqn:Q.
      * inversion H; subst. apply zl_eqb_eq in Q. split; [reflexivity|]. split; [discriminate|].
        split; [reflexivity|]. intros m Hm. inversion Hm; subst. left. auto.
      * destruct (Hset (eq_sym H)) as [A [B C]]. split; [exact A|]. split; [discriminate|]. split; [exact B|].
        intros m Hm. inversion Hm; subst m. right. split; [inversion H; reflexivity|]. split; [|exact C].
        intros _ X. apply zl_eqb_eq in X. congruence.
    + destruct (Hset (eq_sym H)) as [A [B C]]. split; [exact A|]. split; [discriminate|]. split; [exact B|].
      intros m Hm. inversion Hm; subst m. right. split; [inversion H; reflexivity|]. split; [discriminate|exact C].
  - intros H. assert (X : r = RExn ENoNode /\ t' = t) by (destruct chk; inversion H; auto).
    destruct X; subst. split; [reflexivity|]. split; [auto|]. split; [reflexivity|]. intros n Hn. discriminate.
Qed.

(* ------------------------------------------------------------------ (e) ensure_exists, node present *)
Theorem ensure_exists_existing enc t p acl d n : wf (nodes t) -> find (nodes t) p = Some n ->
  exists t', zu_ensure_exists enc t p acl false d = (RPath p, t') /\ cvs t' = cvs t /\
    forall q, find (nodes t') q =
      if path_eqb p q
      then Some (if is_none d
                 then {| n_data := n_data n; n_eph := n_eph n; n_ver := n_ver n; n_acl := mk_default (Some (mk_default acl)) |}
                 else {| n_data := payload enc d; n_eph := n_eph n; n_ver := n_ver n + 1;
                         n_acl := mk_default (Some (mk_default acl)) |})
      else find (nodes t) q.
Proof.
  intros W H. unfold zu_ensure_exists, c_create.
  rewrite k_create_existing by (try assumption; unfold has; rewrite H; reflexivity).
  destruct (is_none d).
  - unfold c_set_acls, srv_set_acls. rewrite H. eexists. split; [reflexivity|]. split; [reflexivity|].
    intros q. cbn. apply find_upsert.
  - rewrite (srv_set_find t p _ n H). unfold c_set_acls, srv_set_acls. cbn [nodes cvs].
    rewrite find_upsert, path_eqb_refl. eexists. split; [reflexivity|]. split; [reflexivity|].
    intros q. cbn. rewrite !find_upsert. destruct (path_eqb p q); reflexivity.
Qed.

(** data=b'' is "given": it overwrites, data=None does not *)
Theorem ensure_exists_empty_bytes_overwrites_witness :
  let t := {| nodes := [([[97]], mknode [120] false [31])]; cvs := [] |} in
  option_map n_data (find (nodes (snd (zu_ensure_exists (fun x => x) t [[97]] None false (PBytes [])))) [[97]]) = Some [] /\
  option_map n_data (find (nodes (snd (zu_ensure_exists (fun x => x) t [[97]] None false PNone))) [[97]]) = Some [120].
Proof. vm_compute. split; reflexivity. Qed.

(* ------------------------------------------------------------------ (f) ensure_deleted, the easy half *)
Theorem ensure_deleted_absent t p rec : has (nodes t) p = false -> zu_ensure_deleted t p rec = (RNone, t).
Proof.
  unfold zu_ensure_deleted, del_quiet, srv_delete, has. intros H.
  destruct (find (nodes t) p) eqn:E; [discriminate|]. destruct rec.
  - cbn. rewrite E. reflexivity.
  - destruct p; [unfold find in E; destruct (lookup [] (nodes t)); discriminate|]. reflexivity.
Qed.

Theorem ensure_deleted_leaf t p n : p <> [] -> find (nodes t) p = Some n -> children (nodes t) p = [] ->
  forall rec, exists t', zu_ensure_deleted t p rec = (RNone, t') /\
    forall q, find (nodes t') q = if path_eqb p q then None else find (nodes t) q.
Proof.
  intros Hp H Hc rec.
  assert (D : exists t', del_quiet t p = (RNone, t') /\
                forall q, find (nodes t') q = if path_eqb p q then None else find (nodes t) q).
  { unfold del_quiet, srv_delete. destruct p; [congruence|]. cbv iota. rewrite H, Hc. eexists. split; [reflexivity|].
    intros q. cbn [nodes]. apply find_del_where. reflexivity. }
  destruct rec; [|exact D]. unfold zu_ensure_deleted. cbn [ens_del]. rewrite H, Hc. cbn [fold_left]. exact D.
Qed.

(** recursive=False on a node with children: NotEmptyError, nothing deleted *)
Theorem ensure_deleted_nonrecursive_nonempty t p n : p <> [] -> find (nodes t) p = Some n ->
  children (nodes t) p <> [] -> zu_ensure_deleted t p false = (RExn ENotEmpty, t).
Proof.
  intros Hp H Hc. unfold zu_ensure_deleted, del_quiet, srv_delete. destruct p as [|s0 p0]; [congruence|]. cbv iota. rewrite H.
  destruct (children (nodes t) (s0 :: p0)); [congruence | reflexivity].
Qed.

(* ------------------------------------------------------------------ (h) sequence nodes *)
Theorem sequence_create_name t p v acl eph p' t' : srv_create t p v acl eph true = (RPath p', t') ->
  p' = seq_name p (cv_of (cvs t) (removelast p)) /\ has (nodes t) p' = false /\ has (nodes t') p' = true /\
  cv_of (cvs t') (removelast p) = cv_of (cvs t) (removelast p) + 1.
Proof.
  unfold srv_create. destruct (find (nodes t) (removelast p)) as [pn|]; [|discriminate].
  destruct (has (nodes t) (seq_name p _)) eqn:E; [discriminate|].
  destruct (n_eph pn); [discriminate|]. intros H. inversion H; subst. cbn [nodes cvs].
  split; [reflexivity|]. split; [exact E|]. split.
  - rewrite has_upsert, path_eqb_refl. reflexivity.
  - unfold cv_of. rewrite !lookup_upsert, path_eqb_refl.
    assert (N : path_eqb (seq_name p (cv_of (cvs t) (removelast p))) (removelast p) = false).
    { apply path_eqb_neq. unfold seq_name. intros X. apply (f_equal (@length seg)) in X.
      rewrite app_length in X. cbn in X. lia. }
    unfold cv_of in N. rewrite N. reflexivity.
Qed.

Definition dval (l : list Z) : Z := fold_left (fun a d => a * 10 + (d - 48)) l 0.

Lemma digs_val k : forall z acc s,
  fold_left (fun a d => a * 10 + (d - 48)) (digs k z acc) s =
  fold_left (fun a d => a * 10 + (d - 48)) acc (s * 10 ^ Z.of_nat k + z mod 10 ^ Z.of_nat k).
Proof.
  induction k as [|k IH]; intros z acc s.
  - cbn [digs]. change (10 ^ Z.of_nat 0) with 1. rewrite Z.mod_1_r. f_equal. lia.
  - cbn [digs]. rewrite IH. cbn [fold_left]. f_equal.
    rewrite Nat2Z.inj_succ, Z.pow_succ_r by lia.
    rewrite (Z.rem_mul_r z 10 (10 ^ Z.of_nat k)) by lia. lia.
Qed.

Theorem digits10_injective a b : 0 <= a < 10 ^ 10 -> 0 <= b < 10 ^ 10 -> digits10 a = digits10 b -> a = b.
Proof.
  intros Ha Hb H. apply (f_equal dval) in H. unfold dval, digits10 in H. rewrite !digs_val in H. cbn [fold_left] in H.
  change (Z.of_nat 10) with 10 in H. rewrite !Z.mod_small in H by lia. lia.
Qed.

Lemma digits10_length z : length (digits10 z) = 10%nat.
Proof. reflexivity. Qed.

(** two counters give two names *)
Theorem sequence_names_distinct p a b : 0 <= a < 10 ^ 10 -> 0 <= b < 10 ^ 10 -> a <> b -> seq_name p a <> seq_name p b.
Proof.
  intros Ha Hb Hab X. unfold seq_name in X. apply app_inv_head in X. inversion X as [Y].
  apply app_inv_head in Y. apply Hab. apply digits10_injective; assumption.
Qed.

(** "this will never happen for sequence node" (comment in put): it does when somebody made a node with the name the
    counter yields next; put then falls into the except branch and set()s the UNSUFFIXED path: here "/a" is
    overwritten although a sequence put of "/a" was asked for *)
Theorem put_sequence_collision_witness :
  let t0 := {| nodes := []; cvs := [] |} in
  let t1 := snd (c_create t0 [[97]] [120] None false false false) in                     (* /a = "x", cversion of / = 1 *)
  let t2 := snd (c_create t1 [[97; 48;48;48;48;48;48;48;48;48;50]] [] None false false false) in   (* /a0000000002 *)
  fst (zu_put (fun x => x) t2 [[97]] (PBytes [121]) None true true false false) = RPath [[97]] /\
  option_map n_data (find (nodes (snd (zu_put (fun x => x) t2 [[97]] (PBytes [121]) None true true false false))) [[97]])
    = Some [121].
Proof. vm_compute. split; reflexivity. Qed.

(* ------------------------------------------------------------------ ZkReadonlyBackend *)
Theorem readonly_backend_never_writes t p d chk :
  snd (ro_put t p d) = t /\ snd (ro_ensure_exists t p) = t /\ snd (ro_delete t p) = t /\ snd (ro_update t p d chk) = t.
Proof. repeat split. Qed.

(* ------------------------------------------------------------------ (i) ZkBackend.put, node present *)
Theorem backend_put_existing_is_map_update enc aclf t p d n : wf (nodes t) -> find (nodes t) p = Some n ->
  exists t', bk_put enc aclf t p d = (RPath p, t') /\
    forall q, option_map n_data (find (nodes t') q) =
              if path_eqb p q then Some (payload enc d) else option_map n_data (find (nodes t) q).
Proof.
  intros W H. unfold bk_put. rewrite (zu_put_existing enc t p d (aclf p) true false false n W H). cbn [andb].
  destruct (set_and_acl_spec t p (payload enc d) (realacl true (aclf p)) n H) as [t' [E1 [_ E3]]].
  exists t'. split; [exact E1|]. intros q. rewrite E3. destruct (path_eqb p q); reflexivity.
Qed.

(* ================================================================== second part: missing nodes, wf, refinement *)

Lemma has_true N q : has N q = true <-> exists n, find N q = Some n.
Proof. unfold has. destruct (find N q); split; intros H; eauto; try discriminate. destruct H; discriminate. Qed.
Lemma has_false N q : has N q = false <-> find N q = None.
Proof. unfold has. destruct (find N q); split; intros H; congruence. Qed.

Lemma zl_eqb_refl a : zl_eqb a a = true.
Proof. apply zl_eqb_eq. reflexivity. Qed.

Lemma prefixb_app p : forall q, prefixb p q = true -> exists r, q = p ++ r.
Proof.
  induction p as [|x p IH]; intros q H.
  - exists q. reflexivity.
  - destruct q as [|y q]; [discriminate|]. cbn in H. apply andb_true_iff in H as [H1 H2].
    apply zl_eqb_eq in H1. subst y. destruct (IH _ H2) as [r Hr]. exists r. cbn. congruence.
Qed.

Lemma prefixb_app_refl p r : prefixb p (p ++ r) = true.
Proof. induction p as [|x p IH]; cbn; [reflexivity|]. rewrite zl_eqb_refl, IH. reflexivity. Qed.

Lemma prefixb_refl p : prefixb p p = true.
Proof. rewrite <- (app_nil_r p) at 2. apply prefixb_app_refl. Qed.

Lemma prefixb_length p q : prefixb p q = true -> (length p <= length q)%nat.
Proof. intros H. destruct (prefixb_app _ _ H) as [r Hr]. subst q. rewrite app_length. lia. Qed.

Lemma prefixb_app_l p c q : prefixb (p ++ c) q = true -> prefixb p q = true.
Proof. intros H. destruct (prefixb_app _ _ H) as [r Hr]. subst q. rewrite <- app_assoc. apply prefixb_app_refl. Qed.

Lemma prefixb_removelast p q : prefixb p (removelast q) = true -> prefixb p q = true.
Proof.
  intros H. destruct q as [|s q]; [exact H|].
  rewrite (app_removelast_last (A:=seg) [] (l:=s :: q)) by discriminate.
  destruct (prefixb_app _ _ H) as [r Hr]. rewrite Hr, <- app_assoc. apply prefixb_app_refl.
Qed.

Lemma length_removelast (p : path) : p <> [] -> length p = S (length (removelast p)).
Proof.
  intros H. rewrite (app_removelast_last (A:=seg) [] H) at 1. rewrite app_length. cbn. lia.
Qed.

Lemma In_prefixes_from p : forall acc q, In q (prefixes_from acc p) ->
  exists r1 r2, p = r1 ++ r2 /\ q = acc ++ r1 /\ r1 <> [].
Proof.
  induction p as [|s p IH]; intros acc q H; cbn in H; [tauto|]. destruct H as [H|H].
  - exists [s], p. repeat split; [congruence | discriminate].
  - destruct (IH _ _ H) as [r1 [r2 [A [B C]]]]. exists (s :: r1), r2. subst. rewrite <- app_assoc.
    repeat split; discriminate.
Qed.

(** [is_anc q p]: q is a proper ancestor of p other than "/" *)
Definition is_anc (q p : path) : bool := existsb (path_eqb q) (prefixes (removelast p)).

Lemma existsb_prefixes q pa : existsb (path_eqb q) (prefixes pa) = true -> exists r, pa = q ++ r.
Proof.
  intros H. apply existsb_exists in H as [x [Hx E]]. apply path_eqb_eq in E. subst x.
  destruct (In_prefixes_from _ _ _ Hx) as [r1 [r2 [A [B _]]]]. cbn in B. subst. eauto.
Qed.

Lemma is_anc_prefix q p : is_anc q p = true -> exists r, removelast p = q ++ r.
Proof. apply existsb_prefixes. Qed.

Lemma is_anc_self p : is_anc p p = false.
Proof.
  destruct (is_anc p p) eqn:E; [|reflexivity]. destruct (is_anc_prefix _ _ E) as [r Hr].
  destruct p as [|s p]; [discriminate E|]. pose proof (length_removelast (s :: p)) as L.
  rewrite Hr, app_length in L. specialize (L ltac:(discriminate)). lia.
Qed.

Lemma is_anc_prefixb q p : is_anc q p = true -> prefixb q p = true.
Proof.
  intros H. destruct (is_anc_prefix _ _ H) as [r Hr]. apply prefixb_removelast. rewrite Hr. apply prefixb_app_refl.
Qed.

Lemma wf_anc_present N p q : wf N -> has N (removelast p) = true -> is_anc q p = true -> has N q = true.
Proof.
  intros W H A. destruct (is_anc_prefix _ _ A) as [r Hr]. rewrite Hr in H. exact (wf_prefix N W r q H).
Qed.

Lemma srv_create_nodeexists t p v acl eph t' : srv_create t p v acl eph false = (RExn ENodeExists, t') ->
  has (nodes t) p = true.
Proof.
  unfold srv_create. destruct (find (nodes t) (removelast p)) as [pn|]; [|discriminate].
  destruct (has (nodes t) p) eqn:E; [reflexivity|]. destruct (n_eph pn); discriminate.
Qed.

Lemma srv_create_nonode t p v acl eph sequ t' : srv_create t p v acl eph sequ = (RExn ENoNode, t') ->
  has (nodes t) (removelast p) = false.
Proof.
  unfold srv_create, has. destruct (find (nodes t) (removelast p)) as [pn|]; [|reflexivity].
  destruct (match find (nodes t) _ with Some _ => true | None => false end); [discriminate|].
  destruct (n_eph pn); discriminate.
Qed.

(** ensure_path, when it succeeds: exactly the missing ones of the listed paths are new, empty and persistent *)
Lemma ens_path_spec acl : forall qs t t', ens_path qs acl t = (None, t') ->
  forall q, find (nodes t') q =
            if existsb (path_eqb q) qs && negb (has (nodes t) q) then Some (mknode [] false acl)
            else find (nodes t) q.
Proof.
  induction qs as [|q0 r IH]; intros t t' H q.
  - cbn in H. inversion H; subst. reflexivity.
  - cbn [ens_path] in H. cbn [existsb].
    destruct (has (nodes t) q0) eqn:Hq0.
    + rewrite (IH _ _ H q). destruct (path_eqb q q0) eqn:E; [|reflexivity].
      apply path_eqb_eq in E. subst q0. rewrite Hq0. cbn. rewrite andb_false_r. reflexivity.
    + destruct (srv_create_shape t q0 [] acl false false) as [[e Ce]|[p' [t1 Ce]]]; rewrite Ce in H.
      * destruct e; try discriminate H. apply srv_create_nodeexists in Ce. congruence.
      * destruct (srv_create_ok _ _ _ _ _ _ _ Ce) as [_ [_ [_ F]]].
        rewrite (IH _ _ H q). unfold has at 1. rewrite !F. rewrite (path_eqb_sym q0 q).
        destruct (path_eqb q q0) eqn:E.
        -- apply path_eqb_eq in E. subst q0. rewrite Hq0. cbn. rewrite andb_false_r. reflexivity.
        -- cbn [orb]. reflexivity.
Qed.

Lemma ens_path_not_nodeexists acl : forall l t t1, ens_path l acl t <> (Some ENodeExists, t1).
Proof.
  induction l as [|q0 r IH]; intros t t1 EP.
  - discriminate EP.
  - cbn [ens_path] in EP. destruct (has (nodes t) q0); [exact (IH _ _ EP)|].
    destruct (srv_create_shape t q0 [] acl false false) as [[e Ce]|[p' [t3 Ce]]]; rewrite Ce in EP.
    + destruct e; try discriminate EP. exact (IH _ _ EP).
    + exact (IH _ _ EP).
Qed.

Lemma k_create_nodeexists t p v acl eph mk t1 : k_create t p v acl eph false mk = (RExn ENodeExists, t1) ->
  has (nodes t) p = true.
Proof.
  unfold k_create.
  destruct (srv_create_shape t p v acl eph false) as [[e Ce]|[p' [t2 Ce]]]; rewrite Ce; [|discriminate].
  destruct e; try discriminate.
  - destruct mk; [|discriminate].
    destruct (ens_path (prefixes (removelast p)) (acl) t) as [[e|] t2] eqn:EP.
    + intros H. inversion H; subst. exfalso. exact (ens_path_not_nodeexists _ _ _ _ EP).
    + intros H. apply srv_create_nodeexists in H. unfold has in H |- *.
      rewrite (ens_path_spec _ _ _ _ EP p) in H. fold (is_anc p p) in H. rewrite is_anc_self in H. exact H.
  - intros H. apply srv_create_nodeexists in Ce. exact Ce.
Qed.

(** create(makepath=True) of a missing node, when it returns: exactly the node and its missing ancestors are new *)
Lemma k_create_spec t p v acl eph p' t' : wf (nodes t) -> k_create t p v acl eph false true = (RPath p', t') ->
  p' = p /\ has (nodes t) p = false /\
  forall q, find (nodes t') q =
            if path_eqb p q then Some (mknode v eph acl)
            else if is_anc q p && negb (has (nodes t) q) then Some (mknode [] false acl)
            else find (nodes t) q.
Proof.
  intros W. unfold k_create.
  destruct (srv_create_shape t p v acl eph false) as [[e Ce]|[p2 [t2 Ce]]]; rewrite Ce.
  - destruct e; try discriminate.
    destruct (ens_path (prefixes (removelast p)) acl t) as [[e|] t1] eqn:EP; [discriminate|].
    intros H. destruct (srv_create_ok _ _ _ _ _ _ _ H) as [A [B [_ F]]]. split; [exact A|].
    pose proof (ens_path_spec _ _ _ _ EP) as S. split.
    + apply has_false. apply has_false in B. rewrite S in B. fold (is_anc p p) in B. rewrite is_anc_self in B. exact B.
    + intros q. rewrite F. destruct (path_eqb p q); [reflexivity|]. apply S.
  - intros H. inversion H; subst p2 t2. destruct (srv_create_ok _ _ _ _ _ _ _ Ce) as [A [B [Hp F]]].
    split; [exact A|]. split; [exact B|]. intros q. rewrite F. destruct (path_eqb p q); [reflexivity|].
    destruct (is_anc q p) eqn:An; [|reflexivity]. rewrite (wf_anc_present _ _ _ W Hp An). reflexivity.
Qed.

(* ------------------------------------------------------------------ wf is preserved *)
Lemma wf_upsert N p n : wf N -> has N (removelast p) = true -> wf (upsert p n N).
Proof.
  intros W H q Hq. rewrite has_upsert in Hq |- *. destruct (path_eqb p q) eqn:E.
  - apply path_eqb_eq in E. subst q. rewrite H. apply orb_true_r.
  - cbn in Hq. rewrite (W _ Hq). apply orb_true_r.
Qed.

Lemma wf_same_has N N' : (forall q, has N' q = has N q) -> wf N -> wf N'.
Proof. intros E W q Hq. rewrite E in Hq |- *. exact (W _ Hq). Qed.

Lemma has_upsert_present N p n q : has N p = true -> has (upsert p n N) q = has N q.
Proof.
  intros H. rewrite has_upsert. destruct (path_eqb p q) eqn:E; [|reflexivity].
  apply path_eqb_eq in E. subst q. rewrite H. reflexivity.
Qed.

Lemma srv_create_wf t p v acl eph sequ : wf (nodes t) -> wf (nodes (snd (srv_create t p v acl eph sequ))).
Proof.
  intros W. unfold srv_create. destruct (find (nodes t) (removelast p)) as [pn|] eqn:E; [|exact W].
  destruct (has (nodes t) _); [exact W|]. destruct (n_eph pn); [exact W|]. cbn [snd nodes].
  apply wf_upsert; [exact W|]. assert (Hp : has (nodes t) (removelast p) = true) by (apply has_true; eauto).
  destruct sequ; [|exact Hp]. unfold seq_name. rewrite removelast_last. exact Hp.
Qed.

Lemma ens_path_wf acl : forall l t, wf (nodes t) -> wf (nodes (snd (ens_path l acl t))).
Proof.
  induction l as [|q0 r IH]; intros t W; cbn [ens_path]; [exact W|].
  destruct (has (nodes t) q0); [exact (IH _ W)|].
  pose proof (srv_create_wf t q0 [] acl false false W) as W1.
  destruct (srv_create t q0 [] acl false false) as [r0 t1]. cbn [snd] in W1.
  destruct r0; try exact (IH _ W1). destruct e; try exact W1. exact (IH _ W1).
Qed.

Lemma k_create_wf t p v acl eph sequ mk : wf (nodes t) -> wf (nodes (snd (k_create t p v acl eph sequ mk))).
Proof.
  intros W. unfold k_create. pose proof (srv_create_wf t p v acl eph sequ W) as W1.
  destruct (srv_create t p v acl eph sequ) as [r0 t1]. cbn [snd] in W1.
  destruct r0; try exact W1. destruct e; try exact W1. destruct mk; [|exact W].
  pose proof (ens_path_wf acl (prefixes (removelast p)) t W) as W2.
  destruct (ens_path (prefixes (removelast p)) acl t) as [[e|] t2]; cbn [snd] in W2; [exact W2|].
  apply srv_create_wf. exact W2.
Qed.

Lemma srv_set_wf t p v : wf (nodes t) -> wf (nodes (snd (srv_set t p v))).
Proof.
  intros W. unfold srv_set. destruct (find (nodes t) p) eqn:E; [|exact W]. cbn [snd nodes].
  apply (wf_same_has (nodes t)); [|exact W]. intros q. apply has_upsert_present. apply has_true. eauto.
Qed.

Lemma srv_set_acls_wf t p a : wf (nodes t) -> wf (nodes (snd (srv_set_acls t p a))).
Proof.
  intros W. unfold srv_set_acls. destruct (find (nodes t) p) eqn:E; [|exact W]. cbn [snd nodes].
  apply (wf_same_has (nodes t)); [|exact W]. intros q. apply has_upsert_present. apply has_true. eauto.
Qed.

Lemma set_and_acl_wf t p pl ra : wf (nodes t) -> wf (nodes (snd (set_and_acl t p pl ra))).
Proof.
  intros W. unfold set_and_acl. pose proof (srv_set_wf t p pl W) as W2.
  destruct (srv_set t p pl) as [r2 t2]. cbn [snd] in W2.
  pose proof (srv_set_acls_wf t2 p (mk_default ra) W2) as W3. unfold c_set_acls.
  destruct (srv_set_acls t2 p (mk_default ra)) as [r3 t3]. cbn [snd] in W3.
  destruct r2; try exact W2; destruct r3; exact W3.
Qed.

Theorem put_preserves_wf enc t p d acl sequ dflt eph chk : wf (nodes t) ->
  wf (nodes (snd (zu_put enc t p d acl sequ dflt eph chk))).
Proof.
  intros W. unfold zu_put, c_create.
  pose proof (k_create_wf t p (payload enc d) (mk_default (realacl dflt acl)) eph sequ true W) as W1.
  destruct (k_create t p (payload enc d) (mk_default (realacl dflt acl)) eph sequ true) as [r0 t1]. cbn [snd] in W1.
  pose proof (set_and_acl_wf t1 p (payload enc d) (realacl dflt acl) W1) as W2.
  destruct r0; try exact W1. destruct e; try exact W1. destruct chk; [|exact W2].
  destruct (srv_get t1 p); try exact W2; try exact W1. destruct (zl_eqb d0 (payload enc d)); [exact W1 | exact W2].
Qed.

Theorem create_preserves_wf enc t p d acl sequ dflt eph : wf (nodes t) ->
  wf (nodes (snd (zu_create enc t p d acl sequ dflt eph))).
Proof. intros W. unfold zu_create, c_create. apply k_create_wf. exact W. Qed.

Theorem update_preserves_wf enc t p d chk : wf (nodes t) -> wf (nodes (snd (zu_update enc t p d chk))).
Proof.
  intros W. unfold zu_update. pose proof (srv_set_wf t p (payload enc d) W) as W2.
  destruct (srv_set t p (payload enc d)) as [r2 t2]. cbn [snd] in W2.
  assert (X : wf (nodes (snd (match r2 with RExn e => (RExn e, t2) | _ => (RPath p, t2) end)))) by (destruct r2; exact W2).
  destruct chk; [|destruct r2; exact W2].
  destruct (srv_get t p); try (destruct r2; exact W2); try exact W.
  destruct (zl_eqb d0 (payload enc d)); [exact W | destruct r2; exact W2].
Qed.

Theorem ensure_exists_preserves_wf enc t p acl sequ d : wf (nodes t) ->
  wf (nodes (snd (zu_ensure_exists enc t p acl sequ d))).
Proof.
  intros W. unfold zu_ensure_exists, c_create.
  pose proof (k_create_wf t p (payload enc d) (mk_default (Some (mk_default acl))) false sequ true W) as W1.
  destruct (k_create t p (payload enc d) (mk_default (Some (mk_default acl))) false sequ true) as [r0 t1].
  cbn [snd] in W1. destruct r0; try exact W1. destruct e; try exact W1.
  assert (W2 : wf (nodes (snd (if is_none d then (RTrue, t1) else srv_set t1 p (payload enc d))))).
  { destruct (is_none d); [exact W1 | apply srv_set_wf; exact W1]. }
  destruct (if is_none d then (RTrue, t1) else srv_set t1 p (payload enc d)) as [r2 t2]. cbn [snd] in W2.
  pose proof (srv_set_acls_wf t2 p (mk_default (Some (mk_default acl))) W2) as W3. unfold c_set_acls.
  destruct (srv_set_acls t2 p (mk_default (Some (mk_default acl)))) as [r3 t3]. cbn [snd] in W3.
  destruct r2; try exact W2; destruct r3; exact W3.
Qed.

(* ------------------------------------------------------------------ (c) create of a missing node *)
Lemma anc_if_present N p q : wf N -> has N (removelast p) = true -> is_anc q p && negb (has N q) = false.
Proof.
  intros W H. destruct (is_anc q p) eqn:A; [|reflexivity]. rewrite (wf_anc_present _ _ _ W H A). reflexivity.
Qed.

Lemma k_create_shape t p v acl eph sequ mk :
  (exists e t', k_create t p v acl eph sequ mk = (RExn e, t')) \/
  (exists p' t', k_create t p v acl eph sequ mk = (RPath p', t')).
Proof.
  unfold k_create. destruct (srv_create_shape t p v acl eph sequ) as [[e Ce]|[p' [t1 Ce]]]; rewrite Ce.
  - destruct e; try solve [left; eauto]. destruct mk; [|left; eauto].
    destruct (ens_path (prefixes (removelast p)) acl t) as [[e|] t2]; [left; eauto|].
    destruct (srv_create_shape t2 p v acl eph sequ) as [[e Ce2]|[p' [t3 Ce2]]]; rewrite Ce2; [left | right]; eauto.
  - right. eauto.
Qed.

Definition created_spec (t t' : tree) (p : path) (v : list Z) (eph : bool) (A : list Z) : Prop :=
  forall q, find (nodes t') q =
            if path_eqb p q then Some (mknode v eph A)
            else if is_anc q p && negb (has (nodes t) q) then Some (mknode [] false A)
            else find (nodes t) q.

Lemma created_spec_facts t t' p v eph A : has (nodes t) p = false -> created_spec t t' p v eph A ->
  (forall q, has (nodes t) q = true -> find (nodes t') q = find (nodes t) q) /\
  (forall q, is_anc q p = true -> has (nodes t') q = true) /\
  (forall q, has (nodes t) q = false -> has (nodes t') q = true -> q = p \/ is_anc q p = true).
Proof.
  intros Hp S. split; [|split].
  - intros q Hq. rewrite S. destruct (path_eqb p q) eqn:E.
    + apply path_eqb_eq in E. congruence.
    + rewrite Hq, andb_false_r. reflexivity.
  - intros q Hq. unfold has. rewrite S. destruct (path_eqb p q); [reflexivity|]. rewrite Hq. cbn [andb].
    destruct (has (nodes t) q) eqn:E; cbn [negb]; [|reflexivity]. exact E.
  - intros q H0 H1. unfold has in H1. rewrite S in H1. destruct (path_eqb p q) eqn:E.
    + left. apply path_eqb_eq in E. congruence.
    + destruct (is_anc q p); [right; reflexivity|]. cbn [andb] in H1. unfold has in H0. rewrite H0 in H1. discriminate.
Qed.

Theorem create_missing_spec enc t p d acl dflt eph p' t' : wf (nodes t) ->
  zu_create enc t p d acl false dflt eph = (RPath p', t') ->
  p' = p /\ has (nodes t) p = false /\ wf (nodes t') /\
  created_spec t t' p (payload enc d) eph (mk_default (realacl dflt acl)).
Proof.
  intros W H. pose proof (create_preserves_wf enc t p d acl false dflt eph W) as W'. rewrite H in W'.
  unfold zu_create, c_create in H. destruct (k_create_spec _ _ _ _ _ _ _ W H) as [A [B C]].
  split; [exact A|]. split; [exact B|]. split; [exact W' | exact C].
Qed.

(** kazoo's create without makepath: NoNodeError iff the parent is missing, and then nothing changes *)
Theorem create_nomakepath_nonode t p v acl eph sequ :
  (has (nodes t) (removelast p) = false -> k_create t p v acl eph sequ false = (RExn ENoNode, t)) /\
  (forall t', k_create t p v acl eph sequ false = (RExn ENoNode, t') -> has (nodes t) (removelast p) = false /\ t' = t).
Proof.
  split.
  - intros H. apply has_false in H. unfold k_create, srv_create. rewrite H. reflexivity.
  - intros t'. unfold k_create.
    destruct (srv_create_shape t p v acl eph sequ) as [[e Ce]|[p' [t1 Ce]]]; rewrite Ce; [|discriminate].
    destruct e; intros H; inversion H; subst. split; [exact (srv_create_nonode _ _ _ _ _ _ _ Ce) | reflexivity].
Qed.

(* ------------------------------------------------------------------ (a) put, any wf tree *)
Theorem put_then_get enc t p d acl dflt eph chk r t' : wf (nodes t) ->
  zu_put enc t p d acl false dflt eph chk = (r, t') -> (forall e, r <> RExn e) ->
  (r = RPath p \/ (r = RNone /\ chk = true /\ t' = t)) /\
  (exists n', find (nodes t') p = Some n' /\ n_data n' = payload enc d /\
              zu_get t' p = RData (payload enc d) (n_ver n') /\
              (r = RPath p -> n_acl n' = mk_default (realacl dflt acl))) /\
  (forall q, q <> p -> find (nodes t') q =
                       if is_anc q p && negb (has (nodes t) q)
                       then Some (mknode [] false (mk_default (realacl dflt acl))) else find (nodes t) q).
Proof.
  intros W H Hne. destruct (has (nodes t) p) eqn:Hp.
  - destruct (proj1 (has_true _ _) Hp) as [n Hn]. rewrite (zu_put_existing enc t p d acl dflt eph chk n W Hn) in H.
    assert (Anc : forall q, is_anc q p && negb (has (nodes t) q) = false) by (intros q; apply anc_if_present; auto).
    destruct (chk && zl_eqb (n_data n) (payload enc d)) eqn:C.
    + inversion H; subst r t'. apply andb_true_iff in C as [C1 C2]. apply zl_eqb_eq in C2.
      split; [right; auto|]. split.
      * exists n. repeat split; auto; [unfold zu_get, srv_get; rewrite Hn, C2; reflexivity | discriminate].
      * intros q _. rewrite Anc. reflexivity.
    + destruct (set_and_acl_spec t p (payload enc d) (realacl dflt acl) n Hn) as [t2 [E1 [_ E3]]].
      rewrite E1 in H. inversion H; subst r t'. split; [left; reflexivity|]. split.
      * eexists. split; [rewrite E3, path_eqb_refl; reflexivity|]. cbn. repeat split.
        unfold zu_get, srv_get. rewrite E3, path_eqb_refl. reflexivity.
      * intros q Hq. rewrite E3, path_eqb_neq, Anc by congruence. reflexivity.
  - unfold zu_put, c_create in H.
    destruct (k_create_shape t p (payload enc d) (mk_default (realacl dflt acl)) eph false true)
      as [[e [t1 K]]|[p1 [t1 K]]]; rewrite K in H.
    + destruct e; try (inversion H; subst; exfalso; eapply Hne; reflexivity).
      apply k_create_nodeexists in K. congruence.
    + inversion H; subst r t'. destruct (k_create_spec _ _ _ _ _ _ _ W K) as [A [_ S]]. subst p1.
      split; [left; reflexivity|]. split.
      * eexists. split; [rewrite S, path_eqb_refl; reflexivity|]. cbn. repeat split.
        unfold zu_get, srv_get. rewrite S, path_eqb_refl. reflexivity.
      * intros q Hq. rewrite S, path_eqb_neq by congruence. reflexivity.
Qed.

(** put twice: with check_content the second call writes nothing (None); without, it writes the same bytes again -
    only the version moves, by one *)
Theorem put_idempotent enc t p d acl dflt eph chk1 t1 : wf (nodes t) ->
  zu_put enc t p d acl false dflt eph chk1 = (RPath p, t1) ->
  zu_put enc t1 p d acl false dflt eph true = (RNone, t1) /\
  exists n1 t2, find (nodes t1) p = Some n1 /\
    zu_put enc t1 p d acl false dflt eph false = (RPath p, t2) /\ cvs t2 = cvs t1 /\
    forall q, find (nodes t2) q =
              if path_eqb p q
              then Some {| n_data := n_data n1; n_eph := n_eph n1; n_ver := n_ver n1 + 1; n_acl := n_acl n1 |}
              else find (nodes t1) q.
Proof.
  intros W H. pose proof (put_preserves_wf enc t p d acl false dflt eph chk1 W) as W1. rewrite H in W1. cbn [snd] in W1.
  destruct (put_then_get enc t p d acl dflt eph chk1 _ _ W H ltac:(discriminate)) as [_ [[n1 [F [D [_ Ac]]]] _]].
  specialize (Ac eq_refl). split.
  - rewrite (zu_put_existing enc t1 p d acl dflt eph true n1 W1 F). rewrite D. cbn [andb].
    rewrite (proj2 (zl_eqb_eq _ _) eq_refl). reflexivity.
  - destruct (set_and_acl_spec t1 p (payload enc d) (realacl dflt acl) n1 F) as [t2 [E1 [E2 E3]]].
    exists n1, t2. split; [exact F|]. split.
    + rewrite (zu_put_existing enc t1 p d acl dflt eph false n1 W1 F). exact E1.
    + split; [exact E2|]. intros q. rewrite E3, D, Ac. reflexivity.
Qed.

(* ------------------------------------------------------------------ (e) ensure_exists of a missing node *)
Theorem ensure_exists_missing enc t p acl d r t' : wf (nodes t) -> has (nodes t) p = false ->
  zu_ensure_exists enc t p acl false d = (r, t') -> (forall e, r <> RExn e) ->
  r = RPath p /\ created_spec t t' p (payload enc d) false (mk_default (Some (mk_default acl))).
Proof.
  intros W Hp H Hne. unfold zu_ensure_exists, c_create in H.
  destruct (k_create_shape t p (payload enc d) (mk_default (Some (mk_default acl))) false false true)
    as [[e [t1 K]]|[p1 [t1 K]]]; rewrite K in H.
  - destruct e; try (inversion H; subst; exfalso; eapply Hne; reflexivity).
    apply k_create_nodeexists in K. congruence.
  - inversion H; subst r t'. destruct (k_create_spec _ _ _ _ _ _ _ W K) as [A [_ S]]. subst p1.
    split; [reflexivity | exact S].
Qed.

(* ------------------------------------------------------------------ (i) the backend as a map *)
Definition abs (t : tree) (q : path) : option (list Z) := option_map n_data (find (nodes t) q).
Definition fill (o : option (list Z)) : option (list Z) := match o with None => Some [] | s => s end.
(** harness/emaster.py Mem.put / ensure_exists / delete *)
Definition mem_put (p : path) (v : list Z) (m : path -> option (list Z)) (q : path) : option (list Z) :=
  if path_eqb p q then Some v else if is_anc q p then fill (m q) else m q.
Definition mem_ensure (p : path) (m : path -> option (list Z)) (q : path) : option (list Z) :=
  if path_eqb p q || is_anc q p then fill (m q) else m q.
Definition mem_delete (p : path) (m : path -> option (list Z)) (q : path) : option (list Z) :=
  if prefixb p q then None else m q.

Lemma abs_fill_present t q : has (nodes t) q = true -> fill (abs t q) = abs t q.
Proof. intros H. apply has_true in H as [n Hn]. unfold abs. rewrite Hn. reflexivity. Qed.
Lemma abs_absent t q : has (nodes t) q = false -> abs t q = None.
Proof. intros H. apply has_false in H. unfold abs. rewrite H. reflexivity. Qed.

Theorem backend_put_refines enc aclf t p d r t' : wf (nodes t) ->
  bk_put enc aclf t p d = (r, t') -> (forall e, r <> RExn e) ->
  r = RPath p /\ wf (nodes t') /\ forall q, abs t' q = mem_put p (payload enc d) (abs t) q.
Proof.
  intros W H Hne. unfold bk_put in H.
  pose proof (put_preserves_wf enc t p d (aclf p) false true false false W) as W'. rewrite H in W'.
  destruct (put_then_get enc t p d (aclf p) true false false r t' W H Hne) as [R [[n' [F [D _]]] O]].
  split; [destruct R as [R|[_ [R _]]]; [exact R | discriminate]|]. split; [exact W'|].
  intros q. unfold mem_put. destruct (path_eqb p q) eqn:E.
  - apply path_eqb_eq in E. subst q. unfold abs. rewrite F. cbn. congruence.
  - apply path_eqb_false in E. unfold abs at 1. rewrite (O q) by congruence.
    destruct (is_anc q p); [|reflexivity]. cbn [andb]. destruct (has (nodes t) q) eqn:Hq; cbn [negb].
    + rewrite abs_fill_present by exact Hq. reflexivity.
    + rewrite abs_absent by exact Hq. reflexivity.
Qed.

Theorem backend_ensure_exists_refines enc aclf t p r t' : wf (nodes t) ->
  bk_ensure_exists enc aclf t p = (r, t') -> (forall e, r <> RExn e) ->
  r = RPath p /\ wf (nodes t') /\ forall q, abs t' q = mem_ensure p (abs t) q.
Proof.
  intros W H Hne. unfold bk_ensure_exists in H.
  pose proof (ensure_exists_preserves_wf enc t p (aclf p) false PNone W) as W'. rewrite H in W'.
  destruct (has (nodes t) p) eqn:Hp.
  - destruct (proj1 (has_true _ _) Hp) as [n Hn].
    destruct (ensure_exists_existing enc t p (aclf p) PNone n W Hn) as [t2 [E1 [_ E3]]].
    rewrite E1 in H. inversion H; subst r t'. split; [reflexivity|]. split; [exact W'|].
    intros q. unfold mem_ensure, abs at 1. rewrite E3. destruct (path_eqb p q) eqn:E.
    + apply path_eqb_eq in E. subst q. cbn. rewrite abs_fill_present by exact Hp. unfold abs. rewrite Hn. reflexivity.
    + cbn [orb is_none]. destruct (is_anc q p) eqn:A; [|reflexivity].
      rewrite abs_fill_present; [reflexivity|]. exact (wf_anc_present _ _ _ W (W _ Hp) A).
  - destruct (ensure_exists_missing enc t p (aclf p) PNone r t' W Hp H Hne) as [R S].
    split; [exact R|]. split; [exact W'|]. intros q. unfold mem_ensure, abs at 1. rewrite S.
    destruct (path_eqb p q) eqn:E.
    + apply path_eqb_eq in E. subst q. cbn. rewrite abs_absent by exact Hp. reflexivity.
    + cbn [orb]. destruct (is_anc q p); [|reflexivity]. cbn [andb]. destruct (has (nodes t) q) eqn:Hq; cbn [negb].
      * rewrite abs_fill_present by exact Hq. reflexivity.
      * rewrite abs_absent by exact Hq. reflexivity.
Qed.

(* ------------------------------------------------------------------ (f) ensure_deleted(recursive=True) *)
Lemma In_has N q n : In (q, n) N -> has N q = true.
Proof. intros H. destruct (In_lookup _ _ _ H) as [b Hb]. unfold has, find. rewrite Hb. reflexivity. Qed.

Lemma has_In N q : has N q = true -> q <> [] -> exists n, In (q, n) N.
Proof.
  unfold has, find. destruct (lookup q N) eqn:L; intros H Hq.
  - eexists. apply lookup_In. exact L.
  - destruct q; [congruence | discriminate].
Qed.

Lemma In_children N p q : has N q = true -> q <> [] -> removelast q = p -> In (last q []) (children N p).
Proof.
  intros H Hq Hr. destruct (has_In _ _ H Hq) as [n Hn]. unfold children.
  change (last q []) with ((fun e : path * node => last (fst e) []) (q, n)). apply in_map.
  apply filter_In. split; [exact Hn|]. cbn. unfold is_child. destruct q; [congruence|]. rewrite Hr. apply path_eqb_refl.
Qed.

Lemma children_nil_intro N p :
  (forall q, has N q = true -> q <> [] -> removelast q = p -> False) -> children N p = [].
Proof.
  intros H. unfold children. destruct (filter (fun e => is_child p (fst e)) N) as [|[q n] l] eqn:F; [reflexivity|].
  exfalso. assert (I : In (q, n) (filter (fun e => is_child p (fst e)) N)) by (rewrite F; left; reflexivity).
  apply filter_In in I as [I1 I2]. cbn in I2. unfold is_child in I2. destruct q as [|s q]; [discriminate|].
  apply path_eqb_eq in I2. exact (H _ (In_has _ _ _ I1) ltac:(discriminate) I2).
Qed.

Lemma maxlen_In N q n : In (q, n) N -> (length q <= maxlen N)%nat.
Proof.
  induction N as [|[k b] N IH]; cbn; [tauto|]. intros [H|H].
  - inversion H; subst. lia.
  - specialize (IH H). lia.
Qed.

Lemma maxlen_bound N q : has N q = true -> (length q <= maxlen N)%nat.
Proof.
  intros H. destruct q as [|s q]; [cbn; lia|]. destruct (has_In _ _ H ltac:(discriminate)) as [n Hn].
  exact (maxlen_In _ _ _ Hn).
Qed.

Definition removed (t t' : tree) (p : path) : Prop :=
  forall q, find (nodes t') q = if prefixb p q then None else find (nodes t) q.
Definition bounded (t : tree) (p : path) (k : nat) : Prop :=
  forall q, has (nodes t) q = true -> prefixb p q = true -> (length q <= length p + k)%nat.

Lemma wf_remove_subtree N N' p : wf N -> p <> [] ->
  (forall q, find N' q = if prefixb p q then None else find N q) -> wf N'.
Proof.
  intros W Hp F q Hq. unfold has in Hq |- *. rewrite F in Hq |- *. destruct (prefixb p q) eqn:E; [discriminate|].
  destruct (prefixb p (removelast q)) eqn:E2; [apply prefixb_removelast in E2; congruence|]. exact (W _ Hq).
Qed.

Lemma removed_absent t p : wf (nodes t) -> find (nodes t) p = None -> removed t t p.
Proof.
  intros W H q. destruct (prefixb p q) eqn:P; [|reflexivity]. destruct (prefixb_app _ _ P) as [r Hr]. subst q.
  destruct (has (nodes t) (p ++ r)) eqn:Hq; [|apply has_false; exact Hq].
  apply (wf_prefix _ W) in Hq. apply has_false in H. congruence.
Qed.

Lemma del_quiet_leaf t p n : p <> [] -> find (nodes t) p = Some n -> children (nodes t) p = [] ->
  exists t', del_quiet t p = (RNone, t') /\
    forall q, find (nodes t') q = if path_eqb p q then None else find (nodes t) q.
Proof.
  intros Hp H Hc. unfold del_quiet, srv_delete. destruct p; [congruence|]. cbv iota. rewrite H, Hc.
  eexists. split; [reflexivity|]. intros q. cbn [nodes]. apply find_del_where. reflexivity.
Qed.

Lemma ens_del_unfold k t p : ens_del (S k) t p =
  match find (nodes t) p with
  | None => (RNone, t)
  | Some _ =>
      match fold_left (fun (acc : res * tree) c =>
                         match fst acc with RExn _ => acc | _ => ens_del k (snd acc) (p ++ [c]) end)
                      (children (nodes t) p) (RNone, t) with
      | (RExn e, t') => (RExn e, t')
      | (_, t') => del_quiet t' p
      end
  end.
Proof. reflexivity. Qed.

Lemma prefixb_child_false (p : path) c : prefixb (p ++ [c]) p = false.
Proof.
  destruct (prefixb (p ++ [c]) p) eqn:E; [|reflexivity]. apply prefixb_length in E. rewrite app_length in E. cbn in E. lia.
Qed.

Lemma ens_del_fold (F : tree -> path -> res * tree) p k :
  (forall t1 c, wf (nodes t1) -> bounded t1 (p ++ [c]) k ->
                exists t2, F t1 (p ++ [c]) = (RNone, t2) /\ removed t1 t2 (p ++ [c])) ->
  forall cs t1, wf (nodes t1) -> bounded t1 p (S k) ->
  exists t2, fold_left (fun (acc : res * tree) c =>
                          match fst acc with RExn _ => acc | _ => F (snd acc) (p ++ [c]) end) cs (RNone, t1)
             = (RNone, t2) /\ wf (nodes t2) /\
             forall q, find (nodes t2) q =
                       if existsb (fun c => prefixb (p ++ [c]) q) cs then None else find (nodes t1) q.
Proof.
  intros HF. induction cs as [|c r IH]; intros t1 W B.
  - exists t1. cbn. auto.
  - cbn [fold_left fst snd].
    assert (B1 : bounded t1 (p ++ [c]) k).
    { intros q Hq Pq. specialize (B q Hq (prefixb_app_l _ _ _ Pq)). rewrite app_length. cbn. lia. }
    destruct (HF t1 c W B1) as [t2 [E R]]. rewrite E.
    assert (W2 : wf (nodes t2)).
    { apply (wf_remove_subtree (nodes t1) _ (p ++ [c])); [exact W | destruct p; discriminate | exact R]. }
    assert (B2 : bounded t2 p (S k)).
    { intros q Hq Pq. apply B; [|exact Pq]. unfold has in Hq |- *. rewrite R in Hq.
      destruct (prefixb (p ++ [c]) q); [discriminate | exact Hq]. }
    destruct (IH t2 W2 B2) as [t3 [E3 [W3 F3]]]. exists t3. split; [exact E3|]. split; [exact W3|].
    intros q. rewrite F3, R. cbn [existsb]. destruct (prefixb (p ++ [c]) q); cbn [orb]; [|reflexivity].
    destruct (existsb (fun c0 => prefixb (p ++ [c0]) q) r); reflexivity.
Qed.

Lemma ens_del_spec : forall k t p, wf (nodes t) -> p <> [] -> bounded t p k ->
  exists t', ens_del (S k) t p = (RNone, t') /\ removed t t' p.
Proof.
  induction k as [|k IH]; intros t p W Hp B; rewrite ens_del_unfold.
  - destruct (find (nodes t) p) as [n|] eqn:Fp; [|exists t; split; [reflexivity | exact (removed_absent t p W Fp)]].
    assert (C : children (nodes t) p = []).
    { apply children_nil_intro. intros q Hq Hq0 Hr.
      assert (P : prefixb p q = true) by (apply prefixb_removelast; rewrite Hr; apply prefixb_refl).
      specialize (B q Hq P). rewrite (length_removelast q Hq0), Hr in B. lia. }
    rewrite C. cbn [fold_left]. destruct (del_quiet_leaf t p n Hp Fp C) as [t' [E F]]. exists t'. split; [exact E|].
    intros q. rewrite F. destruct (path_eqb p q) eqn:E1.
    + apply path_eqb_eq in E1. subst. rewrite prefixb_refl. reflexivity.
    + destruct (prefixb p q) eqn:P; [|reflexivity].
      destruct (has (nodes t) q) eqn:Hq; [|apply has_false; exact Hq].
      exfalso. specialize (B q Hq P). destruct (prefixb_app _ _ P) as [r Hr]. subst q. rewrite app_length in B.
      destruct r; [rewrite app_nil_r, path_eqb_refl in E1; discriminate | cbn in B; lia].
  - destruct (find (nodes t) p) as [n|] eqn:Fp; [|exists t; split; [reflexivity | exact (removed_absent t p W Fp)]].
    destruct (ens_del_fold (ens_del (S k)) p k
                (fun t1 c W1 B1 => IH t1 (p ++ [c]) W1 ltac:(destruct p; discriminate) B1)
                (children (nodes t) p) t W B) as [t2 [E2 [W2 F2]]].
    rewrite E2.
    assert (X0 : forall l, existsb (fun c => prefixb (p ++ [c]) p) l = false).
    { induction l as [|c l IHl]; cbn; [reflexivity|]. rewrite prefixb_child_false. exact IHl. }
    assert (Fp2 : find (nodes t2) p = Some n) by (rewrite F2, X0; exact Fp).
    assert (C2 : children (nodes t2) p = []).
    { apply children_nil_intro. intros q Hq Hq0 Hr. unfold has in Hq. rewrite F2 in Hq.
      destruct (existsb (fun c => prefixb (p ++ [c]) q) (children (nodes t) p)) eqn:X; [discriminate|].
      assert (I : In (last q []) (children (nodes t) p)) by (apply In_children; auto).
      assert (Y : existsb (fun c => prefixb (p ++ [c]) q) (children (nodes t) p) = true).
      { apply existsb_exists. exists (last q []). split; [exact I|]. rewrite <- Hr.
        rewrite <- (app_removelast_last (A:=seg) [] Hq0). apply prefixb_refl. }
      congruence. }
    destruct (del_quiet_leaf t2 p n Hp Fp2 C2) as [t' [E F]]. exists t'. split; [exact E|].
    intros q. rewrite F, F2. destruct (path_eqb p q) eqn:E1.
    + apply path_eqb_eq in E1. subst. rewrite prefixb_refl. reflexivity.
    + destruct (prefixb p q) eqn:P.
      * destruct (has (nodes t) q) eqn:Hq.
        -- destruct (prefixb_app _ _ P) as [r Hr]. subst q.
           destruct r as [|x r]; [rewrite app_nil_r, path_eqb_refl in E1; discriminate|].
           assert (Hx : has (nodes t) (p ++ [x]) = true).
           { apply (wf_prefix _ W r). rewrite <- app_assoc. exact Hq. }
           assert (I : In x (children (nodes t) p)).
           { pose proof (In_children (nodes t) p (p ++ [x]) Hx ltac:(destruct p; discriminate)
                           (removelast_last p x)) as I. rewrite last_last in I. exact I. }
           assert (Y : existsb (fun c => prefixb (p ++ [c]) (p ++ x :: r)) (children (nodes t) p) = true).
           { apply existsb_exists. exists x. split; [exact I|].
             change (x :: r) with ([x] ++ r). rewrite app_assoc. apply prefixb_app_refl. }
           rewrite Y. reflexivity.
        -- apply has_false in Hq. rewrite Hq. destruct (existsb _ _); reflexivity.
      * destruct (existsb (fun c => prefixb (p ++ [c]) q) (children (nodes t) p)) eqn:X; [|reflexivity].
        exfalso. apply existsb_exists in X as [c [_ Pc]]. apply prefixb_app_l in Pc. congruence.
Qed.

(** recursive ensure_deleted on a ZooKeeper tree: never an exception (in particular the recursion never runs out of
    fuel: the result is None), no path at or below p is left, every other path is untouched, wf is kept *)
Theorem ensure_deleted_recursive t p : wf (nodes t) -> p <> [] ->
  exists t', zu_ensure_deleted t p true = (RNone, t') /\ removed t t' p /\ wf (nodes t').
Proof.
  intros W Hp. unfold zu_ensure_deleted.
  assert (B : bounded t p (maxlen (nodes t))).
  { intros q Hq _. pose proof (maxlen_bound _ _ Hq). lia. }
  destruct (ens_del_spec _ t p W Hp B) as [t' [E R]]. exists t'. split; [exact E|]. split; [exact R|].
  exact (wf_remove_subtree _ _ p W Hp R).
Qed.

Theorem backend_delete_refines t p : wf (nodes t) -> p <> [] ->
  exists t', bk_delete t p = (RNone, t') /\ wf (nodes t') /\ forall q, abs t' q = mem_delete p (abs t) q.
Proof.
  intros W Hp. destruct (ensure_deleted_recursive t p W Hp) as [t' [E [R W']]]. exists t'.
  split; [exact E|]. split; [exact W'|]. intros q. unfold abs, mem_delete. rewrite R.
  destruct (prefixb p q); reflexivity.
Qed.

(* ------------------------------------------------------------------ which exceptions create can raise *)
Lemma srv_create_exn_kinds t p v acl eph sequ e t' : srv_create t p v acl eph sequ = (RExn e, t') ->
  (e = ENoNode /\ has (nodes t) (removelast p) = false) \/ e = ENodeExists \/ e = ENoChildEph.
Proof.
  unfold srv_create, has. destruct (find (nodes t) (removelast p)) as [pn|].
  - destruct (match find (nodes t) _ with Some _ => true | None => false end);
      [intros H; inversion H; auto|]. destruct (n_eph pn); intros H; inversion H; auto.
  - intros H. inversion H. auto.
Qed.

Lemma ens_path_from_outcome acl : forall r acc t, has (nodes t) acc = true ->
  fst (ens_path (prefixes_from acc r) acl t) = None \/ fst (ens_path (prefixes_from acc r) acl t) = Some ENoChildEph.
Proof.
  induction r as [|s r IH]; intros acc t H; cbn [prefixes_from ens_path]; [left; reflexivity|].
  destruct (has (nodes t) (acc ++ [s])) eqn:Hs; [exact (IH _ _ Hs)|].
  destruct (srv_create_shape t (acc ++ [s]) [] acl false false) as [[e Ce]|[p' [t1 Ce]]]; rewrite Ce.
  - destruct (srv_create_exn_kinds _ _ _ _ _ _ _ _ Ce) as [[_ X]|[X|X]]; subst.
    + rewrite removelast_last in X. congruence.
    + apply srv_create_nodeexists in Ce. congruence.
    + right. reflexivity.
  - destruct (srv_create_ok _ _ _ _ _ _ _ Ce) as [_ [_ [_ F]]]. apply IH. unfold has. rewrite F, path_eqb_refl. reflexivity.
Qed.

Lemma In_prefixes_from_self : forall r acc, r <> [] -> In (acc ++ r) (prefixes_from acc r).
Proof.
  induction r as [|s r IH]; intros acc H; [congruence|]. cbn [prefixes_from]. destruct r as [|s2 r].
  - left. reflexivity.
  - right. replace (acc ++ s :: s2 :: r) with ((acc ++ [s]) ++ s2 :: r) by (rewrite <- app_assoc; reflexivity).
    apply IH. discriminate.
Qed.

(** create(makepath=True) of a missing node on a wf tree either makes it or raises NoChildrenForEphemeralsError
    (an ephemeral node on the way); nothing else *)
Theorem create_missing_outcome t p v acl eph : wf (nodes t) -> has (nodes t) p = false ->
  (exists t', k_create t p v acl eph false true = (RPath p, t')) \/
  (exists t', k_create t p v acl eph false true = (RExn ENoChildEph, t')).
Proof.
  intros W Hp.
  destruct (k_create_shape t p v acl eph false true) as [[e [t' K]]|[p' [t' K]]].
  - right. exists t'. rewrite K. f_equal. f_equal. revert K. unfold k_create.
    destruct (srv_create_shape t p v acl eph false) as [[e1 Ce]|[p1 [t1 Ce]]]; rewrite Ce; [|discriminate].
    destruct (srv_create_exn_kinds _ _ _ _ _ _ _ _ Ce) as [[X Hpa]|[X|X]]; subst e1.
    + pose proof (ens_path_from_outcome acl (removelast p) [] t (has_root _)) as O. fold (prefixes (removelast p)) in O.
      destruct (ens_path (prefixes (removelast p)) acl t) as [[e2|] t2] eqn:EP; cbn [fst] in O.
      * destruct O as [O|O]; [discriminate|]. inversion O; subst. intros K. inversion K. reflexivity.
      * intros K. destruct (srv_create_exn_kinds _ _ _ _ _ _ _ _ K) as [[X Hpa2]|[X|X]]; subst e.
        -- exfalso. apply has_false in Hpa2. rewrite (ens_path_spec _ _ _ _ EP) in Hpa2.
           assert (I : existsb (path_eqb (removelast p)) (prefixes (removelast p)) = true).
           { apply existsb_exists. exists (removelast p). split; [|apply path_eqb_refl].
             apply (In_prefixes_from_self (removelast p) []). intros Z. rewrite Z in Hpa. rewrite has_root in Hpa.
             discriminate. }
           rewrite I, Hpa in Hpa2. discriminate.
        -- exfalso. apply srv_create_nodeexists in K. unfold has in K. rewrite (ens_path_spec _ _ _ _ EP) in K.
           fold (is_anc p p) in K. rewrite is_anc_self in K. cbn [andb] in K.
           change (has (nodes t) p = true) in K. congruence.
        -- reflexivity.
    + intros K. inversion K; subst. apply srv_create_nodeexists in Ce. congruence.
    + intros K. inversion K. reflexivity.
  - left. exists t'. destruct (k_create_spec _ _ _ _ _ _ _ W K) as [A _]. subst p'. exact K.
Qed.
