(** Proofs about Store/ZkUtils.v (zkutils.py / zkbackend.py over a ZooKeeper tree). *)
From Coq Require Import ZArith List Bool Lia.
From TM Require Import Store.ZkUtils.
Import ListNotations.
Open Scope Z_scope.

(* ------------------------------------------------------------------ equality tests, tables *)
Lemma zl_eqb_eq a b : zl_eqb a b = true <-> a = b.
Proof.
  revert b; induction a as [|x a IH]; intros [|y b]; cbn; split; intros H; try congruence; try discriminate.
  - apply andb_true_iff in H as [H1 H2]. apply Z.eqb_eq in H1. apply IH in H2. congruence.
  - inversion H; subst. rewrite Z.eqb_refl. cbn. apply IH. reflexivity.
Qed.

Lemma path_eqb_eq a b : path_eqb a b = true <-> a = b.
Proof.
  revert b; induction a as [|x a IH]; intros [|y b]; cbn; split; intros H; try congruence; try discriminate.
  - apply andb_true_iff in H as [H1 H2]. apply zl_eqb_eq in H1. apply IH in H2. congruence.
  - inversion H; subst. apply andb_true_iff. split; [apply zl_eqb_eq | apply IH]; reflexivity.
Qed.

Lemma path_eqb_refl p : path_eqb p p = true.
Proof. apply path_eqb_eq. reflexivity. Qed.

Lemma path_eqb_neq a b : a <> b -> path_eqb a b = false.
Proof. intros H. destruct (path_eqb a b) eqn:E; [apply path_eqb_eq in E; congruence | reflexivity]. Qed.

Lemma path_eqb_false a b : path_eqb a b = false -> a <> b.
Proof. intros H E. subst. rewrite path_eqb_refl in H. discriminate. Qed.

Lemma path_eqb_sym a b : path_eqb a b = path_eqb b a.
Proof.
  destruct (path_eqb a b) eqn:E.
  - apply path_eqb_eq in E. subst. symmetry. apply path_eqb_refl.
  - symmetry. apply path_eqb_neq. intros H. subst. rewrite path_eqb_refl in E. discriminate.
Qed.

Lemma lookup_upsert {A} p q (a : A) l :
  lookup q (upsert p a l) = if path_eqb p q then Some a else lookup q l.
Proof.
  induction l as [|[k b] l IH]; cbn.
  - reflexivity.
  - destruct (path_eqb k p) eqn:E; cbn.
    + apply path_eqb_eq in E. subst k. destruct (path_eqb p q); reflexivity.
    + destruct (path_eqb k q) eqn:E2.
      * apply path_eqb_eq in E2. subst k. rewrite path_eqb_sym, E. reflexivity.
      * exact IH.
Qed.

Lemma lookup_del_where {A} (f : path -> bool) q (l : list (path * A)) :
  lookup q (del_where f l) = if f q then None else lookup q l.
Proof.
  induction l as [|[k b] l IH]; cbn.
  - destruct (f q); reflexivity.
  - destruct (f k) eqn:Ek; cbn.
    + destruct (path_eqb k q) eqn:E.
      * apply path_eqb_eq in E. subst k. rewrite Ek in IH |- *. exact IH.
      * exact IH.
    + destruct (path_eqb k q) eqn:E.
      * apply path_eqb_eq in E. subst k. rewrite Ek. reflexivity.
      * exact IH.
Qed.

Lemma find_upsert p q n N : find (upsert p n N) q = if path_eqb p q then Some n else find N q.
Proof.
  unfold find. rewrite lookup_upsert. destruct (path_eqb p q); reflexivity.
Qed.

Lemma find_del_where f q N : f [] = false ->
  find (del_where f N) q = if f q then None else find N q.
Proof.
  intros H0. unfold find. rewrite lookup_del_where. destruct (f q) eqn:E; [|reflexivity].
  destruct q; [congruence | reflexivity].
Qed.

Lemma has_upsert p q n N : has (upsert p n N) q = path_eqb p q || has N q.
Proof. unfold has. rewrite find_upsert. destruct (path_eqb p q); reflexivity. Qed.

Lemma has_root N : has N [] = true.
Proof. unfold has, find. destruct (lookup [] N); reflexivity. Qed.

Lemma lookup_In {A} p (a : A) l : lookup p l = Some a -> In (p, a) l.
Proof.
  induction l as [|[k b] l IH]; cbn; [discriminate|].
  destruct (path_eqb k p) eqn:E.
  - apply path_eqb_eq in E. intros H. inversion H; subst. left. reflexivity.
  - intros H. right. exact (IH H).
Qed.

Lemma In_lookup {A} p (a : A) l : In (p, a) l -> exists b, lookup p l = Some b.
Proof.
  induction l as [|[k b] l IH]; cbn; [tauto|].
  intros [H|H].
  - inversion H; subst. rewrite path_eqb_refl. eauto.
  - destruct (path_eqb k p); eauto.
Qed.

(** a tree as ZooKeeper keeps it: the parent of every node exists *)
Definition wf (N : list (path * node)) : Prop := forall q, has N q = true -> has N (removelast q) = true.
Definition wfb (N : list (path * node)) : bool := forallb (fun e => has N (removelast (fst e))) N.

Lemma wfb_wf N : wfb N = true -> wf N.
Proof.
  intros H q Hq. unfold has in Hq. destruct (find N q) as [n|] eqn:E; [|discriminate].
  unfold find in E. destruct (lookup q N) as [m|] eqn:L.
  - apply lookup_In in L. unfold wfb in H. rewrite forallb_forall in H. exact (H _ L).
  - destruct q; [apply has_root | discriminate].
Qed.

Lemma wf_prefix N : wf N -> forall r a, has N (a ++ r) = true -> has N a = true.
Proof.
  intros W r. induction r as [|x r IH] using rev_ind; intros a H.
  - rewrite app_nil_r in H. exact H.
  - apply IH. apply W in H. rewrite app_assoc, removelast_last in H. exact H.
Qed.

(* ------------------------------------------------------------------ (g) _payload *)
Lemma payload_bytes_verbatim enc b : payload enc (PBytes b) = b /\ length (payload enc (PBytes b)) = length b.
Proof. split; reflexivity. Qed.
Lemma payload_none_empty enc : payload enc PNone = [].
Proof. reflexivity. Qed.
Lemma payload_other_encoder enc x : payload enc (POther x) = enc x.
Proof. reflexivity. Qed.

(* ------------------------------------------------------------------ the server's create *)
Lemma srv_create_exn t p v acl eph sequ e t' : srv_create t p v acl eph sequ = (RExn e, t') -> t' = t.
Proof.
  unfold srv_create. destruct (find (nodes t) (removelast p)) as [pn|]; [|intros H; inversion H; reflexivity].
  destruct (has (nodes t) _); [intros H; inversion H; reflexivity|].
  destruct (n_eph pn); intros H; inversion H; reflexivity.
Qed.

Lemma srv_create_shape t p v acl eph sequ :
  (exists e, srv_create t p v acl eph sequ = (RExn e, t)) \/
  (exists p' t', srv_create t p v acl eph sequ = (RPath p', t')).
Proof.
  unfold srv_create. destruct (find (nodes t) (removelast p)) as [pn|]; [|left; eauto].
  destruct (has (nodes t) _); [left; eauto|].
  destruct (n_eph pn); [left; eauto | right; eauto].
Qed.

Lemma srv_create_ok t p v acl eph p' t' : srv_create t p v acl eph false = (RPath p', t') ->
  p' = p /\ has (nodes t) p = false /\ has (nodes t) (removelast p) = true /\
  forall q, find (nodes t') q = if path_eqb p q then Some (mknode v eph acl) else find (nodes t) q.
Proof.
  unfold srv_create, has. destruct (find (nodes t) (removelast p)) as [pn|]; [|discriminate].
  destruct (find (nodes t) p) eqn:E; [discriminate|].
  destruct (n_eph pn); [discriminate|]. intros H. inversion H; subst. cbn.
  repeat split; try reflexivity. intros q. apply find_upsert.
Qed.

Lemma srv_create_existing t p v acl eph : wf (nodes t) -> has (nodes t) p = true ->
  srv_create t p v acl eph false = (RExn ENodeExists, t).
Proof.
  intros W H. unfold srv_create. pose proof (W _ H) as Hp. unfold has in Hp.
  destruct (find (nodes t) (removelast p)); [|discriminate]. rewrite H. reflexivity.
Qed.

Lemma k_create_existing t p v acl eph mk : wf (nodes t) -> has (nodes t) p = true ->
  k_create t p v acl eph false mk = (RExn ENodeExists, t).
Proof. intros W H. unfold k_create. rewrite (srv_create_existing t p v acl eph W H). reflexivity. Qed.

(* ------------------------------------------------------------------ (c) create of an existing node *)
Theorem create_existing_raises enc t p d acl dflt eph : wf (nodes t) -> has (nodes t) p = true ->
  zu_create enc t p d acl false dflt eph = (RExn ENodeExists, t).
Proof. intros W H. unfold zu_create, c_create. apply k_create_existing; assumption. Qed.

(* ------------------------------------------------------------------ set / set_acls *)
Lemma srv_set_find t p v n : find (nodes t) p = Some n ->
  srv_set t p v = (RTrue, {| nodes := upsert p {| n_data := v; n_eph := n_eph n; n_ver := n_ver n + 1;
                                                   n_acl := n_acl n |} (nodes t); cvs := cvs t |}).
Proof. intros H. unfold srv_set. rewrite H. reflexivity. Qed.

Lemma set_and_acl_spec t p pl ra n : find (nodes t) p = Some n ->
  exists t', set_and_acl t p pl ra = (RPath p, t') /\ cvs t' = cvs t /\
    forall q, find (nodes t') q =
      if path_eqb p q then Some {| n_data := pl; n_eph := n_eph n; n_ver := n_ver n + 1; n_acl := mk_default ra |}
      else find (nodes t) q.
Proof.
  intros H. unfold set_and_acl. rewrite (srv_set_find t p pl n H). unfold c_set_acls, srv_set_acls. cbn [nodes cvs].
  rewrite find_upsert, path_eqb_refl. cbn. eexists. split; [reflexivity|]. split; [reflexivity|].
  intros q. cbn. rewrite !find_upsert. destruct (path_eqb p q); reflexivity.
Qed.

(** put on an existing node: what the except branch does *)
Lemma zu_put_existing enc t p d acl dflt eph chk n : wf (nodes t) -> find (nodes t) p = Some n ->
  zu_put enc t p d acl false dflt eph chk =
  if chk && zl_eqb (n_data n) (payload enc d) then (RNone, t)
  else set_and_acl t p (payload enc d) (realacl dflt acl).
Proof.
  intros W H. unfold zu_put, c_create.
  rewrite k_create_existing by (try assumption; unfold has; rewrite H; reflexivity).
  destruct chk; cbn [andb]; [|reflexivity]. unfold srv_get. rewrite H. reflexivity.
Qed.

(* ------------------------------------------------------------------ (b) check_content *)
Theorem put_same_payload_no_write enc t p d acl dflt eph n : wf (nodes t) -> find (nodes t) p = Some n ->
  (snd (zu_put enc t p d acl false dflt eph true) = t <-> n_data n = payload enc d) /\
  (n_data n = payload enc d -> zu_put enc t p d acl false dflt eph true = (RNone, t)) /\
  (n_data n <> payload enc d -> exists t', zu_put enc t p d acl false dflt eph true = (RPath p, t') /\
      find (nodes t') p = Some {| n_data := payload enc d; n_eph := n_eph n; n_ver := n_ver n + 1;
                                  n_acl := mk_default (realacl dflt acl) |}).
Proof.
  intros W H. rewrite (zu_put_existing enc t p d acl dflt eph true n W H). cbn [andb].
  destruct (zl_eqb (n_data n) (payload enc d)) eqn:E.
  - apply zl_eqb_eq in E. split; [split; intros; [assumption | reflexivity]|]. split; [reflexivity | congruence].
  - assert (Hne : n_data n <> payload enc d) by (intros X; apply zl_eqb_eq in X; congruence).
    destruct (set_and_acl_spec t p (payload enc d) (realacl dflt acl) n H) as [t' [E1 [E2 E3]]].
    rewrite E1. cbn [snd]. split; [split|split].
    + intros X. subst t'. specialize (E3 p). rewrite path_eqb_refl, H in E3. inversion E3 as [Hn].
      exfalso. assert (Hv : n_ver n = n_ver n + 1) by (rewrite Hn at 1; reflexivity). lia.
    + intros X. contradiction.
    + intros X. contradiction.
    + intros _. exists t'. split; [reflexivity|]. rewrite E3, path_eqb_refl. reflexivity.
Qed.

(** without check_content the same payload is written again: the version moves *)
Theorem put_same_payload_rewrites_witness enc t p d acl dflt eph n : wf (nodes t) -> find (nodes t) p = Some n ->
  exists t', zu_put enc t p d acl false dflt eph false = (RPath p, t') /\
    find (nodes t') p = Some {| n_data := payload enc d; n_eph := n_eph n; n_ver := n_ver n + 1;
                                n_acl := mk_default (realacl dflt acl) |}.
Proof.
  intros W H. rewrite (zu_put_existing enc t p d acl dflt eph false n W H). cbn [andb].
  destruct (set_and_acl_spec t p (payload enc d) (realacl dflt acl) n H) as [t' [E1 [E2 E3]]].
  exists t'. split; [exact E1|]. rewrite E3, path_eqb_refl. reflexivity.
Qed.

(* ------------------------------------------------------------------ (d) update never creates *)
Theorem update_never_creates enc t p d chk r t' : zu_update enc t p d chk = (r, t') ->
  (forall q, has (nodes t') q = has (nodes t) q) /\
  (has (nodes t) p = false -> r = RExn ENoNode /\ t' = t) /\
  (forall q, q <> p -> find (nodes t') q = find (nodes t) q) /\
  (forall n, find (nodes t) p = Some n ->
     (r = RNone /\ t' = t /\ chk = true /\ n_data n = payload enc d) \/
     (r = RPath p /\ (chk = true -> n_data n <> payload enc d) /\
      find (nodes t') p = Some {| n_data := payload enc d; n_eph := n_eph n; n_ver := n_ver n + 1;
                                  n_acl := n_acl n |})).
Proof.
  unfold zu_update, srv_get, srv_set, has. destruct (find (nodes t) p) as [n|] eqn:E.
  - intros H.
    assert (Hset : forall (X : (r, t') = (RPath p, {| nodes := upsert p {| n_data := payload enc d; n_eph := n_eph n;
                     n_ver := n_ver n + 1; n_acl := n_acl n |} (nodes t); cvs := cvs t |})),
               (forall q, match find (nodes t') q with Some _ => true | None => false end =
                          match find (nodes t) q with Some _ => true | None => false end) /\
               (forall q, q <> p -> find (nodes t') q = find (nodes t) q) /\
               find (nodes t') p = Some {| n_data := payload enc d; n_eph := n_eph n; n_ver := n_ver n + 1;
                                           n_acl := n_acl n |}).
    { intros X. inversion X; subst. cbn [nodes]. split; [|split].
      - intros q. rewrite find_upsert. destruct (path_eqb p q) eqn:Q; [|reflexivity].
        apply path_eqb_eq in Q. subst q. rewrite E. reflexivity.
      - intros q Hq. rewrite find_upsert, path_eqb_neq by congruence. reflexivity.
      - rewrite find_upsert, path_eqb_refl. reflexivity. }
    destruct chk.
    + destruct (zl_eqb (n_data n) (payload enc d)) eqn:Q.
      * inversion H; subst. apply zl_eqb_eq in Q. split; [reflexivity|]. split; [discriminate|].
        split; [reflexivity|]. intros m Hm. inversion Hm; subst. left. auto.
      * destruct (Hset (eq_sym H)) as [A [B C]]. split; [exact A|]. split; [discriminate|]. split; [exact B|].
        intros m Hm. inversion Hm; subst m. right. split; [inversion H; reflexivity|]. split; [|exact C].
        intros _ X. apply zl_eqb_eq in X. congruence.
    + destruct (Hset (eq_sym H)) as [A [B C]]. split; [exact A|]. split; [discriminate|]. split; [exact B|].
      intros m Hm. inversion Hm; subst m. right. split; [inversion H; reflexivity|]. split; [discriminate|exact C].
  - intros H. assert (X : r = RExn ENoNode /\ t' = t) by (destruct chk; inversion H; auto).
    destruct X; subst. split; [reflexivity|]. split; [auto|]. split; [reflexivity|]. intros n Hn. discriminate.
Qed.

(* ------------------------------------------------------------------ (e) ensure_exists, node present *)
Theorem ensure_exists_existing enc t p acl d n : wf (nodes t) -> find (nodes t) p = Some n ->
  exists t', zu_ensure_exists enc t p acl false d = (RPath p, t') /\ cvs t' = cvs t /\
    forall q, find (nodes t') q =
      if path_eqb p q
      then Some (if is_none d
                 then {| n_data := n_data n; n_eph := n_eph n; n_ver := n_ver n; n_acl := mk_default (Some (mk_default acl)) |}
                 else {| n_data := payload enc d; n_eph := n_eph n; n_ver := n_ver n + 1;
                         n_acl := mk_default (Some (mk_default acl)) |})
      else find (nodes t) q.
Proof.
  intros W H. unfold zu_ensure_exists, c_create.
  rewrite k_create_existing by (try assumption; unfold has; rewrite H; reflexivity).
  destruct (is_none d).
  - unfold c_set_acls, srv_set_acls. rewrite H. eexists. split; [reflexivity|]. split; [reflexivity|].
    intros q. cbn. apply find_upsert.
  - rewrite (srv_set_find t p _ n H). unfold c_set_acls, srv_set_acls. cbn [nodes cvs].
    rewrite find_upsert, path_eqb_refl. eexists. split; [reflexivity|]. split; [reflexivity|].
    intros q. cbn. rewrite !find_upsert. destruct (path_eqb p q); reflexivity.
Qed.

(** data=b'' is "given": it overwrites, data=None does not *)
Theorem ensure_exists_empty_bytes_overwrites_witness :
  let t := {| nodes := [([[97]], mknode [120] false [31])]; cvs := [] |} in
  option_map n_data (find (nodes (snd (zu_ensure_exists (fun x => x) t [[97]] None false (PBytes [])))) [[97]]) = Some [] /\
  option_map n_data (find (nodes (snd (zu_ensure_exists (fun x => x) t [[97]] None false PNone))) [[97]]) = Some [120].
Proof. vm_compute. split; reflexivity. Qed.

(* ------------------------------------------------------------------ (f) ensure_deleted, the easy half *)
Theorem ensure_deleted_absent t p rec : has (nodes t) p = false -> zu_ensure_deleted t p rec = (RNone, t).
Proof.
  unfold zu_ensure_deleted, del_quiet, srv_delete, has. intros H.
  destruct (find (nodes t) p) eqn:E; [discriminate|]. destruct rec.
  - cbn. rewrite E. reflexivity.
  - destruct p; [unfold find in E; destruct (lookup [] (nodes t)); discriminate|]. reflexivity.
Qed.

Theorem ensure_deleted_leaf t p n : p <> [] -> find (nodes t) p = Some n -> children (nodes t) p = [] ->
  forall rec, exists t', zu_ensure_deleted t p rec = (RNone, t') /\
    forall q, find (nodes t') q = if path_eqb p q then None else find (nodes t) q.
Proof.
  intros Hp H Hc rec.
  assert (D : exists t', del_quiet t p = (RNone, t') /\
                forall q, find (nodes t') q = if path_eqb p q then None else find (nodes t) q).
  { unfold del_quiet, srv_delete. destruct p; [congruence|]. cbv iota. rewrite H, Hc. eexists. split; [reflexivity|].
    intros q. cbn [nodes]. apply find_del_where. reflexivity. }
  destruct rec; [|exact D]. unfold zu_ensure_deleted. cbn [ens_del]. rewrite H, Hc. cbn [fold_left]. exact D.
Qed.

(** recursive=False on a node with children: NotEmptyError, nothing deleted *)
Theorem ensure_deleted_nonrecursive_nonempty t p n : p <> [] -> find (nodes t) p = Some n ->
  children (nodes t) p <> [] -> zu_ensure_deleted t p false = (RExn ENotEmpty, t).
Proof.
  intros Hp H Hc. unfold zu_ensure_deleted, del_quiet, srv_delete. destruct p as [|s0 p0]; [congruence|]. cbv iota. rewrite H.
  destruct (children (nodes t) (s0 :: p0)); [congruence | reflexivity].
Qed.

(* ------------------------------------------------------------------ (h) sequence nodes *)
Theorem sequence_create_name t p v acl eph p' t' : srv_create t p v acl eph true = (RPath p', t') ->
  p' = seq_name p (cv_of (cvs t) (removelast p)) /\ has (nodes t) p' = false /\ has (nodes t') p' = true /\
  cv_of (cvs t') (removelast p) = cv_of (cvs t) (removelast p) + 1.
Proof.
  unfold srv_create. destruct (find (nodes t) (removelast p)) as [pn|]; [|discriminate].
  destruct (has (nodes t) (seq_name p _)) eqn:E; [discriminate|].
  destruct (n_eph pn); [discriminate|]. intros H. inversion H; subst. cbn [nodes cvs].
  split; [reflexivity|]. split; [exact E|]. split.
  - rewrite has_upsert, path_eqb_refl. reflexivity.
  - unfold cv_of. rewrite !lookup_upsert, path_eqb_refl.
    assert (N : path_eqb (seq_name p (cv_of (cvs t) (removelast p))) (removelast p) = false).
    { apply path_eqb_neq. unfold seq_name. intros X. apply (f_equal (@length seg)) in X.
      rewrite app_length in X. cbn in X. lia. }
    unfold cv_of in N. rewrite N. reflexivity.
Qed.

Definition dval (l : list Z) : Z := fold_left (fun a d => a * 10 + (d - 48)) l 0.

Lemma digs_val k : forall z acc s,
  fold_left (fun a d => a * 10 + (d - 48)) (digs k z acc) s =
  fold_left (fun a d => a * 10 + (d - 48)) acc (s * 10 ^ Z.of_nat k + z mod 10 ^ Z.of_nat k).
Proof.
  induction k as [|k IH]; intros z acc s.
  - cbn [digs]. change (10 ^ Z.of_nat 0) with 1. rewrite Z.mod_1_r. f_equal. lia.
  - cbn [digs]. rewrite IH. cbn [fold_left]. f_equal.
    rewrite Nat2Z.inj_succ, Z.pow_succ_r by lia.
    rewrite (Z.rem_mul_r z 10 (10 ^ Z.of_nat k)) by lia. lia.
Qed.

Theorem digits10_injective a b : 0 <= a < 10 ^ 10 -> 0 <= b < 10 ^ 10 -> digits10 a = digits10 b -> a = b.
Proof.
  intros Ha Hb H. apply (f_equal dval) in H. unfold dval, digits10 in H. rewrite !digs_val in H. cbn [fold_left] in H.
  change (Z.of_nat 10) with 10 in H. rewrite !Z.mod_small in H by lia. lia.
Qed.

Lemma digits10_length z : length (digits10 z) = 10%nat.
Proof. reflexivity. Qed.

(** two counters give two names *)
Theorem sequence_names_distinct p a b : 0 <= a < 10 ^ 10 -> 0 <= b < 10 ^ 10 -> a <> b -> seq_name p a <> seq_name p b.
Proof.
  intros Ha Hb Hab X. unfold seq_name in X. apply app_inv_head in X. inversion X as [Y].
  apply app_inv_head in Y. apply Hab. apply digits10_injective; assumption.
Qed.

(** "this will never happen for sequence node" (comment in put): it does when somebody made a node with the name the
    counter yields next; put then falls into the except branch and set()s the UNSUFFIXED path: here "/a" is
    overwritten although a sequence put of "/a" was asked for *)
Theorem put_sequence_collision_witness :
  let t0 := {| nodes := []; cvs := [] |} in
  let t1 := snd (c_create t0 [[97]] [120] None false false false) in                     (* /a = "x", cversion of / = 1 *)
  let t2 := snd (c_create t1 [[97; 48;48;48;48;48;48;48;48;48;50]] [] None false false false) in   (* /a0000000002 *)
  fst (zu_put (fun x => x) t2 [[97]] (PBytes [121]) None true true false false) = RPath [[97]] /\
  option_map n_data (find (nodes (snd (zu_put (fun x => x) t2 [[97]] (PBytes [121]) None true true false false))) [[97]])
    = Some [121].
Proof. vm_compute. split; reflexivity. Qed.

(* ------------------------------------------------------------------ ZkReadonlyBackend *)
Theorem readonly_backend_never_writes t p d chk :
  snd (ro_put t p d) = t /\ snd (ro_ensure_exists t p) = t /\ snd (ro_delete t p) = t /\ snd (ro_update t p d chk) = t.
Proof. repeat split. Qed.

(* ------------------------------------------------------------------ (i) ZkBackend.put, node present *)
Theorem backend_put_existing_is_map_update enc aclf t p d n : wf (nodes t) -> find (nodes t) p = Some n ->
  exists t', bk_put enc aclf t p d = (RPath p, t') /\
    forall q, option_map n_data (find (nodes t') q) =
              if path_eqb p q then Some (payload enc d) else option_map n_data (find (nodes t) q).
Proof.
  intros W H. unfold bk_put. rewrite (zu_put_existing enc t p d (aclf p) true false false n W H). cbn [andb].
  destruct (set_and_acl_spec t p (payload enc d) (realacl true (aclf p)) n H) as [t' [E1 [_ E3]]].
  exists t'. split; [exact E1|]. intros q. rewrite E3. destruct (path_eqb p q); reflexivity.
Qed.
