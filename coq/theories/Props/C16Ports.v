(** C16, third anchored mechanism: "runtime.allocate_network_ports keeps prod and non-prod port ranges disjoint
    and ports distinct" (lib/python/treadmill/runtime/__init__.py:128-222).

    Model: Node/Ports.v (_allocate_sockets, _allocate_network_ports_proto, allocate_network_ports, statement by
    statement).  The five constants PORT_SPAN, PROD_PORT_LOW/HIGH, NONPROD_PORT_LOW/HIGH are
    [TM.Node.PortsRun.ports_tables], assembled from definitions that harness/tables_ports.py regenerates from
    the source on every run (the shape of the three functions is pinned there by AST template); the theorems that
    need the constants carry the premise [ports_tables_ok T = true], discharged by [C16P_tables_ok].

    Inputs of the model that come from the implementation: the list random.sample returned for each protocol
    ([sample_ok]: no repetition, inside the pool of the manifest's environment) and, per socket type, the set of
    ports on which bind() fails with EADDRINUSE ([busy : Z -> bool], any predicate).  Every theorem holds for ALL
    manifests, samples and busy sets.

    Environment codes 0 dev 1 qa 2 uat 3 prod; protocol codes 0 (no 'proto' key = tcp) 1 tcp 2 udp. *)
From Coq Require Import ZArith List Bool.
From TM Require Import Node.Ports Node.PortsP Node.PortsRun Gen.Tables.
Import ListNotations.
Open Scope Z_scope.

(** the source's constants: two well-formed, disjoint port ranges, each at least PORT_SPAN wide *)
Theorem C16P_tables_ok : ports_tables_ok ports_tables = true.
Proof. vm_compute. reflexivity. Qed.
Print Assumptions C16P_tables_ok.

(** random.sample(pool, PORT_SPAN) can be drawn (no ValueError) *)
Theorem C16P_sample_possible : forall T e, ports_tables_ok T = true ->
  0 < pt_span T <= pool_high T e - pool_low T e + 1.
Proof. intros T e H. exact (sample_possible T e H). Qed.
Print Assumptions C16P_sample_possible.

(** _allocate_sockets in closed form: the first [count] free ports of the sample in sample order, provided [count]
    free ports occur BEFORE the last element of the sample ([enough]); otherwise the error, raised after binding
    every free port of the sample *)
Theorem C16P_sockets_spec : forall busy sample count,
  allocate_sockets busy sample count =
  if enough busy sample count then SOk (firstn count (free busy sample)) else SErr (free busy sample).
Proof. intros busy sample count. exact (allocate_sockets_spec busy sample count). Qed.
Print Assumptions C16P_sockets_spec.

Theorem C16P_enough_iff : forall busy sample count,
  enough busy sample count = true <->
  sample <> [] /\ (count <= length (free busy (removelast sample)))%nat.
Proof. intros busy sample count. exact (enough_true_iff busy sample count). Qed.
Print Assumptions C16P_enough_iff.

(** (a) the ports of one call are pairwise distinct, none of them is busy, all are from the sample;
    (c) there are exactly [count] of them *)
Theorem C16P_sockets_distinct_free : forall busy sample count l,
  NoDup sample -> allocate_sockets busy sample count = SOk l ->
  NoDup l /\ (forall p, In p l -> busy p = false /\ In p sample) /\
  length l = count /\ l = firstn count (free busy sample).
Proof.
  intros busy sample count l Hnd H.
  exact (conj (proj1 (alloc_ok_distinct busy sample count l Hnd H))
          (conj (proj2 (alloc_ok_distinct busy sample count l Hnd H))
             (conj (proj1 (proj2 (alloc_ok busy sample count l H))) (proj1 (alloc_ok busy sample count l H))))).
Qed.
Print Assumptions C16P_sockets_distinct_free.

(** (c) the error.  Strictly more free ports in the sample than needed: never.  Fewer: always (after binding all of
    them).  EXACTLY as many as needed: raised iff the last element of the sample is one of them - the loop tests
    len(sockets) == count at the top of the next iteration, and there is none: the for-else raises
    ContainerSetupError('count < count') although all the ports were bound *)
Theorem C16P_more_free_never_error : forall busy sample count,
  (count < length (free busy sample))%nat ->
  allocate_sockets busy sample count = SOk (firstn count (free busy sample)).
Proof. intros busy sample count H. exact (alloc_more_ok busy sample count H). Qed.
Print Assumptions C16P_more_free_never_error.

Theorem C16P_fewer_free_error : forall busy sample count,
  (length (free busy sample) < count)%nat ->
  allocate_sockets busy sample count = SErr (free busy sample).
Proof. intros busy sample count H. exact (alloc_fewer_err busy sample count H). Qed.
Print Assumptions C16P_fewer_free_error.

Theorem C16P_exactly_enough_boundary : forall busy sample count,
  sample <> [] -> length (free busy sample) = count ->
  allocate_sockets busy sample count =
  if busy (last sample 0) then SOk (free busy sample) else SErr (free busy sample).
Proof. intros busy sample count Hne H. exact (alloc_exact_boundary busy sample count Hne H). Qed.
Print Assumptions C16P_exactly_enough_boundary.

Theorem C16P_error_iff : forall busy sample count,
  (exists got, allocate_sockets busy sample count = SErr got) <->
  sample = [] \/ (length (free busy sample) < count)%nat \/
  (length (free busy sample) = count /\ busy (last sample 0) = false).
Proof. intros busy sample count. exact (alloc_error_iff busy sample count). Qed.
Print Assumptions C16P_error_iff.

(** "the error iff fewer free ports than needed are in the sample" does NOT hold: enough free ports, yet the error *)
Theorem C16P_error_iff_fewer_refuted :
  exists busy sample count,
    NoDup sample /\ sample <> [] /\ length (free busy sample) = count /\
    allocate_sockets busy sample count = SErr (free busy sample) /\ length (free busy sample) = count.
Proof. exact alloc_error_iff_fewer_refuted. Qed.
Print Assumptions C16P_error_iff_fewer_refuted.

(** the error value carries what was bound: all free ports of the sample, at most [count] *)
Theorem C16P_error_value : forall busy sample count got,
  allocate_sockets busy sample count = SErr got ->
  got = free busy sample /\ (length got <= count)%nat /\ enough busy sample count = false.
Proof. intros busy sample count got H. exact (alloc_err busy sample count got H). Qed.
Print Assumptions C16P_error_value.

(** (d) one protocol pass: n = number of endpoints of that protocol ('proto' absent = tcp).  The sockets are the n
    endpoint ports followed by the ephemeral ports; the endpoint at manifest index i gets the socket whose index is
    the number of same-protocol endpoints before it; endpoints of other protocols are not touched; names, protocols,
    order and number of endpoints never change *)
Theorem C16P_proto_pass : forall busy sample proto eps ec eps' eph socks,
  allocate_proto busy sample proto eps ec = POk eps' eph socks ->
  let n := n_matching proto eps in
  allocate_sockets busy sample (n + ec) = SOk socks /\
  length socks = (n + ec)%nat /\
  socks = firstn n socks ++ eph /\ length eph = ec /\ eph = skipn n socks /\
  length eps' = length eps /\
  map ep_name eps' = map ep_name eps /\ map ep_proto eps' = map ep_proto eps /\
  real_ports proto eps' = map Some (firstn n socks) /\
  (forall i e, nth_error eps i = Some e ->
     if ep_matches proto e
     then exists p, nth_error socks (n_matching proto (firstn i eps)) = Some p /\
                    (n_matching proto (firstn i eps) < n)%nat /\
                    nth_error eps' i = Some (set_real e p)
     else nth_error eps' i = Some e).
Proof. intros busy sample proto eps ec eps' eph socks H. exact (proto_ok busy sample proto eps ec eps' eph socks H). Qed.
Print Assumptions C16P_proto_pass.

Theorem C16P_proto_error : forall busy sample proto eps ec got,
  allocate_proto busy sample proto eps ec = PErr got ->
  allocate_sockets busy sample (n_matching proto eps + ec) = SErr got.
Proof. intros busy sample proto eps ec got H. exact (proto_err busy sample proto eps ec got H). Qed.
Print Assumptions C16P_proto_error.

(** (d) what "gets the socket p" means: real_port = p; port 0 becomes p, any other port is kept; name and protocol
    are kept *)
Theorem C16P_port_zero : forall e p,
  ep_real (set_real e p) = Some p /\
  (ep_port e = 0 -> ep_port (set_real e p) = p) /\
  (ep_port e <> 0 -> ep_port (set_real e p) = ep_port e) /\
  ep_name (set_real e p) = ep_name e /\ ep_proto (set_real e p) = ep_proto e.
Proof. intros e p. exact (set_real_port e p). Qed.
Print Assumptions C16P_port_zero.

(** allocate_network_ports, success: (a) (b) (c) (d) together, for every manifest, both samples, both busy sets *)
Theorem C16P_network_ok : forall T m st su bt bu tcp udp,
  sample_ok T (m_env m) st -> sample_ok T (m_env m) su ->
  r_out (allocate_network_ports m st su bt bu) = OOk tcp udp ->
  let r := allocate_network_ports m st su bt bu in
  let nt := n_matching P_TCP (m_eps m) in
  let nu := n_matching P_UDP (m_eps m) in
  length tcp = n_tcp m /\ length udp = n_udp m /\
  NoDup tcp /\ NoDup udp /\
  (forall p, In p tcp -> bt p = false) /\ (forall p, In p udp -> bu p = false) /\
  (forall p, In p tcp \/ In p udp -> in_pool T (m_env m) p = true) /\
  tcp = firstn (n_tcp m) (free bt st) /\ udp = firstn (n_udp m) (free bu su) /\
  real_ports P_TCP (r_eps r) = map Some (firstn nt tcp) /\
  real_ports P_UDP (r_eps r) = map Some (firstn nu udp) /\
  r_eph_tcp r = EPorts (skipn nt tcp) /\ r_eph_udp r = EPorts (skipn nu udp) /\
  length (skipn nt tcp) = ecount (m_eph_tcp m) /\ length (skipn nu udp) = ecount (m_eph_udp m) /\
  length (r_eps r) = length (m_eps m) /\
  map ep_name (r_eps r) = map ep_name (m_eps m) /\ map ep_proto (r_eps r) = map ep_proto (m_eps m) /\
  (forall i e, nth_error (m_eps m) i = Some e ->
     if ep_matches P_TCP e
     then exists p, nth_error tcp (n_matching P_TCP (firstn i (m_eps m))) = Some p /\
                    nth_error (r_eps r) i = Some (set_real e p)
     else if ep_matches P_UDP e
     then exists p, nth_error udp (n_matching P_UDP (firstn i (m_eps m))) = Some p /\
                    nth_error (r_eps r) i = Some (set_real e p)
     else nth_error (r_eps r) i = Some e).
Proof.
  intros T m st su bt bu tcp udp Hst Hsu Hout. exact (network_ok T m st su bt bu tcp udp Hst Hsu Hout).
Qed.
Print Assumptions C16P_network_ok.

(** which of the three outcomes: decided by [enough] on the two samples (so: with the boundary case above) *)
Theorem C16P_network_error_iff : forall m st su bt bu,
  let r := allocate_network_ports m st su bt bu in
  ((exists got, r_out r = OErrTcp got) <-> enough bt st (n_tcp m) = false) /\
  ((exists got, r_out r = OErrUdp got) <-> enough bt st (n_tcp m) = true /\ enough bu su (n_udp m) = false) /\
  ((exists tcp udp, r_out r = OOk tcp udp) <-> enough bt st (n_tcp m) = true /\ enough bu su (n_udp m) = true).
Proof. intros m st su bt bu. exact (network_error_iff m st su bt bu). Qed.
Print Assumptions C16P_network_error_iff.

(** the whole result as a function of the two socket allocations; a tcp error leaves the manifest untouched *)
Theorem C16P_network_outcome : forall m st su bt bu,
  let r := allocate_network_ports m st su bt bu in
  match allocate_sockets bt st (n_tcp m) with
  | SErr got => r_out r = OErrTcp got /\ r_eps r = m_eps m /\
                r_eph_tcp r = EKeep (m_eph_tcp m) /\ r_eph_udp r = EKeep (m_eph_udp m)
  | SOk tcp =>
      r_eph_tcp r = EPorts (skipn (n_matching P_TCP (m_eps m)) tcp) /\
      match allocate_sockets bu su (n_udp m) with
      | SErr got => r_out r = OErrUdp got /\ r_eps r = assign P_TCP (m_eps m) tcp /\
                    r_eph_udp r = EKeep (m_eph_udp m)
      | SOk udp => r_out r = OOk tcp udp /\
                   r_eps r = assign P_UDP (assign P_TCP (m_eps m) tcp) udp /\
                   r_eph_udp r = EPorts (skipn (n_matching P_UDP (m_eps m)) udp)
      end
  end.
Proof. intros m st su bt bu. exact (network_outcome m st su bt bu). Qed.
Print Assumptions C16P_network_outcome.

(** a udp error leaves the tcp half written on the manifest (real ports, ephemeral list), the udp half as it was *)
Theorem C16P_network_udp_error_state : forall m st su bt bu got,
  r_out (allocate_network_ports m st su bt bu) = OErrUdp got ->
  let r := allocate_network_ports m st su bt bu in
  exists tcp, allocate_sockets bt st (n_tcp m) = SOk tcp /\
    allocate_sockets bu su (n_udp m) = SErr got /\
    r_eps r = assign P_TCP (m_eps m) tcp /\
    real_ports P_TCP (r_eps r) = map Some (firstn (n_matching P_TCP (m_eps m)) tcp) /\
    filter (ep_matches P_UDP) (r_eps r) = filter (ep_matches P_UDP) (m_eps m) /\
    r_eph_tcp r = EPorts (skipn (n_matching P_TCP (m_eps m)) tcp) /\ r_eph_udp r = EKeep (m_eph_udp m).
Proof. intros m st su bt bu got H. exact (network_udp_error_state m st su bt bu got H). Qed.
Print Assumptions C16P_network_udp_error_state.

(** (b) the prod ('uat', 'prod') and non-prod pools share no port ... *)
Theorem C16P_pools_disjoint : forall T e1 e2 p,
  ports_tables_ok T = true -> is_prod_env e1 = true -> is_prod_env e2 = false ->
  in_pool T e1 p = true -> in_pool T e2 p = true -> False.
Proof. intros T e1 e2 p HT H1 H2 Ha Hb. exact (pools_disjoint T e1 e2 p HT H1 H2 Ha Hb). Qed.
Print Assumptions C16P_pools_disjoint.

(** ... so a prod container and a non-prod container never hold the same port number, whatever the protocol *)
Theorem C16P_env_disjoint : forall T m1 st1 su1 bt1 bu1 tcp1 udp1 m2 st2 su2 bt2 bu2 tcp2 udp2 p,
  ports_tables_ok T = true ->
  sample_ok T (m_env m1) st1 -> sample_ok T (m_env m1) su1 ->
  sample_ok T (m_env m2) st2 -> sample_ok T (m_env m2) su2 ->
  is_prod_env (m_env m1) = true -> is_prod_env (m_env m2) = false ->
  r_out (allocate_network_ports m1 st1 su1 bt1 bu1) = OOk tcp1 udp1 ->
  r_out (allocate_network_ports m2 st2 su2 bt2 bu2) = OOk tcp2 udp2 ->
  In p tcp1 \/ In p udp1 -> In p tcp2 \/ In p udp2 -> False.
Proof.
  intros T m1 st1 su1 bt1 bu1 tcp1 udp1 m2 st2 su2 bt2 bu2 tcp2 udp2 p HT A1 A2 B1 B2 E1 E2 O1 O2 H1 H2.
  exact (network_env_disjoint T m1 st1 su1 bt1 bu1 tcp1 udp1 m2 st2 su2 bt2 bu2 tcp2 udp2 p
           HT A1 A2 B1 B2 E1 E2 O1 O2 H1 H2).
Qed.
Print Assumptions C16P_env_disjoint.

(** (e) a tcp endpoint and a udp endpoint of one container MAY get the same number: two socket types, two
    independent samples and busy sets.  Real behaviour (the DNAT rules and endpoint specs carry the protocol) *)
Theorem C16P_tcp_udp_may_share :
  exists m st su bt bu p,
    NoDup st /\ NoDup su /\
    let r := allocate_network_ports m st su bt bu in
    r_out r = OOk [p] [p] /\
    real_ports P_TCP (r_eps r) = [Some p] /\ real_ports P_UDP (r_eps r) = [Some p].
Proof. exact tcp_udp_may_share. Qed.
Print Assumptions C16P_tcp_udp_may_share.

(** the boolean sample check used by the Examples implies the hypothesis of the theorems *)
Theorem C16P_sample_okb : forall T e s, sample_okb T e s = true -> sample_ok T e s.
Proof. intros T e s H. exact (sample_okb_ok T e s H). Qed.
Print Assumptions C16P_sample_okb.

(** * Non-vacuity, on the GENERATED constants *)
Definition ep_ (name proto port : Z) : endpoint :=
  {| ep_name := name; ep_proto := proto; ep_port := port; ep_real := None |}.
Definition none_busy : Z -> bool := fun _ => false.

(* a prod manifest: http (no proto key, port 0), dns/udp 53, ssh/tcp 22, one 'sctp' endpoint; 2 tcp + 1 udp ephemeral *)
Definition ex_m : manifest :=
  {| m_env := ENV_PROD; m_eps := [ep_ 1 0 0; ep_ 2 2 53; ep_ 3 1 22; ep_ 4 7 9];
     m_eph_tcp := Some 2%nat; m_eph_udp := Some 1%nat |}.
Definition ex_st : list Z := [40000; 32768; 40959; 33000; 35000; 36000].
Definition ex_su : list Z := [32768; 40000; 33333].
Definition ex_bt : Z -> bool := fun p => p =? 32768.

Example C16P_ex_samples_ok :
  sample_okb ports_tables ENV_PROD ex_st && sample_okb ports_tables ENV_PROD ex_su = true.
Proof. vm_compute. reflexivity. Qed.

(* tcp: 32768 is busy and skipped; http gets 40000 (and port 40000), ssh 40959, ephemeral 33000 35000;
   udp: dns gets 32768 - the number that is busy for tcp - ephemeral 40000 (also http's tcp port) *)
Example C16P_ex_run :
  let r := allocate_network_ports ex_m ex_st ex_su ex_bt none_busy in
  r_out r = OOk [40000; 40959; 33000; 35000] [32768; 40000] /\
  r_eps r = [ {| ep_name := 1; ep_proto := 0; ep_port := 40000; ep_real := Some 40000 |};
              {| ep_name := 2; ep_proto := 2; ep_port := 53; ep_real := Some 32768 |};
              {| ep_name := 3; ep_proto := 1; ep_port := 22; ep_real := Some 40959 |};
              ep_ 4 7 9 ] /\
  r_eph_tcp r = EPorts [33000; 35000] /\ r_eph_udp r = EPorts [40000].
Proof. vm_compute. repeat split. Qed.

(* one more tcp ephemeral port: 5 needed, 5 free in the sample, the fifth is its last element: the error, after
   binding all five *)
Example C16P_ex_boundary :
  let m := {| m_env := ENV_PROD; m_eps := m_eps ex_m; m_eph_tcp := Some 3%nat; m_eph_udp := Some 1%nat |} in
  length (free ex_bt ex_st) = 5%nat /\ n_tcp m = 5%nat /\
  r_out (allocate_network_ports m ex_st ex_su ex_bt none_busy) = OErrTcp [40000; 40959; 33000; 35000; 36000].
Proof. vm_compute. repeat split. Qed.

(* the same on a whole-pool permutation (what random.sample(pool, PORT_SPAN) returns: PORT_SPAN is the pool size):
   the pool in ascending order, everything busy but the last two ports *)
Definition all_but_last_two : busyspec := {| bs_ports := []; bs_ranges := [(32768, 40957)] |}.
Definition whole_pool : sampspec := {| ss_full := true; ss_prefix := [] |}.
Example C16P_ex_whole_pool :
  Z.of_nat (length (mk_sample ports_tables ENV_PROD whole_pool)) = 8192 /\
  allocate_sockets (busy_of all_but_last_two) (mk_sample ports_tables ENV_PROD whole_pool) 1 = SOk [40958] /\
  allocate_sockets (busy_of all_but_last_two) (mk_sample ports_tables ENV_PROD whole_pool) 2 = SErr [40958; 40959].
Proof. vm_compute. repeat split. Qed.

(* the udp pass raising leaves the tcp half written *)
Example C16P_ex_udp_error :
  let r := allocate_network_ports ex_m ex_st [32768] ex_bt none_busy in
  r_out r = OErrUdp [32768] /\ r_eph_tcp r = EPorts [33000; 35000] /\ r_eph_udp r = EKeep (Some 1%nat) /\
  real_ports P_TCP (r_eps r) = [Some 40000; Some 40959] /\ real_ports P_UDP (r_eps r) = [None].
Proof. vm_compute. repeat split. Qed.

(* non-prod environments (and any unknown environment string) use the other range *)
Example C16P_ex_pools :
  map (sample_request ports_tables) [ENV_DEV; ENV_QA; ENV_UAT; ENV_PROD; 9] =
  [[40960; 49152; 8192]; [40960; 49152; 8192]; [32768; 40960; 8192]; [32768; 40960; 8192]; [40960; 49152; 8192]].
Proof. vm_compute. reflexivity. Qed.

(* the hypotheses of C16P_env_disjoint are satisfiable *)
Example C16P_ex_env_hyps :
  is_prod_env (m_env ex_m) = true /\ is_prod_env ENV_DEV = false /\
  sample_okb ports_tables ENV_DEV [40960; 49151; 45000] = true /\
  sample_okb ports_tables ENV_DEV ex_st = false.
Proof. vm_compute. repeat split. Qed.
