(** C11 (second part)  The cell a STARTING master builds is a reachable state of the scheduler model - from the EMPTY
    cell, with no assumption about an earlier in-memory state.

    Model.  Master/LoadModel.v: Loader.load_model (scheduler/loader.py:93-106) as a function from a snapshot of the
    store - /traits, /partitions, /buckets with level and parent, /cell, /servers with record, presence and recorded
    state, /allocations, /scheduled with the manifests, /identity-groups, /placement/<server>/<instance> - to a list
    of operations of Sched/Events.v: load_partitions, load_buckets / load_cell, load_servers (LoadApp.load_server,
    adjust_server_state, set_server_valid_until), load_allocations, load_apps (LoadApp.load_app on a new instance +
    find_default_assignment), load_identity_groups, then Master/RestoreAll.v [restore_all] / [restore_placements].
    Inputs rather than modelled: the fnmatch decisions of find_assignment and _is_blacklisted, the valid_until
    Partition.add assigns, the clock, the global-order counter, the bijection [id] between strings and identifiers.
    Tie: harness/props/c11load.py - every load_model() of E-master histories and of directly generated stores, the
    canonical dump of the real Master.cell right after load_model() against vm_compute of [load_model_full].

    PROVED (every snapshot, every table, every naming, no bound):
      C11M_load_model_is_a_run       LoadApp per record + the first loop of restore_placements =
                                     run (init_cell 3 root 'cell') (load_model_ops st)
      C11M_load_model_full_is_a_run  ... and through the duplicate pass (it is idle: nobody is recorded twice)
      C11M_loaded_cell_reachable, C11M_loaded_cell_Good
                                     that cell is [reachable] from the EMPTY cell and satisfies every invariant of
                                     Sched/Reach.v [Good] (accounting, identities, allocation queues, "placed => holds
                                     an identity")
      C11M_before_restore_reachable  the two hypotheses of C11_rebuilt_cell_reachable / C11_first_cycle_after_failover
                                     (Props/C11.v) hold of the cell load_model has built before restore_placements
      C11M_first_cycle_identities, C11M_first_cycle_new_assignment
                                     the end-of-cycle theorems of C05 / C03 for the FIRST cycle of a freshly started
                                     master (C11_first_cycle_after_failover assumed [reachable] of the cell before the
                                     restore; here nothing is assumed)
      C11M_store_okb_sound           the side condition is decidable ([store_okb], which runs wf_ops_allb)
      C11M_store_conditions          ... and follows from conditions on the SNAPSHOT alone ([store_wfb]):
                                       - no record makes load_model raise, the assignment inputs are in range
                                       - bucket records: distinct names; a bucket is listed under /cell or names a listed
                                         parent, not both; id "server" = 0
                                       - the attached servers have distinct identifiers; their capacities parse to
                                         vectors of 3 non-negative numbers
                                       - the entries of /scheduled have distinct identifiers; demands parse to vectors
                                         of 3 non-negative numbers
                                       - identity-group counts are >= 0
                                       - every instance is recorded under at most one placement node (so: not under two
                                         servers); a node of a scheduled instance carries an identity (>= 0) exactly
                                         when the instance belongs to an identity group; no identity is recorded twice
                                         within one group
      C11M_everything_from_the_snapshot   the corollary a reader wants: [store_wfb st = true] gives all of the above
      C11M_remove_all_idle_at_load   the server.remove_all() opening every restore_placement does nothing at start-up
      C11M_restore_side_conditions   the generic step: ORestore operations from a cell of unplaced, identity-free
                                     instances satisfy the side conditions under the node conditions above
      C11M_loader_ops_abstract       the abstract interpretation of the loader's other operations is sound
    NOT covered: a snapshot outside [store_ok] - an instance recorded under two servers (C11_duplicate_removed_from_both
    covers the master-level model), a recorded identity that another member of the group also records, a group member
    recorded without identity: [C11M_outside_duplicate] shows the run and the master-level model then differ. *)
From Coq Require Import ZArith QArith List Bool.
From TM Require Import Codec.BaseN Codec.Dec Codec.Units.
From TM Require Import Sched.Vec Sched.Types Sched.Queue Sched.Tree Sched.Cycle Sched.Events Sched.InvIdent Sched.TurnP
                       Sched.KeepP Sched.Reach.
From TM Require Import Master.LoadApp Master.Publish Master.Restore Master.RestoreSched Master.RestoreAll
                       Master.RestoreBridge Master.LoadModel Master.LoadModelP.
Import ListNotations.
Open Scope Z_scope.

Theorem C11M_load_model_is_a_run : forall T U id none_aff st, store_ok T U id none_aff st ->
  load_model_cell T U id none_aff st = run (init_of id st) (load_model_ops T U id none_aff st).
Proof. exact load_model_is_a_run. Qed.
Print Assumptions C11M_load_model_is_a_run.

Theorem C11M_load_model_full_is_a_run : forall T U id none_aff st, store_ok T U id none_aff st ->
  load_model_full T U id none_aff st = run (init_of id st) (load_model_ops T U id none_aff st).
Proof. exact load_model_full_is_a_run. Qed.
Print Assumptions C11M_load_model_full_is_a_run.

Theorem C11M_loaded_cell_reachable : forall T U id none_aff st, store_ok T U id none_aff st ->
  reachable (load_model_full T U id none_aff st).
Proof. exact loaded_cell_reachable. Qed.
Print Assumptions C11M_loaded_cell_reachable.

Theorem C11M_loaded_cell_Good : forall T U id none_aff st, store_ok T U id none_aff st ->
  Good (load_model_full T U id none_aff st).
Proof. exact loaded_cell_Good. Qed.
Print Assumptions C11M_loaded_cell_Good.

(** the hypotheses of Props/C11.v C11_rebuilt_cell_reachable and C11_first_cycle_after_failover, discharged for the cell
    load_model has built before restore_placements *)
Theorem C11M_before_restore_reachable : forall T U id none_aff st, store_ok T U id none_aff st ->
  reachable (loaded_cell T U id none_aff st) /\
  wf_ops_all (loaded_cell T U id none_aff st) (RestoreBridge.ops_of_store true (store_srecs T U id none_aff st)).
Proof. exact before_restore_reachable. Qed.
Print Assumptions C11M_before_restore_reachable.

Theorem C11M_first_cycle_identities : forall T U id none_aff st ch, store_ok T U id none_aff st ->
  let c1 := load_model_full T U id none_aff st in
  forall x a', app_of (step c1 (OSchedule ch)) x = Some a' ->
    (a_server a' = None -> no_id a') /\ (a_server a' <> None -> has_id a') /\
    (forall g i k, holds a' g i -> gcount (step c1 (OSchedule ch)) g = Some k -> 0 <= i < k).
Proof. exact first_cycle_identities. Qed.
Print Assumptions C11M_first_cycle_identities.

Theorem C11M_first_cycle_new_assignment : forall T U id none_aff st ch, store_ok T U id none_aff st ->
  let c1 := load_model_full T U id none_aff st in
  forall x a a' n, app_of c1 x = Some a -> app_of (step c1 (OSchedule ch)) x = Some a' ->
    a_server a' = Some n -> a_server a <> Some n ->
    exists s, get_srv n (c_servers c1) = Some s /\ s_state s = Up /\ guard_facts c1 s a.
Proof. exact first_cycle_new_assignment. Qed.
Print Assumptions C11M_first_cycle_new_assignment.

(** the side condition, decidable: by running the boolean checkers of Sched/Reach.v on the operations ... *)
Theorem C11M_store_okb_sound : forall T U id none_aff st,
  store_okb T U id none_aff st = true -> store_ok T U id none_aff st.
Proof. exact store_okb_ok. Qed.
Print Assumptions C11M_store_okb_sound.

(** ... and from conditions on the snapshot alone *)
Theorem C11M_store_conditions : forall T U id none_aff st,
  store_wfb T U id none_aff st = true -> store_ok T U id none_aff st.
Proof. exact store_wfb_ok. Qed.
Print Assumptions C11M_store_conditions.

Theorem C11M_everything_from_the_snapshot : forall T U id none_aff st ch, store_wfb T U id none_aff st = true ->
  let c1 := load_model_full T U id none_aff st in
  c1 = run (init_of id st) (load_model_ops T U id none_aff st) /\
  load_model_full_ra T U id none_aff st = c1 /\
  reachable c1 /\ Good c1 /\
  forall x a', app_of (step c1 (OSchedule ch)) x = Some a' ->
    (a_server a' = None -> no_id a') /\ (a_server a' <> None -> has_id a') /\
    (forall g i k, holds a' g i -> gcount (step c1 (OSchedule ch)) g = Some k -> 0 <= i < k).
Proof. exact everything_from_the_snapshot. Qed.
Print Assumptions C11M_everything_from_the_snapshot.

Theorem C11M_remove_all_idle_at_load : forall T U id none_aff st, store_wfb T U id none_aff st = true ->
  load_model_full_ra T U id none_aff st = load_model_full T U id none_aff st.
Proof. exact load_model_full_ra_eq. Qed.
Print Assumptions C11M_remove_all_idle_at_load.

Theorem C11M_restore_side_conditions : forall c srecs,
  Good c -> clean c -> (forall sr, In sr srecs -> In (sr_name sr) (map s_name (c_servers c))) ->
  restore_okb (c_apps c) srecs = true -> wf_ops_all c (restore_ops srecs).
Proof. exact restore_wf. Qed.
Print Assumptions C11M_restore_side_conditions.

Theorem C11M_loader_ops_abstract : forall ops c v', arun (view_of c) ops = Some v' ->
  wf_ops_all c ops /\ view_of (run c ops) = v'.
Proof. exact arun_sound. Qed.
Print Assumptions C11M_loader_ops_abstract.

(** * Non-vacuity.  A cell 'cell' with two racks; srv1 (rack:1) and srv2 (rack:2, trait ssd) with presence nodes, srv3
    (rack:2) without; allocation foo/x (rank 50, reserving 1000M, 100 percent, 1000M) assigning foo.* with priority 30;
    identity group g1 of 3; four instances: foo.app#1 and foo.app#2 (group g1; #2 with a lease), bar.app#3 (priority
    7), bar.app#4 (schedule-once).  Recorded: foo.app#1 under srv1 with identity 2 and expiry 1700000777, bar.app#3 under
    srv2 with expiry 1700000888.  Identifiers: server 0 cell 1 _default 2 rack:1 3 rack 4 rack:2 5 srv1 6 foo.app#1 7
    srv2 8 bar.app#3 9 srv3 10 foo 11 x 12 bar 13 bar.app 14 bar.app#4 15 foo.app 16 g1 17 foo.app#2 18.
    (The terms are what harness/props/c11load.py emits for that store; [ex_impl_flat] is the dump of the REAL Master.cell
    after load_model() on it.) *)
Definition ex_ids : list (str * Z) :=
  [([115;101;114;118;101;114], 0);
   ([99;101;108;108], 1);
   ([95;100;101;102;97;117;108;116], 2);
   ([114;97;99;107;58;49], 3);
   ([114;97;99;107], 4);
   ([114;97;99;107;58;50], 5);
   ([115;114;118;49], 6);
   ([102;111;111;46;97;112;112;35;48;48;48;48;48;48;48;48;48;49], 7);
   ([115;114;118;50], 8);
   ([98;97;114;46;97;112;112;35;48;48;48;48;48;48;48;48;48;51], 9);
   ([115;114;118;51], 10);
   ([102;111;111], 11);
   ([120], 12);
   ([98;97;114], 13);
   ([98;97;114;46;97;112;112], 14);
   ([98;97;114;46;97;112;112;35;48;48;48;48;48;48;48;48;48;52], 15);
   ([102;111;111;46;97;112;112], 16);
   ([103;49], 17);
   ([102;111;111;46;97;112;112;35;48;48;48;48;48;48;48;48;48;50], 18)].
Definition ex_id (s : str) : Z := match sfind s ex_ids with Some z => z | None => -1 end.
Definition ex_store : store :=
  (mkStore [99;101;108;108] 1700000050 11 [[115;115;100]] [] [(mkBE [114;97;99;107;58;49] None None); (mkBE
  [114;97;99;107;58;50] None None)] [[114;97;99;107;58;49]; [114;97;99;107;58;50]] [(mkSE [115;114;118;49] (Some {|
  sr_partition := None; sr_res := {| r_memory := (Some (VStr [52;48;48;48;77])); r_cpu := (Some (VStr
  [52;48;48;37])); r_disk := (Some (VStr [52;48;48;48;77])) |}; sr_traits := None; sr_up_since := (Some 1699999000);
  sr_parent := (Some [114;97;99;107;58;49]) |}) (Some 19000) 1701734399 (Some (Up, 1699999500)) [(mkPN
  [102;111;111;46;97;112;112;35;48;48;48;48;48;48;48;48;48;49] (Some 2) 1700000777 30000)]); (mkSE [115;114;118;50]
  (Some {| sr_partition := None; sr_res := {| r_memory := (Some (VStr [50;48;48;48;77])); r_cpu := (Some (VStr
  [50;48;48;37])); r_disk := (Some (VStr [51;48;48;48;77])) |}; sr_traits := (Some [[115;115;100]]); sr_up_since :=
  (Some 1699999000); sr_parent := (Some [114;97;99;107;58;50]) |}) (Some 20000) 1701734399 (Some (Up, 1699999500))
  [(mkPN [98;97;114;46;97;112;112;35;48;48;48;48;48;48;48;48;48;51] None 1700000888 31000)]); (mkSE [115;114;118;51]
  (Some {| sr_partition := None; sr_res := {| r_memory := (Some (VStr [51;48;48;48;77])); r_cpu := (Some (VStr
  [51;48;48;37])); r_disk := (Some (VStr [51;48;48;48;77])) |}; sr_traits := None; sr_up_since := (Some 1699999000);
  sr_parent := (Some [114;97;99;107;58;50]) |}) None 0 (Some (Up, 1699999500)) [])] [(mkAE
  [95;100;101;102;97;117;108;116] [102;111;111;47;120] {| r_memory := (Some (VStr [49;48;48;48;77])); r_cpu := (Some
  (VStr [49;48;48;37])); r_disk := (Some (VStr [49;48;48;48;77])) |} (Some 50) (Some 0) None (Some []) [30])] [(mkAP
  [98;97;114;46;97;112;112;35;48;48;48;48;48;48;48;48;48;51] (Some {| m_priority := (Some (VInt 7)); m_res := {|
  r_memory := (Some (VStr [51;48;48;77])); r_cpu := (Some (VStr [50;48;37])); r_disk := (Some (VStr [51;48;48;77]))
  |}; m_affinity := (Some [98;97;114;46;97;112;112]); m_limits := None; m_group := None; m_once := None; m_drt :=
  None; m_lease := None; m_traits := None |}) None false); (mkAP
  [98;97;114;46;97;112;112;35;48;48;48;48;48;48;48;48;48;52] (Some {| m_priority := None; m_res := {| r_memory :=
  (Some (VStr [49;53;48;48;77])); r_cpu := (Some (VStr [49;53;48;37])); r_disk := (Some (VStr [49;50;48;48;77])) |};
  m_affinity := (Some [98;97;114;46;97;112;112]); m_limits := None; m_group := None; m_once := (Some (TBool true));
  m_drt := None; m_lease := None; m_traits := None |}) None false); (mkAP
  [102;111;111;46;97;112;112;35;48;48;48;48;48;48;48;48;48;49] (Some {| m_priority := None; m_res := {| r_memory :=
  (Some (VStr [53;48;48;77])); r_cpu := (Some (VStr [53;48;37])); r_disk := (Some (VStr [53;48;48;77])) |};
  m_affinity := (Some [102;111;111;46;97;112;112]); m_limits := None; m_group := (Some [103;49]); m_once := None;
  m_drt := None; m_lease := None; m_traits := None |}) (Some (0%nat, 0%nat)) false); (mkAP
  [102;111;111;46;97;112;112;35;48;48;48;48;48;48;48;48;48;50] (Some {| m_priority := None; m_res := {| r_memory :=
  (Some (VStr [56;48;48;77])); r_cpu := (Some (VStr [49;48;48;37])); r_disk := (Some (VStr [51;48;48;77])) |};
  m_affinity := (Some [102;111;111;46;97;112;112]); m_limits := None; m_group := (Some [103;49]); m_once := None;
  m_drt := None; m_lease := (Some (VStr [54;48;48;115])); m_traits := None |}) (Some (0%nat, 0%nat)) false)] [(mkGE
  [103;49] (Some (Some 3)))]).
Definition ex_impl_flat : list Z :=
  [1700000050; 4; 9; 7; 1; 8; (-1); 1; 1700000888; 0; 0; 0; 0; (-1); 2; 2; 2; 13; 15; 1; (-1); (-1); (-1); 0; 0; 0;
  0; (-1); 2; 2; 2; 13; 7; 30; 1; 6; 1; 2; 1; 1700000777; 0; 0; 0; 0; (-1); 2; 2; 11; 12; 18; 30; (-1); (-1); (-1);
  0; 0; 0; 0; (-1); 2; 2; 11; 12; 3; 6; 0; 1700000050; 1701734399; 3; 3500; 350; 3500; 1; 7; 1; 16; 1; 8; 0;
  1700000050; 1701734399; 3; 1700; 180; 2700; 1; 9; 1; 14; 1; 10; 1; 1700000050; 0; 3; 3000; 300; 3000; 0; 0; 3; 1;
  3; 3500; 350; 3500; 1; 2; 2; 2; 14; 1; 16; 1; 0; 2; 3; 5; 3; 3; 3500; 350; 3500; 1; 2; 0; 1; 16; 1; 0; 1; 6; 5; 3;
  1700; 180; 2700; 1; 2; 2; 1; 14; 1; 0; 2; 8; 10; 1; 17; 3; 2; 0; 1; 1; 2; 3; 0; 0; 0; 100; 0; 0; 0; 2; 11; 3; 0;
  0; 0; 100; 0; 0; 0; 1; 12; 3; 1000; 100; 1000; 50; 0; 0; 2; 7; 18; 0; 2; 3; 0; 0; 0; 100; 0; 0; 0; 1; 13; 3; 0; 0;
  0; 100; 0; 0; 2; 9; 15; 0; 9; 3; 300; 20; 300; 14; 0; 0; 0; (-1); (-1); 0; 11; 15; 3; 1500; 150; 1200; 14; 0; 0;
  0; (-1); (-1); 1; 12; 7; 3; 500; 50; 500; 16; 0; 0; 0; (-1); 1; 17; 0; 13; 18; 3; 800; 100; 300; 16; 0; 0; 600;
  (-1); 1; 17; 0; 14; 6; 1; 3; 3; 4000; 400; 4000; 2; 0; 8; 1; 5; 3; 2000; 200; 3000; 2; 2; 10; 1; 5; 3; 3000; 300;
  3000; 2; 0; 1; 1; (-1); 3; 4; 1; 1; 5; 4; 1; 1].

Definition ex_T := ltables_canon.
Definition ex_U := utables_canon.
Definition ex_cell := load_model_full ex_T ex_U ex_id (-2) ex_store.
Definition ex_view (c : cell) (n : Z) := option_map (fun a => (a_server a, a_expiry a, a_identity a)) (get_app n (c_apps c)).

Example C11M_nonvacuous_conditions :
  store_wfb ex_T ex_U ex_id (-2) ex_store = true /\ store_okb ex_T ex_U ex_id (-2) ex_store = true /\
  length (load_model_ops ex_T ex_U ex_id (-2) ex_store) = 25%nat /\
  map sr_name (store_srecs ex_T ex_U ex_id (-2) ex_store) = [6; 8; 10].
Proof. vm_compute. repeat split. Qed.

(** the two recorded instances are where they were recorded, with the recorded expiry and identity; the two others
    are pending; the group has lost identity 2; srv3 is down; and the whole cell is, field by field, what the real
    master built *)
Example C11M_nonvacuous_cell :
  ex_view ex_cell 7 = Some (Some 6, Some 1700000777, Some 2) /\
  ex_view ex_cell 9 = Some (Some 8, Some 1700000888, None) /\
  ex_view ex_cell 18 = Some (None, None, None) /\ ex_view ex_cell 15 = Some (None, None, None) /\
  aget 17 (c_groups ex_cell) = Some (mkGroup 3 [0; 1]) /\
  map (fun s => (s_name s, s_state s, s_apps s)) (c_servers ex_cell) = [(6, Up, [7]); (8, Up, [9]); (10, Down, [])] /\
  ex_cell = run (init_of ex_id ex_store) (load_model_ops ex_T ex_U ex_id (-2) ex_store) /\
  dump_cell ex_cell ++ dump_static ex_cell = ex_impl_flat.
Proof. vm_compute. repeat split. Qed.

(** the first cycle of that master: the two recorded instances stay, foo.app#2 is placed and takes an identity of the
    group (the hypotheses of C11M_first_cycle_identities are met, its conclusion is not empty) *)
Example C11M_nonvacuous_first_cycle :
  let c2 := step ex_cell (OSchedule []) in
  ex_view c2 7 = Some (Some 6, Some 1700000777, Some 2) /\
  ex_view c2 9 = Some (Some 8, Some 1700000888, None) /\
  (exists s e, ex_view c2 18 = Some (Some s, Some e, Some 0)) /\
  gcount c2 17 = Some 3.
Proof. vm_compute. repeat split. eexists. eexists. reflexivity. Qed.

(** * Outside the side condition: the same store with foo.app#1 ALSO recorded under srv2.  [store_okb] is false; the
    real master (and the master-level model) restores the instance under both servers and the duplicate pass takes it
    off both - the run of the alphabet, where ORestore refuses an instance that names a server, leaves it on srv1 *)
Definition ex_store_dup : store :=
  (mkStore [99;101;108;108] 1700000050 11 [[115;115;100]] [] [(mkBE [114;97;99;107;58;49] None None); (mkBE
  [114;97;99;107;58;50] None None)] [[114;97;99;107;58;49]; [114;97;99;107;58;50]] [(mkSE [115;114;118;49] (Some {|
  sr_partition := None; sr_res := {| r_memory := (Some (VStr [52;48;48;48;77])); r_cpu := (Some (VStr
  [52;48;48;37])); r_disk := (Some (VStr [52;48;48;48;77])) |}; sr_traits := None; sr_up_since := (Some 1699999000);
  sr_parent := (Some [114;97;99;107;58;49]) |}) (Some 19000) 1701734399 (Some (Up, 1699999500)) [(mkPN
  [102;111;111;46;97;112;112;35;48;48;48;48;48;48;48;48;48;49] (Some 2) 1700000777 30000)]); (mkSE [115;114;118;50]
  (Some {| sr_partition := None; sr_res := {| r_memory := (Some (VStr [50;48;48;48;77])); r_cpu := (Some (VStr
  [50;48;48;37])); r_disk := (Some (VStr [51;48;48;48;77])) |}; sr_traits := (Some [[115;115;100]]); sr_up_since :=
  (Some 1699999000); sr_parent := (Some [114;97;99;107;58;50]) |}) (Some 20000) 1701734399 (Some (Up, 1699999500))
  [(mkPN [98;97;114;46;97;112;112;35;48;48;48;48;48;48;48;48;48;51] None 1700000888 31000); (mkPN
  [102;111;111;46;97;112;112;35;48;48;48;48;48;48;48;48;48;49] (Some 2) 1700000999 99000)]); (mkSE [115;114;118;51]
  (Some {| sr_partition := None; sr_res := {| r_memory := (Some (VStr [51;48;48;48;77])); r_cpu := (Some (VStr
  [51;48;48;37])); r_disk := (Some (VStr [51;48;48;48;77])) |}; sr_traits := None; sr_up_since := (Some 1699999000);
  sr_parent := (Some [114;97;99;107;58;50]) |}) None 0 (Some (Up, 1699999500)) [])] [(mkAE
  [95;100;101;102;97;117;108;116] [102;111;111;47;120] {| r_memory := (Some (VStr [49;48;48;48;77])); r_cpu := (Some
  (VStr [49;48;48;37])); r_disk := (Some (VStr [49;48;48;48;77])) |} (Some 50) (Some 0) None (Some []) [30])] [(mkAP
  [98;97;114;46;97;112;112;35;48;48;48;48;48;48;48;48;48;51] (Some {| m_priority := (Some (VInt 7)); m_res := {|
  r_memory := (Some (VStr [51;48;48;77])); r_cpu := (Some (VStr [50;48;37])); r_disk := (Some (VStr [51;48;48;77]))
  |}; m_affinity := (Some [98;97;114;46;97;112;112]); m_limits := None; m_group := None; m_once := None; m_drt :=
  None; m_lease := None; m_traits := None |}) None false); (mkAP
  [98;97;114;46;97;112;112;35;48;48;48;48;48;48;48;48;48;52] (Some {| m_priority := None; m_res := {| r_memory :=
  (Some (VStr [49;53;48;48;77])); r_cpu := (Some (VStr [49;53;48;37])); r_disk := (Some (VStr [49;50;48;48;77])) |};
  m_affinity := (Some [98;97;114;46;97;112;112]); m_limits := None; m_group := None; m_once := (Some (TBool true));
  m_drt := None; m_lease := None; m_traits := None |}) None false); (mkAP
  [102;111;111;46;97;112;112;35;48;48;48;48;48;48;48;48;48;49] (Some {| m_priority := None; m_res := {| r_memory :=
  (Some (VStr [53;48;48;77])); r_cpu := (Some (VStr [53;48;37])); r_disk := (Some (VStr [53;48;48;77])) |};
  m_affinity := (Some [102;111;111;46;97;112;112]); m_limits := None; m_group := (Some [103;49]); m_once := None;
  m_drt := None; m_lease := None; m_traits := None |}) (Some (0%nat, 0%nat)) false); (mkAP
  [102;111;111;46;97;112;112;35;48;48;48;48;48;48;48;48;48;50] (Some {| m_priority := None; m_res := {| r_memory :=
  (Some (VStr [56;48;48;77])); r_cpu := (Some (VStr [49;48;48;37])); r_disk := (Some (VStr [51;48;48;77])) |};
  m_affinity := (Some [102;111;111;46;97;112;112]); m_limits := None; m_group := (Some [103;49]); m_once := None;
  m_drt := None; m_lease := (Some (VStr [54;48;48;115])); m_traits := None |}) (Some (0%nat, 0%nat)) false)] [(mkGE
  [103;49] (Some (Some 3)))]).
Definition ex_impl_flat_dup : list Z :=
  [1700000050; 4; 9; 7; 1; 8; (-1); 1; 1700000888; 0; 0; 0; 0; (-1); 2; 2; 2; 13; 15; 1; (-1); (-1); (-1); 0; 0; 0;
  0; (-1); 2; 2; 2; 13; 7; 30; (-1); 1; 2; (-1); 1; 0; 0; 0; (-1); 2; 2; 11; 12; 18; 30; (-1); (-1); (-1); 0; 0; 0;
  0; (-1); 2; 2; 11; 12; 3; 6; 0; 1700000050; 1701734399; 3; 4000; 400; 4000; 0; 0; 8; 0; 1700000050; 1701734399; 3;
  1700; 180; 2700; 1; 9; 1; 14; 1; 10; 1; 1700000050; 0; 3; 3000; 300; 3000; 0; 0; 3; 1; 3; 4000; 400; 4000; 1; 2;
  2; 1; 14; 1; 0; 2; 3; 5; 3; 3; 4000; 400; 4000; 1; 2; 0; 0; 0; 1; 6; 5; 3; 1700; 180; 2700; 1; 2; 2; 1; 14; 1; 0;
  2; 8; 10; 1; 17; 3; 2; 0; 1; 1; 2; 3; 0; 0; 0; 100; 0; 0; 0; 2; 11; 3; 0; 0; 0; 100; 0; 0; 0; 1; 12; 3; 1000; 100;
  1000; 50; 0; 0; 2; 7; 18; 0; 2; 3; 0; 0; 0; 100; 0; 0; 0; 1; 13; 3; 0; 0; 0; 100; 0; 0; 2; 9; 15; 0; 9; 3; 300;
  20; 300; 14; 0; 0; 0; (-1); (-1); 0; 11; 15; 3; 1500; 150; 1200; 14; 0; 0; 0; (-1); (-1); 1; 12; 7; 3; 500; 50;
  500; 16; 0; 0; 0; (-1); 1; 17; 0; 13; 18; 3; 800; 100; 300; 16; 0; 0; 600; (-1); 1; 17; 0; 14; 6; 1; 3; 3; 4000;
  400; 4000; 2; 0; 8; 1; 5; 3; 2000; 200; 3000; 2; 2; 10; 1; 5; 3; 3000; 300; 3000; 2; 0; 1; 1; (-1); 3; 4; 1; 1; 5;
  4; 1; 1].

Example C11M_outside_duplicate :
  let cf := load_model_full ex_T ex_U ex_id (-2) ex_store_dup in
  let cr := run (init_of ex_id ex_store_dup) (load_model_ops ex_T ex_U ex_id (-2) ex_store_dup) in
  store_okb ex_T ex_U ex_id (-2) ex_store_dup = false /\ store_wfb ex_T ex_U ex_id (-2) ex_store_dup = false /\
  dump_cell cf ++ dump_static cf = ex_impl_flat_dup /\
  ex_view cf 7 = Some (None, None, Some 2) /\ ex_view cr 7 = Some (Some 6, Some 1700000999, Some 2).
Proof. vm_compute. repeat split. Qed.
