(** C09, between the cycles: the handlers of the real Master keep the store equal to the model, so that the two
    hypotheses of C09_publication / C09_published_equals_model ([within_before], [unchanged_published]) hold at the
    next cycle - for ALL histories of handler events interleaved with cycles, integrity checks and restarts.

    Model: Master/Handlers.v (state = per-instance view {server, identity, identity_count, expires} + Loader.servers +
    the /placement nodes; alphabet [hop]; [hstep]; [hrun]).  Proofs: Master/HandlersP.v.

    [PubInv m st]   every node is the node the model stands for and every placed instance has its node; data compared
                    on all three fields (m = Full) or on the fields the statement of C09 names, identity and expiry
                    (m = Core)
    [wf_op]         the parameters of a hop fit the state (for a cycle: the scheduler's side - one tuple per instance,
                    `before` = the model, a placed instance reported unchanged has the data it had); checked on every
                    hop of every real history by harness/props/c09handlers.py
    [sound_op m]    false exactly on the defective uses: Loader.remove_server / the delete API seen alone while nodes
                    exist under the server; Loader.reload_server re-putting with an expiry other than the stored one; a
                    restart over nodes under a server whose record is gone; (Full only) an identity-group resize while
                    a placed instance holds an identity of the group

    PROVED (all histories, no bound):
      C09H_step_keeps_invariant, C09H_invariant_all_histories, C09H_invariant_every_prefix
      C09H_restart_establishes_invariant     from ANY store (no invariant assumed before the restart)
      C09H_hypotheses_hold_at_next_cycle     PubInv Full + cycle_wf  =>  NoDup, within_before, unchanged_published, and
                                             the side condition of C09_published_equals_model
      C09H_published_equals_model_all_histories        node by node, all three fields (via PublishP.resched_equals_model,
                                             the lemma behind C09_published_equals_model)
      C09H_published_equals_model_core_all_histories   identity and expiry, identity-group resizes allowed
      C09H_publication_frame                 Master.reschedule writes only nodes of instances reported as changed
      C09H_remove_server_frame               the defective handler leaves every instance of another server as it was
    REFUTED (known findings, in the new alphabet): C09H_remove_server_refuted, C09H_reload_server_refuted,
      C09H_api_delete_alone_refuted, C09H_restart_server_gone_refuted; C09H_identity_count_refuted (a field outside
      the statement: identity_count goes stale after a resize; the Core theorem covers that history). *)
From Coq Require Import ZArith List Bool.
From TM Require Import Master.Publish Master.PublishP Master.Handlers Master.HandlersP Gen.Tables.
Import ListNotations.
Open Scope Z_scope.

Definition c10_cfg : cfg :=
  cfg_of_tables c10_reschedule_phases c10_changed_filter c10_init_phases c10_init_flags c10_integrity_flags.

Theorem C09H_source_shape : cfg_canonical c10_cfg = true.
Proof. vm_compute. reflexivity. Qed.
Print Assumptions C09H_source_shape.

Theorem C09H_step_keeps_invariant : forall m st op,
  PubInv m st -> ok_op m st op = true -> PubInv m (hstep c10_cfg op st).
Proof. intros m st op H1 H2. exact (hstep_keeps m c10_cfg st op C09H_source_shape H1 H2). Qed.
Print Assumptions C09H_step_keeps_invariant.

Theorem C09H_invariant_all_histories : forall m ops st,
  PubInv m st -> all_ok m c10_cfg ops st = true -> PubInv m (hrun c10_cfg ops st).
Proof. intros m ops st H1 H2. exact (hrun_keeps m c10_cfg ops st C09H_source_shape H1 H2). Qed.
Print Assumptions C09H_invariant_all_histories.

Theorem C09H_invariant_every_prefix : forall m pre post st,
  PubInv m st -> all_ok m c10_cfg (pre ++ post) st = true -> PubInv m (hrun c10_cfg pre st).
Proof. intros m pre post st H1 H2. exact (hrun_keeps_every_prefix m c10_cfg pre post st C09H_source_shape H1 H2). Qed.
Print Assumptions C09H_invariant_every_prefix.

Theorem C09H_restart_establishes_invariant : forall m dels servers l ops st,
  all_ok m c10_cfg (HRestart dels servers l :: ops) st = true ->
  PubInv m (hrun c10_cfg (HRestart dels servers l :: ops) st).
Proof. intros m dels servers l ops st H. exact (hrun_from_restart m c10_cfg dels servers l ops st C09H_source_shape H). Qed.
Print Assumptions C09H_restart_establishes_invariant.

Theorem C09H_hypotheses_hold_at_next_cycle : forall pre tuples i once post st,
  PubInv Full st -> all_ok Full c10_cfg (pre ++ HCycle tuples i once :: post) st = true ->
  let before := h_store (hrun c10_cfg pre st) in
  NoDup (map t_name tuples) /\ within_before tuples before /\ unchanged_published tuples i before /\
  (forall s a, has before s a = true -> In a (map t_name tuples)).
Proof.
  intros pre tuples i once post st H1 H2.
  exact (next_cycle_hypotheses c10_cfg pre tuples i once post st C09H_source_shape H1 H2).
Qed.
Print Assumptions C09H_hypotheses_hold_at_next_cycle.

Theorem C09H_published_equals_model_all_histories : forall pre tuples i once post st,
  PubInv Full st -> all_ok Full c10_cfg (pre ++ HCycle tuples i once :: post) st = true ->
  forall s a, lookup (h_store (hrun c10_cfg (pre ++ [HCycle tuples i once]) st)) s a
              = lookup (model_entries i tuples) s a.
Proof.
  intros pre tuples i once post st H1 H2.
  exact (published_equals_model_full c10_cfg pre tuples i once post st C09H_source_shape H1 H2).
Qed.
Print Assumptions C09H_published_equals_model_all_histories.

Theorem C09H_published_equals_model_core_all_histories : forall pre tuples i once post st,
  PubInv Core st -> all_ok Core c10_cfg (pre ++ HCycle tuples i once :: post) st = true ->
  forall s a, osim Core (lookup (h_store (hrun c10_cfg (pre ++ [HCycle tuples i once]) st)) s a)
                        (lookup (model_entries i tuples) s a) = true.
Proof.
  intros pre tuples i once post st H1 H2.
  exact (published_equals_model_core c10_cfg pre tuples i once post st C09H_source_shape H1 H2).
Qed.
Print Assumptions C09H_published_equals_model_core_all_histories.

(** both start from the empty cell, or from the first restart over any store *)
Theorem C09H_empty_cell : forall m, PubInv m h0.
Proof. exact PubInv_h0. Qed.
Print Assumptions C09H_empty_cell.

Theorem C09H_invariant_executable : forall m st, pubinvb m st = true -> PubInv m st.
Proof. exact pubinvb_sound. Qed.
Print Assumptions C09H_invariant_executable.

Theorem C09H_publication_frame : forall tuples i once st,
  NoDup (map t_name tuples) -> within_before tuples st ->
  let final := apply_writes st (reschedule_writes c10_cfg tuples i once) in
  (forall t, In t tuples -> changed canonical_cfg t = true -> forall s,
     lookup final s (t_name t) = if oeqb (t_sa t) (Some s) then Some (get_info i (t_name t)) else None) /\
  (forall t, In t tuples -> changed canonical_cfg t = false -> forall s,
     lookup final s (t_name t) = lookup st s (t_name t)) /\
  (forall a, ~ In a (map t_name tuples) -> forall s, lookup final s a = lookup st s a).
Proof. intros tuples i once st H1 H2. exact (resched_frame c10_cfg tuples i once st C09H_source_shape H1 H2). Qed.
Print Assumptions C09H_publication_frame.

Theorem C09H_remove_server_frame : forall m s st a,
  PubInv m st -> (forall d, view (h_apps st) a <> Some (Some s, d)) ->
  forall s', osim m (lookup (h_store (remove_server s st)) s' a) (expected (h_apps (remove_server s st)) s' a) = true.
Proof. intros m s st a H1 H2. exact (remove_server_frame m s st a H1 H2). Qed.
Print Assumptions C09H_remove_server_frame.

(** * The defective handlers, in the new alphabet
    Common prefix: a master starts on an empty store over servers 1 and 2, instance 7 is scheduled, the first cycle
    places it on server 1 with expiry 100.  The prefix is sound: the invariant holds after it. *)
Definition pd (e : Z) : pdata := mkPD None None (Some e).
Definition rx_pre : list hop :=
  [HRestart [] [1; 2] []; HLoadApp 7; HCycle [(7, None, None, Some 1, Some 100)] [(7, pd 100)] []].

Example C09H_prefix_sound :
  all_ok Full c10_cfg rx_pre h0 = true /\ pubinvb Full (hrun c10_cfg rx_pre h0) = true /\
  flat_state (hrun c10_cfg rx_pre h0) = [1; 7; 1; 1; -1; -1; 1; 100;  2; 1; 2;  1; 1; 7; -1; -1; 1; 100].
Proof. vm_compute. repeat split. Qed.

(** Loader.remove_server: the instance becomes pending, its node stays; the next cycle places it on server 2 and the
    store holds it twice (signature stale-entry-after-server-record-deleted) *)
Theorem C09H_remove_server_refuted : exists s tuples i once,
  all_ok Full c10_cfg rx_pre h0 = true /\
  all_wf c10_cfg (rx_pre ++ [HRemoveServer s; HCycle tuples i once]) h0 = true /\
  sound_op Core (hrun c10_cfg rx_pre h0) (HRemoveServer s) = false /\
  let st := hrun c10_cfg (rx_pre ++ [HRemoveServer s; HCycle tuples i once]) h0 in
  ~ no_double (h_store st) /\
  ~ (forall s' a, osim Core (lookup (h_store st) s' a) (lookup (model_entries i tuples) s' a) = true).
Proof.
  exists 1, [(7, None, None, Some 2, Some 200)], [(7, pd 200)], [].
  split; [vm_compute; reflexivity|]. split; [vm_compute; reflexivity|]. split; [vm_compute; reflexivity|].
  split.
  - intros H. specialize (H 7 1 2). vm_compute in H. specialize (H eq_refl eq_refl). discriminate.
  - intros H. specialize (H 1 7). vm_compute in H. discriminate.
Qed.
Print Assumptions C09H_remove_server_refuted.

(** Loader.reload_server of a modified server whose presence is newer than the node: Server.put gives the instance a
    new expiry (300), nothing is written; the next cycle reports it unchanged and the node keeps 100 (signature
    stale-expiry-after-server-reload-not-republished) *)
Theorem C09H_reload_server_refuted : exists s outs tuples i once,
  all_ok Full c10_cfg rx_pre h0 = true /\
  all_wf c10_cfg (rx_pre ++ [HReloadServer s outs; HCycle tuples i once]) h0 = true /\
  sound_op Core (hrun c10_cfg rx_pre h0) (HReloadServer s outs) = false /\
  let st := hrun c10_cfg (rx_pre ++ [HReloadServer s outs; HCycle tuples i once]) h0 in
  ~ (forall s' a, osim Core (lookup (h_store st) s' a) (lookup (model_entries i tuples) s' a) = true).
Proof.
  exists 1, [(7, RPlaced (Some 300))], [(7, Some 1, Some 300, Some 1, Some 300)], [(7, pd 300)], [].
  split; [vm_compute; reflexivity|]. split; [vm_compute; reflexivity|]. split; [vm_compute; reflexivity|].
  intros st H. specialize (H 1 7). vm_compute in H. discriminate.
Qed.
Print Assumptions C09H_reload_server_refuted.

(** the same reload with the expiry the node already carries, or with a successful Server.restore, is sound *)
Example C09H_reload_server_sound_uses :
  all_ok Full c10_cfg (rx_pre ++ [HReloadServer 1 [(7, RRestored)]; HReloadServer 1 [(7, RPlaced (Some 100))];
                                  HReloadServer 1 [(7, RFailed true false)];
                                  HCycle [(7, None, Some 100, None, Some 100)] [(7, pd 100)] []]) h0 = true.
Proof. vm_compute. reflexivity. Qed.

(** masterapi.delete_server has removed /placement/<s>, the master has not processed the event: a cycle in that window
    reports the instance unchanged and its node is missing (signature missing-entry-during-server-delete-race) *)
Theorem C09H_api_delete_alone_refuted : exists s tuples i once,
  all_ok Full c10_cfg rx_pre h0 = true /\
  all_wf c10_cfg (rx_pre ++ [HApiDelete s; HCycle tuples i once]) h0 = true /\
  sound_op Core (hrun c10_cfg rx_pre h0) (HApiDelete s) = false /\
  let st := hrun c10_cfg (rx_pre ++ [HApiDelete s; HCycle tuples i once]) h0 in
  ~ (forall s' a, osim Core (lookup (h_store st) s' a) (lookup (model_entries i tuples) s' a) = true).
Proof.
  exists 1, [(7, Some 1, Some 100, Some 1, Some 100)], [(7, pd 100)], [].
  split; [vm_compute; reflexivity|]. split; [vm_compute; reflexivity|]. split; [vm_compute; reflexivity|].
  intros st H. specialize (H 1 7). vm_compute in H. discriminate.
Qed.
Print Assumptions C09H_api_delete_alone_refuted.

(** the record of server 1 is gone when a new master starts: init_schedule visits the servers of the new model only,
    the node under server 1 stays next to the new one *)
Theorem C09H_restart_server_gone_refuted : exists dels servers l,
  all_ok Full c10_cfg rx_pre h0 = true /\
  wf_op (hrun c10_cfg rx_pre h0) (HRestart dels servers l) = true /\
  sound_op Core (hrun c10_cfg rx_pre h0) (HRestart dels servers l) = false /\
  let st := hrun c10_cfg (rx_pre ++ [HRestart dels servers l]) h0 in
  ~ no_double (h_store st) /\ pubinvb Core st = false.
Proof.
  exists [], [2], [(7, (Some 2, pd 200))].
  split; [vm_compute; reflexivity|]. split; [vm_compute; reflexivity|]. split; [vm_compute; reflexivity|].
  split; [|vm_compute; reflexivity].
  intros H. specialize (H 7 1 2). vm_compute in H. specialize (H eq_refl eq_refl). discriminate.
Qed.
Print Assumptions C09H_restart_server_gone_refuted.

(** identity group resized (3 -> 5) while instance 7 holds identity 0: the node keeps identity_count 3.  Not a field the
    statement names: the history is sound in Core mode and C09H_published_equals_model_core_all_histories covers it. *)
Definition gx_hist : list hop :=
  [HRestart [] [1] []; HLoadApp 7;
   HCycle [(7, None, None, Some 1, Some 100)] [(7, mkPD (Some 0) (Some 3) (Some 100))] [];
   HGroupCount [7] 5;
   HCycle [(7, Some 1, Some 100, Some 1, Some 100)] [(7, mkPD (Some 0) (Some 5) (Some 100))] []].
Theorem C09H_identity_count_refuted :
  all_wf c10_cfg gx_hist h0 = true /\ all_ok Core c10_cfg gx_hist h0 = true /\ all_ok Full c10_cfg gx_hist h0 = false /\
  lookup (h_store (hrun c10_cfg gx_hist h0)) 1 7 = Some (mkPD (Some 0) (Some 3) (Some 100)) /\
  expected (h_apps (hrun c10_cfg gx_hist h0)) 1 7 = Some (mkPD (Some 0) (Some 5) (Some 100)).
Proof. vm_compute. repeat split. Qed.
Print Assumptions C09H_identity_count_refuted.

(** * Non-vacuity: one sound history through every hop (two servers, two instances, one of them holding an identity) *)
Definition ex_hist : list hop :=
  [HRestart [] [1; 2] []; HLoadApp 7; HLoadApp 8;
   HCycle [(7, None, None, Some 1, Some 100); (8, None, None, Some 2, Some 100)]
          [(7, mkPD (Some 0) (Some 3) (Some 100)); (8, pd 100)] [];
   HIntegrity [(1, 7); (2, 8)]; HNoView 0; HServerSame 1; HLoadApp 7;
   HGroupCount [7] 3;
   HReloadServer 2 [(8, RRestored)];
   HLoadServer 3;
   HServerDeleted 2;
   HCycle [(7, Some 1, Some 100, Some 1, Some 100); (8, None, None, Some 3, Some 200)]
          [(7, mkPD (Some 0) (Some 3) (Some 100)); (8, pd 200)] [];
   HIntegrity [(1, 7); (3, 8)];
   HRemoveApp 7;
   HRemoveServer 1; HApiDelete 1;
   HRestart [] [3] [(8, (Some 3, pd 200))];
   HCycle [(8, Some 3, Some 200, Some 3, Some 260)] [(8, pd 260)] []].
Example C09H_nonvacuous :
  all_ok Full c10_cfg ex_hist h0 = true /\ all_ok Core c10_cfg ex_hist h0 = true /\
  pubinvb Full (hrun c10_cfg ex_hist h0) = true /\
  flat_state (hrun c10_cfg ex_hist h0) = [1; 8; 1; 3; -1; -1; 1; 260;  1; 3;  1; 3; 8; -1; -1; 1; 260] /\
  flat_store (h_store (hrun c10_cfg ex_hist h0)) = flat_store (model_entries [(8, pd 260)] [(8, Some 3, Some 200, Some 3, Some 260)]).
Proof. vm_compute. repeat split. Qed.
