(** C09 / C17 / C18, the store-facing layer: the functions that perform the ZooKeeper writes -
    lib/python/treadmill/zkutils.py (_payload, create, put, update, get, get_default, ensure_exists, ensure_deleted)
    and scheduler/zkbackend.py (ZkBackend, ZkReadonlyBackend).

    Model: Store/ZkUtils.v (ZooKeeper server requests, kazoo's create(makepath), ZkClient's default ACL, the zkutils
    functions statement by statement, the backends).  Tie: harness/tables_zkutils.py pins the bodies by AST template
    and regenerates [zk_retry_table] (Gen/Tables.v) from the try statements; harness/props/zkutilsstage.py runs the
    real functions on the real ZkClient/KazooClient over an in-process server fake and compares result-or-exception
    and the whole tree after every call with [TM.Store.ZkUtilsRun.run_case].

    [wf N]: the parent of every node exists (what a ZooKeeper tree is; [wfb] decides it).  A path is a list of
    segments, a segment a list of character codes. *)
From Coq Require Import ZArith List Bool.
From TM Require Import Store.ZkUtils Store.ZkUtilsP Store.ZkUtilsRun Gen.Tables.
Import ListNotations.
Open Scope Z_scope.

Definition retry_table_ok (tb : list (Z * Z * Z * Z)) : bool :=
  forallb (fun r => match r with (f, p, e, a) => Z.eqb (retry_after f p e) a && negb (Z.eqb a 0) end) tb
  && Nat.eqb (length tb) 9.

(** the source's try/except structure is the model's: every (function, primitive, exception) the source catches leads
    to the action the model takes, and there are exactly the nine catches the model has *)
Theorem C09Z_tables_ok : retry_table_ok zk_retry_table = true.
Proof. vm_compute. reflexivity. Qed.
Print Assumptions C09Z_tables_ok.

(** (g) _payload: bytes verbatim (content and length), None empty, anything else through the encoder *)
Theorem C09Z_payload_bytes_verbatim : forall enc b,
  payload enc (PBytes b) = b /\ length (payload enc (PBytes b)) = length b.
Proof. intros enc b. exact (payload_bytes_verbatim enc b). Qed.
Print Assumptions C09Z_payload_bytes_verbatim.

Theorem C09Z_payload_none_empty : forall enc, payload enc PNone = [].
Proof. intros enc. exact (payload_none_empty enc). Qed.
Print Assumptions C09Z_payload_none_empty.

(** (c) create of an existing node raises NodeExistsError and leaves the tree (data, versions, counters) as it was,
    whatever the payload, the acl and the flags *)
Theorem C09Z_create_existing_raises : forall enc t p d acl dflt eph,
  wf (nodes t) -> has (nodes t) p = true ->
  zu_create enc t p d acl false dflt eph = (RExn ENodeExists, t).
Proof. intros enc t p d acl dflt eph W H. exact (create_existing_raises enc t p d acl dflt eph W H). Qed.
Print Assumptions C09Z_create_existing_raises.

(** (b) put(check_content=True) on an existing node: the tree, version included, is unchanged iff the stored bytes
    equal the new payload (then None is returned); otherwise the payload is stored, the version is bumped, the
    ephemeral flag stays *)
Theorem C09Z_put_same_payload_no_write : forall enc t p d acl dflt eph n,
  wf (nodes t) -> find (nodes t) p = Some n ->
  (snd (zu_put enc t p d acl false dflt eph true) = t <-> n_data n = payload enc d) /\
  (n_data n = payload enc d -> zu_put enc t p d acl false dflt eph true = (RNone, t)) /\
  (n_data n <> payload enc d -> exists t', zu_put enc t p d acl false dflt eph true = (RPath p, t') /\
      find (nodes t') p = Some {| n_data := payload enc d; n_eph := n_eph n; n_ver := n_ver n + 1;
                                  n_acl := mk_default (realacl dflt acl) |}).
Proof. intros enc t p d acl dflt eph n W H. exact (put_same_payload_no_write enc t p d acl dflt eph n W H). Qed.
Print Assumptions C09Z_put_same_payload_no_write.

(** (a), existing node: put then get returns the payload; every other path is untouched; put(ephemeral=True) does not
    make an existing node ephemeral *)
Theorem C09Z_put_existing_then_get : forall enc t p d acl dflt eph n,
  wf (nodes t) -> find (nodes t) p = Some n ->
  exists t', zu_put enc t p d acl false dflt eph false = (RPath p, t') /\
    find (nodes t') p = Some {| n_data := payload enc d; n_eph := n_eph n; n_ver := n_ver n + 1;
                                n_acl := mk_default (realacl dflt acl) |}.
Proof. intros enc t p d acl dflt eph n W H. exact (put_same_payload_rewrites_witness enc t p d acl dflt eph n W H). Qed.
Print Assumptions C09Z_put_existing_then_get.

Theorem C09Z_put_existing_others_unchanged : forall enc t p d acl dflt eph chk n,
  wf (nodes t) -> find (nodes t) p = Some n ->
  zu_put enc t p d acl false dflt eph chk =
  if chk && zl_eqb (n_data n) (payload enc d) then (RNone, t)
  else set_and_acl t p (payload enc d) (realacl dflt acl).
Proof. intros enc t p d acl dflt eph chk n W H. exact (zu_put_existing enc t p d acl dflt eph chk n W H). Qed.
Print Assumptions C09Z_put_existing_others_unchanged.

Theorem C09Z_set_and_acl_spec : forall t p pl ra n, find (nodes t) p = Some n ->
  exists t', set_and_acl t p pl ra = (RPath p, t') /\ cvs t' = cvs t /\
    forall q, find (nodes t') q =
      if path_eqb p q then Some {| n_data := pl; n_eph := n_eph n; n_ver := n_ver n + 1; n_acl := mk_default ra |}
      else find (nodes t) q.
Proof. intros t p pl ra n H. exact (set_and_acl_spec t p pl ra n H). Qed.
Print Assumptions C09Z_set_and_acl_spec.

(** (d) update never creates: the set of existing paths is the same afterwards; on a missing node NoNodeError and no
    change; on an existing one only that node changes (payload, version + 1) - or nothing with check_content and an
    equal payload *)
Theorem C09Z_update_never_creates : forall enc t p d chk r t', zu_update enc t p d chk = (r, t') ->
  (forall q, has (nodes t') q = has (nodes t) q) /\
  (has (nodes t) p = false -> r = RExn ENoNode /\ t' = t) /\
  (forall q, q <> p -> find (nodes t') q = find (nodes t) q) /\
  (forall n, find (nodes t) p = Some n ->
     (r = RNone /\ t' = t /\ chk = true /\ n_data n = payload enc d) \/
     (r = RPath p /\ (chk = true -> n_data n <> payload enc d) /\
      find (nodes t') p = Some {| n_data := payload enc d; n_eph := n_eph n; n_ver := n_ver n + 1;
                                  n_acl := n_acl n |})).
Proof. intros enc t p d chk r t' H. exact (update_never_creates enc t p d chk r t' H). Qed.
Print Assumptions C09Z_update_never_creates.

(** (e) ensure_exists on an existing node: it still exists; the data is overwritten iff data is not None (b'' counts
    as given); only the ACL of that node is reset; nothing else changes *)
Theorem C09Z_ensure_exists_existing : forall enc t p acl d n, wf (nodes t) -> find (nodes t) p = Some n ->
  exists t', zu_ensure_exists enc t p acl false d = (RPath p, t') /\ cvs t' = cvs t /\
    forall q, find (nodes t') q =
      if path_eqb p q
      then Some (if is_none d
                 then {| n_data := n_data n; n_eph := n_eph n; n_ver := n_ver n; n_acl := mk_default (Some (mk_default acl)) |}
                 else {| n_data := payload enc d; n_eph := n_eph n; n_ver := n_ver n + 1;
                         n_acl := mk_default (Some (mk_default acl)) |})
      else find (nodes t) q.
Proof. intros enc t p acl d n W H. exact (ensure_exists_existing enc t p acl d n W H). Qed.
Print Assumptions C09Z_ensure_exists_existing.

(** (f) ensure_deleted: no exception and no change when the node is absent; a node without children is removed and
    nothing else; recursive=False on a node with children raises NotEmptyError and deletes nothing *)
Theorem C09Z_ensure_deleted_absent : forall t p rec, has (nodes t) p = false ->
  zu_ensure_deleted t p rec = (RNone, t).
Proof. intros t p rec H. exact (ensure_deleted_absent t p rec H). Qed.
Print Assumptions C09Z_ensure_deleted_absent.

Theorem C09Z_ensure_deleted_leaf : forall t p n, p <> [] -> find (nodes t) p = Some n -> children (nodes t) p = [] ->
  forall rec, exists t', zu_ensure_deleted t p rec = (RNone, t') /\
    forall q, find (nodes t') q = if path_eqb p q then None else find (nodes t) q.
Proof. intros t p n Hp H Hc rec. exact (ensure_deleted_leaf t p n Hp H Hc rec). Qed.
Print Assumptions C09Z_ensure_deleted_leaf.

Theorem C09Z_ensure_deleted_nonrecursive_nonempty : forall t p n, p <> [] -> find (nodes t) p = Some n ->
  children (nodes t) p <> [] -> zu_ensure_deleted t p false = (RExn ENotEmpty, t).
Proof. intros t p n Hp H Hc. exact (ensure_deleted_nonrecursive_nonempty t p n Hp H Hc). Qed.
Print Assumptions C09Z_ensure_deleted_nonrecursive_nonempty.

(** (h) sequence nodes: the created name is path ++ "%010d" % (the parent's child version), it did not exist, and
    the parent's counter is one higher afterwards; different counters (below 10^10) give different names *)
Theorem C09Z_sequence_create_name : forall t p v acl eph p' t', srv_create t p v acl eph true = (RPath p', t') ->
  p' = seq_name p (cv_of (cvs t) (removelast p)) /\ has (nodes t) p' = false /\ has (nodes t') p' = true /\
  cv_of (cvs t') (removelast p) = cv_of (cvs t) (removelast p) + 1.
Proof. intros t p v acl eph p' t' H. exact (sequence_create_name t p v acl eph p' t' H). Qed.
Print Assumptions C09Z_sequence_create_name.

Theorem C09Z_sequence_names_distinct : forall p a b, 0 <= a < 10 ^ 10 -> 0 <= b < 10 ^ 10 -> a <> b ->
  seq_name p a <> seq_name p b.
Proof. intros p a b Ha Hb Hab. exact (sequence_names_distinct p a b Ha Hb Hab). Qed.
Print Assumptions C09Z_sequence_names_distinct.

(** surprises of the real code, as witnesses *)
Theorem C09Z_put_sequence_collision_witness :
  let t0 := {| nodes := []; cvs := [] |} in
  let t1 := snd (c_create t0 [[97]] [120] None false false false) in
  let t2 := snd (c_create t1 [[97; 48;48;48;48;48;48;48;48;48;50]] [] None false false false) in
  fst (zu_put (fun x => x) t2 [[97]] (PBytes [121]) None true true false false) = RPath [[97]] /\
  option_map n_data (find (nodes (snd (zu_put (fun x => x) t2 [[97]] (PBytes [121]) None true true false false))) [[97]])
    = Some [121].
Proof. exact put_sequence_collision_witness. Qed.
Print Assumptions C09Z_put_sequence_collision_witness.

Theorem C09Z_ensure_exists_empty_bytes_overwrites_witness :
  let t := {| nodes := [([[97]], mknode [120] false [31])]; cvs := [] |} in
  option_map n_data (find (nodes (snd (zu_ensure_exists (fun x => x) t [[97]] None false (PBytes [])))) [[97]]) = Some [] /\
  option_map n_data (find (nodes (snd (zu_ensure_exists (fun x => x) t [[97]] None false PNone))) [[97]]) = Some [120].
Proof. exact ensure_exists_empty_bytes_overwrites_witness. Qed.
Print Assumptions C09Z_ensure_exists_empty_bytes_overwrites_witness.

(** (i) ZkReadonlyBackend's writers write nothing *)
Theorem C09Z_readonly_backend_never_writes : forall t p d chk,
  snd (ro_put t p d) = t /\ snd (ro_ensure_exists t p) = t /\ snd (ro_delete t p) = t /\ snd (ro_update t p d chk) = t.
Proof. intros t p d chk. exact (readonly_backend_never_writes t p d chk). Qed.
Print Assumptions C09Z_readonly_backend_never_writes.

(** (i) ZkBackend.put on an existing node is the map update of the in-memory backend *)
Theorem C09Z_backend_put_existing_is_map_update : forall enc aclf t p d n, wf (nodes t) -> find (nodes t) p = Some n ->
  exists t', bk_put enc aclf t p d = (RPath p, t') /\
    forall q, option_map n_data (find (nodes t') q) =
              if path_eqb p q then Some (payload enc d) else option_map n_data (find (nodes t) q).
Proof.
  intros enc aclf t p d n W H. exact (backend_put_existing_is_map_update enc aclf t p d n W H).
Qed.
Print Assumptions C09Z_backend_put_existing_is_map_update.

(* ------------------------------------------------------------------ non-vacuity *)
Definition C09Z_ex_tree : tree :=
  snd (zu_put enc0 (snd (zu_put enc0 empty_tree [[97]; [98]; [99]] (PBytes [32; 120; 10]) None false true true false))
         [[97]; [100]] (POther [123; 125]) None false true false false).

Example C09Z_ex_wf : wfb (nodes C09Z_ex_tree) = true.
Proof. vm_compute. reflexivity. Qed.
(** missing ancestors /a and /a/b were created empty and persistent; the payload is stored verbatim, ephemeral *)
Example C09Z_ex_put_makes_ancestors :
  map (fun q => option_map (fun n => (n_data n, n_eph n)) (find (nodes C09Z_ex_tree) q))
      [[[97]]; [[97]; [98]]; [[97]; [98]; [99]]; [[97]; [100]]; [[98]]]
  = [Some ([], false); Some ([], false); Some ([32; 120; 10], true); Some ([123; 125], false); None].
Proof. vm_compute. reflexivity. Qed.
Example C09Z_ex_create_existing : zu_create enc0 C09Z_ex_tree [[97]; [100]] (POther [123; 125]) None false true false
  = (RExn ENodeExists, C09Z_ex_tree).
Proof. vm_compute. reflexivity. Qed.
Example C09Z_ex_check_content_same :
  zu_put enc0 C09Z_ex_tree [[97]; [100]] (POther [123; 125]) None false true false true = (RNone, C09Z_ex_tree).
Proof. vm_compute. reflexivity. Qed.
Example C09Z_ex_child_of_ephemeral :
  fst (zu_put enc0 C09Z_ex_tree [[97]; [98]; [99]; [100]] PNone None false true false false) = RExn ENoChildEph.
Proof. vm_compute. reflexivity. Qed.
Example C09Z_ex_recursive_delete :
  let t' := snd (zu_ensure_deleted C09Z_ex_tree [[97]] true) in
  (fst (zu_ensure_deleted C09Z_ex_tree [[97]] true), length (nodes t'), fst (zu_ensure_deleted C09Z_ex_tree [[97]] false))
  = (RNone, 0%nat, RExn ENotEmpty).
Proof. vm_compute. reflexivity. Qed.
Example C09Z_ex_sequence :
  fst (zu_create enc0 C09Z_ex_tree [[97]; [115]] PNone None true true false)
  = RPath [[97]; [115; 48; 48; 48; 48; 48; 48; 48; 48; 48; 50]].
Proof. vm_compute. reflexivity. Qed.
Example C09Z_ex_update_missing : zu_update enc0 C09Z_ex_tree [[122]] PNone false = (RExn ENoNode, C09Z_ex_tree).
Proof. vm_compute. reflexivity. Qed.
