(** C09 / C17 / C18, the store-facing layer: the functions that perform the ZooKeeper writes -
    lib/python/treadmill/zkutils.py (_payload, create, put, update, get, get_default, ensure_exists, ensure_deleted)
    and scheduler/zkbackend.py (ZkBackend, ZkReadonlyBackend).

    Model: Store/ZkUtils.v (ZooKeeper server requests, kazoo's create(makepath), ZkClient's default ACL, the zkutils
    functions statement by statement, the backends).  Tie: harness/tables_zkutils.py pins the bodies by AST template
    and regenerates [zk_retry_table] (Gen/Tables.v) from the try statements; harness/props/zkutilsstage.py runs the
    real functions on the real ZkClient/KazooClient over an in-process server fake and compares result-or-exception
    and the whole tree after every call with [TM.Store.ZkUtilsRun.run_case].

    [wf N]: the parent of every node exists (what a ZooKeeper tree is; [wfb] decides it).  A path is a list of
    segments, a segment a list of character codes. *)
From Coq Require Import ZArith List Bool.
From TM Require Import Store.ZkUtils Store.ZkUtilsP Store.ZkUtilsRun Gen.Tables.
Import ListNotations.
Open Scope Z_scope.

Definition retry_table_ok (tb : list (Z * Z * Z * Z)) : bool :=
  forallb (fun r => match r with (f, p, e, a) => Z.eqb (retry_after f p e) a && negb (Z.eqb a 0) end) tb
  && Nat.eqb (length tb) 9.

(** the source's try/except structure is the model's: every (function, primitive, exception) the source catches leads
    to the action the model takes, and there are exactly the nine catches the model has *)
Theorem C09Z_tables_ok : retry_table_ok zk_retry_table = true.
Proof. vm_compute. reflexivity. Qed.
Print Assumptions C09Z_tables_ok.

(** (g) _payload: bytes verbatim (content and length), None empty, anything else through the encoder *)
Theorem C09Z_payload_bytes_verbatim : forall enc b,
  payload enc (PBytes b) = b /\ length (payload enc (PBytes b)) = length b.
Proof. intros enc b. exact (payload_bytes_verbatim enc b). Qed.
Print Assumptions C09Z_payload_bytes_verbatim.

Theorem C09Z_payload_none_empty : forall enc, payload enc PNone = [].
Proof. intros enc. exact (payload_none_empty enc). Qed.
Print Assumptions C09Z_payload_none_empty.

(** (c) create of an existing node raises NodeExistsError and leaves the tree (data, versions, counters) as it was,
    whatever the payload, the acl and the flags *)
Theorem C09Z_create_existing_raises : forall enc t p d acl dflt eph,
  wf (nodes t) -> has (nodes t) p = true ->
  zu_create enc t p d acl false dflt eph = (RExn ENodeExists, t).
Proof. intros enc t p d acl dflt eph W H. exact (create_existing_raises enc t p d acl dflt eph W H). Qed.
Print Assumptions C09Z_create_existing_raises.

(** (b) put(check_content=True) on an existing node: the tree, version included, is unchanged iff the stored bytes
    equal the new payload (then None is returned); otherwise the payload is stored, the version is bumped, the
    ephemeral flag stays *)
Theorem C09Z_put_same_payload_no_write : forall enc t p d acl dflt eph n,
  wf (nodes t) -> find (nodes t) p = Some n ->
  (snd (zu_put enc t p d acl false dflt eph true) = t <-> n_data n = payload enc d) /\
  (n_data n = payload enc d -> zu_put enc t p d acl false dflt eph true = (RNone, t)) /\
  (n_data n <> payload enc d -> exists t', zu_put enc t p d acl false dflt eph true = (RPath p, t') /\
      find (nodes t') p = Some {| n_data := payload enc d; n_eph := n_eph n; n_ver := n_ver n + 1;
                                  n_acl := mk_default (realacl dflt acl) |}).
Proof. intros enc t p d acl dflt eph n W H. exact (put_same_payload_no_write enc t p d acl dflt eph n W H). Qed.
Print Assumptions C09Z_put_same_payload_no_write.

(** (a), existing node: put then get returns the payload; every other path is untouched; put(ephemeral=True) does not
    make an existing node ephemeral *)
Theorem C09Z_put_existing_then_get : forall enc t p d acl dflt eph n,
  wf (nodes t) -> find (nodes t) p = Some n ->
  exists t', zu_put enc t p d acl false dflt eph false = (RPath p, t') /\
    find (nodes t') p = Some {| n_data := payload enc d; n_eph := n_eph n; n_ver := n_ver n + 1;
                                n_acl := mk_default (realacl dflt acl) |}.
Proof. intros enc t p d acl dflt eph n W H. exact (put_same_payload_rewrites_witness enc t p d acl dflt eph n W H). Qed.
Print Assumptions C09Z_put_existing_then_get.

Theorem C09Z_put_existing_others_unchanged : forall enc t p d acl dflt eph chk n,
  wf (nodes t) -> find (nodes t) p = Some n ->
  zu_put enc t p d acl false dflt eph chk =
  if chk && zl_eqb (n_data n) (payload enc d) then (RNone, t)
  else set_and_acl t p (payload enc d) (realacl dflt acl).
Proof. intros enc t p d acl dflt eph chk n W H. exact (zu_put_existing enc t p d acl dflt eph chk n W H). Qed.
Print Assumptions C09Z_put_existing_others_unchanged.

Theorem C09Z_set_and_acl_spec : forall t p pl ra n, find (nodes t) p = Some n ->
  exists t', set_and_acl t p pl ra = (RPath p, t') /\ cvs t' = cvs t /\
    forall q, find (nodes t') q =
      if path_eqb p q then Some {| n_data := pl; n_eph := n_eph n; n_ver := n_ver n + 1; n_acl := mk_default ra |}
      else find (nodes t) q.
Proof. intros t p pl ra n H. exact (set_and_acl_spec t p pl ra n H). Qed.
Print Assumptions C09Z_set_and_acl_spec.

(** (d) update never creates: the set of existing paths is the same afterwards; on a missing node NoNodeError and no
    change; on an existing one only that node changes (payload, version + 1) - or nothing with check_content and an
    equal payload *)
Theorem C09Z_update_never_creates : forall enc t p d chk r t', zu_update enc t p d chk = (r, t') ->
  (forall q, has (nodes t') q = has (nodes t) q) /\
  (has (nodes t) p = false -> r = RExn ENoNode /\ t' = t) /\
  (forall q, q <> p -> find (nodes t') q = find (nodes t) q) /\
  (forall n, find (nodes t) p = Some n ->
     (r = RNone /\ t' = t /\ chk = true /\ n_data n = payload enc d) \/
     (r = RPath p /\ (chk = true -> n_data n <> payload enc d) /\
      find (nodes t') p = Some {| n_data := payload enc d; n_eph := n_eph n; n_ver := n_ver n + 1;
                                  n_acl := n_acl n |})).
Proof. intros enc t p d chk r t' H. exact (update_never_creates enc t p d chk r t' H). Qed.
Print Assumptions C09Z_update_never_creates.

(** (e) ensure_exists on an existing node: it still exists; the data is overwritten iff data is not None (b'' counts
    as given); only the ACL of that node is reset; nothing else changes *)
Theorem C09Z_ensure_exists_existing : forall enc t p acl d n, wf (nodes t) -> find (nodes t) p = Some n ->
  exists t', zu_ensure_exists enc t p acl false d = (RPath p, t') /\ cvs t' = cvs t /\
    forall q, find (nodes t') q =
      if path_eqb p q
      then Some (if is_none d
                 then {| n_data := n_data n; n_eph := n_eph n; n_ver := n_ver n; n_acl := mk_default (Some (mk_default acl)) |}
                 else {| n_data := payload enc d; n_eph := n_eph n; n_ver := n_ver n + 1;
                         n_acl := mk_default (Some (mk_default acl)) |})
      else find (nodes t) q.
Proof. intros enc t p acl d n W H. exact (ensure_exists_existing enc t p acl d n W H). Qed.
Print Assumptions C09Z_ensure_exists_existing.

(** (f) ensure_deleted: no exception and no change when the node is absent; a node without children is removed and
    nothing else; recursive=False on a node with children raises NotEmptyError and deletes nothing *)
Theorem C09Z_ensure_deleted_absent : forall t p rec, has (nodes t) p = false ->
  zu_ensure_deleted t p rec = (RNone, t).
Proof. intros t p rec H. exact (ensure_deleted_absent t p rec H). Qed.
Print Assumptions C09Z_ensure_deleted_absent.

Theorem C09Z_ensure_deleted_leaf : forall t p n, p <> [] -> find (nodes t) p = Some n -> children (nodes t) p = [] ->
  forall rec, exists t', zu_ensure_deleted t p rec = (RNone, t') /\
    forall q, find (nodes t') q = if path_eqb p q then None else find (nodes t) q.
Proof. intros t p n Hp H Hc rec. exact (ensure_deleted_leaf t p n Hp H Hc rec). Qed.
Print Assumptions C09Z_ensure_deleted_leaf.

Theorem C09Z_ensure_deleted_nonrecursive_nonempty : forall t p n, p <> [] -> find (nodes t) p = Some n ->
  children (nodes t) p <> [] -> zu_ensure_deleted t p false = (RExn ENotEmpty, t).
Proof. intros t p n Hp H Hc. exact (ensure_deleted_nonrecursive_nonempty t p n Hp H Hc). Qed.
Print Assumptions C09Z_ensure_deleted_nonrecursive_nonempty.

(** (h) sequence nodes: the created name is path ++ "%010d" % (the parent's child version), it did not exist, and
    the parent's counter is one higher afterwards; different counters (below 10^10) give different names *)
Theorem C09Z_sequence_create_name : forall t p v acl eph p' t', srv_create t p v acl eph true = (RPath p', t') ->
  p' = seq_name p (cv_of (cvs t) (removelast p)) /\ has (nodes t) p' = false /\ has (nodes t') p' = true /\
  cv_of (cvs t') (removelast p) = cv_of (cvs t) (removelast p) + 1.
Proof. intros t p v acl eph p' t' H. exact (sequence_create_name t p v acl eph p' t' H). Qed.
Print Assumptions C09Z_sequence_create_name.

Theorem C09Z_sequence_names_distinct : forall p a b, 0 <= a < 10 ^ 10 -> 0 <= b < 10 ^ 10 -> a <> b ->
  seq_name p a <> seq_name p b.
Proof. intros p a b Ha Hb Hab. exact (sequence_names_distinct p a b Ha Hb Hab). Qed.
Print Assumptions C09Z_sequence_names_distinct.

(** surprises of the real code, as witnesses *)
Theorem C09Z_put_sequence_collision_witness :
  let t0 := {| nodes := []; cvs := [] |} in
  let t1 := snd (c_create t0 [[97]] [120] None false false false) in
  let t2 := snd (c_create t1 [[97; 48;48;48;48;48;48;48;48;48;50]] [] None false false false) in
  fst (zu_put (fun x => x) t2 [[97]] (PBytes [121]) None true true false false) = RPath [[97]] /\
  option_map n_data (find (nodes (snd (zu_put (fun x => x) t2 [[97]] (PBytes [121]) None true true false false))) [[97]])
    = Some [121].
Proof. exact put_sequence_collision_witness. Qed.
Print Assumptions C09Z_put_sequence_collision_witness.

Theorem C09Z_ensure_exists_empty_bytes_overwrites_witness :
  let t := {| nodes := [([[97]], mknode [120] false [31])]; cvs := [] |} in
  option_map n_data (find (nodes (snd (zu_ensure_exists (fun x => x) t [[97]] None false (PBytes [])))) [[97]]) = Some [] /\
  option_map n_data (find (nodes (snd (zu_ensure_exists (fun x => x) t [[97]] None false PNone))) [[97]]) = Some [120].
Proof. exact ensure_exists_empty_bytes_overwrites_witness. Qed.
Print Assumptions C09Z_ensure_exists_empty_bytes_overwrites_witness.

(** (i) ZkReadonlyBackend's writers write nothing *)
Theorem C09Z_readonly_backend_never_writes : forall t p d chk,
  snd (ro_put t p d) = t /\ snd (ro_ensure_exists t p) = t /\ snd (ro_delete t p) = t /\ snd (ro_update t p d chk) = t.
Proof. intros t p d chk. exact (readonly_backend_never_writes t p d chk). Qed.
Print Assumptions C09Z_readonly_backend_never_writes.

(** (i) ZkBackend.put on an existing node is the map update of the in-memory backend *)
Theorem C09Z_backend_put_existing_is_map_update : forall enc aclf t p d n, wf (nodes t) -> find (nodes t) p = Some n ->
  exists t', bk_put enc aclf t p d = (RPath p, t') /\
    forall q, option_map n_data (find (nodes t') q) =
              if path_eqb p q then Some (payload enc d) else option_map n_data (find (nodes t) q).
Proof.
  intros enc aclf t p d n W H. exact (backend_put_existing_is_map_update enc aclf t p d n W H).
Qed.
Print Assumptions C09Z_backend_put_existing_is_map_update.

(* ------------------------------------------------------------------ non-vacuity *)
Definition C09Z_ex_tree : tree :=
  snd (zu_put enc0 (snd (zu_put enc0 empty_tree [[97]; [98]; [99]] (PBytes [32; 120; 10]) None false true true false))
         [[97]; [100]] (POther [123; 125]) None false true false false).

Example C09Z_ex_wf : wfb (nodes C09Z_ex_tree) = true.
Proof. vm_compute. reflexivity. Qed.
(** missing ancestors /a and /a/b were created empty and persistent; the payload is stored verbatim, ephemeral *)
Example C09Z_ex_put_makes_ancestors :
  map (fun q => option_map (fun n => (n_data n, n_eph n)) (find (nodes C09Z_ex_tree) q))
      [[[97]]; [[97]; [98]]; [[97]; [98]; [99]]; [[97]; [100]]; [[98]]]
  = [Some ([], false); Some ([], false); Some ([32; 120; 10], true); Some ([123; 125], false); None].
Proof. vm_compute. reflexivity. Qed.
Example C09Z_ex_create_existing : zu_create enc0 C09Z_ex_tree [[97]; [100]] (POther [123; 125]) None false true false
  = (RExn ENodeExists, C09Z_ex_tree).
Proof. vm_compute. reflexivity. Qed.
Example C09Z_ex_check_content_same :
  zu_put enc0 C09Z_ex_tree [[97]; [100]] (POther [123; 125]) None false true false true = (RNone, C09Z_ex_tree).
Proof. vm_compute. reflexivity. Qed.
Example C09Z_ex_child_of_ephemeral :
  fst (zu_put enc0 C09Z_ex_tree [[97]; [98]; [99]; [100]] PNone None false true false false) = RExn ENoChildEph.
Proof. vm_compute. reflexivity. Qed.
Example C09Z_ex_recursive_delete :
  let t' := snd (zu_ensure_deleted C09Z_ex_tree [[97]] true) in
  (fst (zu_ensure_deleted C09Z_ex_tree [[97]] true), length (nodes t'), fst (zu_ensure_deleted C09Z_ex_tree [[97]] false))
  = (RNone, 0%nat, RExn ENotEmpty).
Proof. vm_compute. reflexivity. Qed.
Example C09Z_ex_sequence :
  fst (zu_create enc0 C09Z_ex_tree [[97]; [115]] PNone None true true false)
  = RPath [[97]; [115; 48; 48; 48; 48; 48; 48; 48; 48; 48; 50]].
Proof. vm_compute. reflexivity. Qed.
Example C09Z_ex_update_missing : zu_update enc0 C09Z_ex_tree [[122]] PNone false = (RExn ENoNode, C09Z_ex_tree).
Proof. vm_compute. reflexivity. Qed.

(* ================================================================== second part: any wf tree, node present or not
   [is_anc q p]: q is a proper ancestor of p other than "/".
   [created_spec t t' p v eph A]: for every q, t' holds at q - the node (v, eph, version 0, acl A) if q = p; an empty
     persistent node with acl A if q is an ancestor of p missing in t; what t holds otherwise.
   [removed t t' p]: for every q, t' holds nothing at q if p is a prefix of q, what t holds otherwise. *)

Theorem C09Z_wfb_sound : forall N, wfb N = true -> wf N.
Proof. intros N H. exact (wfb_wf N H). Qed.
Print Assumptions C09Z_wfb_sound.

(** (c) create (makepath) of a missing node, when it returns a path: that path is p, p was missing, exactly p and its
    missing ancestors are new (created_spec), wf is kept *)
Theorem C09Z_create_missing_spec : forall enc t p d acl dflt eph p' t', wf (nodes t) ->
  zu_create enc t p d acl false dflt eph = (RPath p', t') ->
  p' = p /\ has (nodes t) p = false /\ wf (nodes t') /\
  created_spec t t' p (payload enc d) eph (mk_default (realacl dflt acl)).
Proof. intros enc t p d acl dflt eph p' t' W H. exact (create_missing_spec enc t p d acl dflt eph p' t' W H). Qed.
Print Assumptions C09Z_create_missing_spec.

(** what created_spec says in words: every existing path unchanged; all ancestors exist afterwards; a new path is p
    or an ancestor of p *)
Theorem C09Z_created_spec_facts : forall t t' p v eph A, has (nodes t) p = false -> created_spec t t' p v eph A ->
  (forall q, has (nodes t) q = true -> find (nodes t') q = find (nodes t) q) /\
  (forall q, is_anc q p = true -> has (nodes t') q = true) /\
  (forall q, has (nodes t) q = false -> has (nodes t') q = true -> q = p \/ is_anc q p = true).
Proof. intros t t' p v eph A H S. exact (created_spec_facts t t' p v eph A H S). Qed.
Print Assumptions C09Z_created_spec_facts.

Theorem C09Z_create_preserves_wf : forall enc t p d acl sequ dflt eph, wf (nodes t) ->
  wf (nodes (snd (zu_create enc t p d acl sequ dflt eph))).
Proof. intros enc t p d acl sequ dflt eph W. exact (create_preserves_wf enc t p d acl sequ dflt eph W). Qed.
Print Assumptions C09Z_create_preserves_wf.

(** kazoo create without makepath: NoNodeError iff the parent is missing; the tree is unchanged *)
Theorem C09Z_create_nomakepath_nonode : forall t p v acl eph sequ,
  (has (nodes t) (removelast p) = false -> k_create t p v acl eph sequ false = (RExn ENoNode, t)) /\
  (forall t', k_create t p v acl eph sequ false = (RExn ENoNode, t') -> has (nodes t) (removelast p) = false /\ t' = t).
Proof. intros t p v acl eph sequ. exact (create_nomakepath_nonode t p v acl eph sequ). Qed.
Print Assumptions C09Z_create_nomakepath_nonode.

(** (a) put on ANY wf tree (node present or not, any flags but sequence), when it does not raise: it returns the path
    (or None: check_content and nothing to write); get returns the payload; every other path is unchanged except
    that the missing ancestors - only those - are new, empty and persistent *)
Theorem C09Z_put_then_get : forall enc t p d acl dflt eph chk r t', wf (nodes t) ->
  zu_put enc t p d acl false dflt eph chk = (r, t') -> (forall e, r <> RExn e) ->
  (r = RPath p \/ (r = RNone /\ chk = true /\ t' = t)) /\
  (exists n', find (nodes t') p = Some n' /\ n_data n' = payload enc d /\
              zu_get t' p = RData (payload enc d) (n_ver n') /\
              (r = RPath p -> n_acl n' = mk_default (realacl dflt acl))) /\
  (forall q, q <> p -> find (nodes t') q =
                       if is_anc q p && negb (has (nodes t) q)
                       then Some (mknode [] false (mk_default (realacl dflt acl))) else find (nodes t) q).
Proof. intros enc t p d acl dflt eph chk r t' W H Hne. exact (put_then_get enc t p d acl dflt eph chk r t' W H Hne). Qed.
Print Assumptions C09Z_put_then_get.

Theorem C09Z_put_preserves_wf : forall enc t p d acl sequ dflt eph chk, wf (nodes t) ->
  wf (nodes (snd (zu_put enc t p d acl sequ dflt eph chk))).
Proof. intros enc t p d acl sequ dflt eph chk W. exact (put_preserves_wf enc t p d acl sequ dflt eph chk W). Qed.
Print Assumptions C09Z_put_preserves_wf.

(** put p d; put p d: with check_content the second call returns None and changes nothing; without it the second
    call rewrites the same bytes - the tree differs from the first result in the version of p only, +1 *)
Theorem C09Z_put_idempotent : forall enc t p d acl dflt eph chk1 t1, wf (nodes t) ->
  zu_put enc t p d acl false dflt eph chk1 = (RPath p, t1) ->
  zu_put enc t1 p d acl false dflt eph true = (RNone, t1) /\
  exists n1 t2, find (nodes t1) p = Some n1 /\
    zu_put enc t1 p d acl false dflt eph false = (RPath p, t2) /\ cvs t2 = cvs t1 /\
    forall q, find (nodes t2) q =
              if path_eqb p q
              then Some {| n_data := n_data n1; n_eph := n_eph n1; n_ver := n_ver n1 + 1; n_acl := n_acl n1 |}
              else find (nodes t1) q.
Proof. intros enc t p d acl dflt eph chk1 t1 W H. exact (put_idempotent enc t p d acl dflt eph chk1 t1 W H). Qed.
Print Assumptions C09Z_put_idempotent.

(** (e) ensure_exists of a missing node *)
Theorem C09Z_ensure_exists_missing : forall enc t p acl d r t', wf (nodes t) -> has (nodes t) p = false ->
  zu_ensure_exists enc t p acl false d = (r, t') -> (forall e, r <> RExn e) ->
  r = RPath p /\ created_spec t t' p (payload enc d) false (mk_default (Some (mk_default acl))).
Proof. intros enc t p acl d r t' W Hp H Hne. exact (ensure_exists_missing enc t p acl d r t' W Hp H Hne). Qed.
Print Assumptions C09Z_ensure_exists_missing.

Theorem C09Z_ensure_exists_preserves_wf : forall enc t p acl sequ d, wf (nodes t) ->
  wf (nodes (snd (zu_ensure_exists enc t p acl sequ d))).
Proof. intros enc t p acl sequ d W. exact (ensure_exists_preserves_wf enc t p acl sequ d W). Qed.
Print Assumptions C09Z_ensure_exists_preserves_wf.

Theorem C09Z_update_preserves_wf : forall enc t p d chk, wf (nodes t) -> wf (nodes (snd (zu_update enc t p d chk))).
Proof. intros enc t p d chk W. exact (update_preserves_wf enc t p d chk W). Qed.
Print Assumptions C09Z_update_preserves_wf.

(** (f) ensure_deleted(recursive=True) of any path but "/" on a wf tree: the result is None - no exception, and the
    model's recursion fuel never runs out -, nothing at or below p is left, every other path is unchanged, wf kept;
    whether or not p existed *)
Theorem C09Z_ensure_deleted_recursive : forall t p, wf (nodes t) -> p <> [] ->
  exists t', zu_ensure_deleted t p true = (RNone, t') /\ removed t t' p /\ wf (nodes t').
Proof. intros t p W Hp. exact (ensure_deleted_recursive t p W Hp). Qed.
Print Assumptions C09Z_ensure_deleted_recursive.

(** (i) ZkBackend refines the in-memory backend of the master harness (harness/emaster.py Mem) on the abstraction
    [abs t q] = the bytes stored at q: put = map update (+ empty missing ancestors), ensure_exists = insert empty if
    absent (+ ancestors), delete = removal of the path and all its descendants; everything else unchanged *)
Theorem C09Z_backend_put_refines : forall enc aclf t p d r t', wf (nodes t) ->
  bk_put enc aclf t p d = (r, t') -> (forall e, r <> RExn e) ->
  r = RPath p /\ wf (nodes t') /\ forall q, abs t' q = mem_put p (payload enc d) (abs t) q.
Proof. intros enc aclf t p d r t' W H Hne. exact (backend_put_refines enc aclf t p d r t' W H Hne). Qed.
Print Assumptions C09Z_backend_put_refines.

Theorem C09Z_backend_ensure_exists_refines : forall enc aclf t p r t', wf (nodes t) ->
  bk_ensure_exists enc aclf t p = (r, t') -> (forall e, r <> RExn e) ->
  r = RPath p /\ wf (nodes t') /\ forall q, abs t' q = mem_ensure p (abs t) q.
Proof. intros enc aclf t p r t' W H Hne. exact (backend_ensure_exists_refines enc aclf t p r t' W H Hne). Qed.
Print Assumptions C09Z_backend_ensure_exists_refines.

Theorem C09Z_backend_delete_refines : forall t p, wf (nodes t) -> p <> [] ->
  exists t', bk_delete t p = (RNone, t') /\ wf (nodes t') /\ forall q, abs t' q = mem_delete p (abs t) q.
Proof. intros t p W Hp. exact (backend_delete_refines t p W Hp). Qed.
Print Assumptions C09Z_backend_delete_refines.

(* non-vacuity of the second part *)
Example C09Z_ex_wf_prop : wf (nodes C09Z_ex_tree).
Proof. apply wfb_wf. vm_compute. reflexivity. Qed.
Example C09Z_ex_backend_put_missing :
  let r := bk_put enc0 (fun _ => None) C09Z_ex_tree [[120]; [121]; [122]] (PBytes [1; 2]) in
  (fst r, map (abs (snd r)) [[[120]]; [[120]; [121]]; [[120]; [121]; [122]]; [[97]; [100]]; [[122]]])
  = (RPath [[120]; [121]; [122]], [Some []; Some []; Some [1; 2]; Some [123; 125]; None]).
Proof. vm_compute. reflexivity. Qed.
Example C09Z_ex_backend_delete :
  map (abs (snd (bk_delete C09Z_ex_tree [[97]; [98]]))) [[[97]]; [[97]; [98]]; [[97]; [98]; [99]]; [[97]; [100]]]
  = [Some []; None; None; Some [123; 125]].
Proof. vm_compute. reflexivity. Qed.
Example C09Z_ex_put_raises_under_ephemeral :   (* the hypothesis "does not raise" of put_then_get can fail *)
  exists e, fst (zu_put enc0 C09Z_ex_tree [[97]; [98]; [99]; [100]] PNone None false true false false) = RExn e.
Proof. exists ENoChildEph. vm_compute. reflexivity. Qed.

(** create(makepath=True) of a missing node on a wf tree either makes it (then C09Z_create_missing_spec applies) or
    raises NoChildrenForEphemeralsError; no other exception *)
Theorem C09Z_create_missing_outcome : forall t p v acl eph, wf (nodes t) -> has (nodes t) p = false ->
  (exists t', k_create t p v acl eph false true = (RPath p, t')) \/
  (exists t', k_create t p v acl eph false true = (RExn ENoChildEph, t')).
Proof. intros t p v acl eph W Hp. exact (create_missing_outcome t p v acl eph W Hp). Qed.
Print Assumptions C09Z_create_missing_outcome.
