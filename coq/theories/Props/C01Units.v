(** C01, last sentence: "Capacities and demands mean the same quantity however they are spelled
    (1G = 1024M, 100% = 100)", for all unit spellings of the same quantity.

    Model: Codec/Units.v (utils.cpu_units / size_to_bytes / kilobytes / megabytes and scheduler/loader.py
    resources, at string level; strings are lists of code points, int()/str() are Codec/Dec.v).
    The suffix table utils._SIZE_SCALE, the multipliers 1024 / 1000, the modifier 'B', the divisors of
    kilobytes / megabytes, the '%' of cpu_units and the parser assignment / key order / default of
    resources are [TM.Codec.UnitsRun.units_tables], assembled from definitions that harness/tables_units.py
    regenerates from the source on every run; every theorem carries the premise [units_tables_ok T = true],
    discharged for the generated tables by [C01U_tables_ok].

    [str_of_Z n] is str(n) (a '-' and decimal digits, no leading zeros); every theorem holds for ALL integers n
    (no bound; negative n included - Python's // and Coq's Z.div both floor).  66 'B' 75 'K' 77 'M' 71 'G'
    84 'T' 37 '%'. *)
From Coq Require Import ZArith List Bool.
From TM Require Import Codec.BaseN Codec.Dec Codec.Units Codec.UnitsP Codec.UnitsRun Gen.Tables.
Import ListNotations.
Open Scope Z_scope.

(** the source's suffix table, multipliers and parser assignment are the ones the statement needs *)
Theorem C01U_tables_ok : units_tables_ok units_tables = true.
Proof. vm_compute. reflexivity. Qed.
Print Assumptions C01U_tables_ok.

(** 1G = 1024M: both spellings give 1024*n megabytes *)
Theorem C01U_G_is_1024M : forall T n, units_tables_ok T = true ->
  megabytes T (VStr (str_of_Z n ++ [71])) = UOk (1024 * n) /\
  megabytes T (VStr (str_of_Z (1024 * n) ++ [77])) = UOk (1024 * n).
Proof. intros T n H. exact (G_is_1024M T H n). Qed.
Print Assumptions C01U_G_is_1024M.

(** 1T = 1024G = 1024*1024 M *)
Theorem C01U_T_is_1024G : forall T n, units_tables_ok T = true ->
  megabytes T (VStr (str_of_Z n ++ [84])) = UOk (1024 * 1024 * n) /\
  megabytes T (VStr (str_of_Z (1024 * n) ++ [71])) = UOk (1024 * 1024 * n).
Proof. intros T n H. exact (T_is_1024G T H n). Qed.
Print Assumptions C01U_T_is_1024G.

(** K: 1024 bytes; kilobytes is exact, megabytes floors *)
Theorem C01U_K_floor : forall T n, units_tables_ok T = true ->
  size_to_bytes T (VStr (str_of_Z n ++ [75])) = UOk (1024 * n) /\
  kilobytes T (VStr (str_of_Z n ++ [75])) = UOk n /\
  megabytes T (VStr (str_of_Z n ++ [75])) = UOk (n / 1024).
Proof. intros T n H. exact (K_floor T H n). Qed.
Print Assumptions C01U_K_floor.

(** M is exact in both *)
Theorem C01U_M_exact : forall T n, units_tables_ok T = true ->
  kilobytes T (VStr (str_of_Z n ++ [77])) = UOk (1024 * n) /\
  megabytes T (VStr (str_of_Z n ++ [77])) = UOk n.
Proof. intros T n H. exact (M_exact T H n). Qed.
Print Assumptions C01U_M_exact.

(** a lone B is bytes: both conversions floor *)
Theorem C01U_B_is_bytes : forall T n, units_tables_ok T = true ->
  size_to_bytes T (VStr (str_of_Z n ++ [66])) = UOk n /\
  kilobytes T (VStr (str_of_Z n ++ [66])) = UOk (n / 1024) /\
  megabytes T (VStr (str_of_Z n ++ [66])) = UOk (n / 1048576).
Proof. intros T n H. exact (B_is_bytes T H n). Qed.
Print Assumptions C01U_B_is_bytes.

(** the B modifier means powers of 1000: nGB = n * 10^9 bytes = n * 10^9 // 2^20 megabytes *)
Theorem C01U_decimal_modifier : forall T n, units_tables_ok T = true ->
  size_to_bytes T (VStr (str_of_Z n ++ [75; 66])) = UOk (n * 1000) /\
  size_to_bytes T (VStr (str_of_Z n ++ [77; 66])) = UOk (n * 1000000) /\
  size_to_bytes T (VStr (str_of_Z n ++ [71; 66])) = UOk (n * 1000000000) /\
  megabytes T (VStr (str_of_Z n ++ [77; 66])) = UOk (n * 1000000 / 1048576) /\
  megabytes T (VStr (str_of_Z n ++ [71; 66])) = UOk (n * 1000000000 / 1048576).
Proof. intros T n H. exact (decimal_modifier T H n). Qed.
Print Assumptions C01U_decimal_modifier.

(** every suffix c of the table (exponent e), with or without the modifier, in ANY letter case and between
    blanks ([spells s t]: s.upper().strip() == t): n * 1024^e bytes, n * 1000^e with the modifier; kilobytes and
    megabytes are the floors of that quantity *)
Theorem C01U_every_suffix : forall T s n c e dec, units_tables_ok T = true ->
  spells s (spell n c dec) = true -> assoc c canon_scale = Some e ->
  size_to_bytes T (VStr s) = UOk (denote n e dec) /\
  kilobytes T (VStr s) = UOk (denote n e dec / 1024) /\
  megabytes T (VStr s) = UOk (denote n e dec / 1048576).
Proof. intros T s n c e dec H Hs Hc. exact (spelled_all T H s n c e dec Hs Hc). Qed.
Print Assumptions C01U_every_suffix.

(** ... and the strings that [spells] accepts include the canonical one and every re-casing of it between blanks *)
Theorem C01U_spells_recased : forall n c e dec l r s,
  assoc c canon_scale = Some e -> blank l = true -> blank r = true -> upper s = upper (spell n c dec) ->
  spells (l ++ s ++ r) (spell n c dec) = true.
Proof.
  intros n c e dec l r s Hc Hl Hr Hu.
  exact (spells_recased l r s (spell n c dec) Hl Hr Hu (spells_canon n c e dec Hc)).
Qed.
Print Assumptions C01U_spells_recased.

(** same quantity => same value, for any two spellings (different suffixes, modifiers, cases, blanks) *)
Theorem C01U_same_quantity : forall T s1 n1 c1 e1 d1 s2 n2 c2 e2 d2, units_tables_ok T = true ->
  spells s1 (spell n1 c1 d1) = true -> assoc c1 canon_scale = Some e1 ->
  spells s2 (spell n2 c2 d2) = true -> assoc c2 canon_scale = Some e2 ->
  (denote n1 e1 d1 = denote n2 e2 d2 -> size_to_bytes T (VStr s1) = size_to_bytes T (VStr s2)) /\
  (denote n1 e1 d1 / 1024 = denote n2 e2 d2 / 1024 -> kilobytes T (VStr s1) = kilobytes T (VStr s2)) /\
  (denote n1 e1 d1 / 1048576 = denote n2 e2 d2 / 1048576 -> megabytes T (VStr s1) = megabytes T (VStr s2)).
Proof.
  intros T s1 n1 c1 e1 d1 s2 n2 c2 e2 d2 H H1 C1 H2 C2.
  exact (same_quantity T H s1 n1 c1 e1 d1 s2 n2 c2 e2 d2 H1 C1 H2 C2).
Qed.
Print Assumptions C01U_same_quantity.

(** case- and blank-insensitivity for ARBITRARY strings (well-formed or not, errors included): the four parsers
    depend on their argument only through value.upper().strip().  [is_ascii]: the model's upper()/strip() are
    the ASCII ones (the hypothesis is the domain on which the model is tied to the code, not a proof need) *)
Theorem C01U_case_and_blanks : forall T l r s1 s2, units_tables_ok T = true ->
  is_ascii (l ++ s1 ++ r) = true -> is_ascii s2 = true ->
  blank l = true -> blank r = true -> upper s1 = upper s2 ->
  size_to_bytes T (VStr (l ++ s1 ++ r)) = size_to_bytes T (VStr s2) /\
  kilobytes T (VStr (l ++ s1 ++ r)) = kilobytes T (VStr s2) /\
  megabytes T (VStr (l ++ s1 ++ r)) = megabytes T (VStr s2) /\
  cpu_units T (VStr (l ++ s1 ++ r)) = cpu_units T (VStr s2).
Proof. intros T l r s1 s2 H _ _ Hl Hr Hu. exact (case_and_blanks T l r s1 s2 Hl Hr Hu). Qed.
Print Assumptions C01U_case_and_blanks.

Theorem C01U_lower_case : forall T l r s, units_tables_ok T = true ->
  is_ascii (l ++ s ++ r) = true -> blank l = true -> blank r = true ->
  size_to_bytes T (VStr (l ++ lower s ++ r)) = size_to_bytes T (VStr s) /\
  kilobytes T (VStr (l ++ lower s ++ r)) = kilobytes T (VStr s) /\
  megabytes T (VStr (l ++ lower s ++ r)) = megabytes T (VStr s) /\
  cpu_units T (VStr (l ++ lower s ++ r)) = cpu_units T (VStr s).
Proof. intros T l r s H _ Hl Hr. exact (lower_case T l r s Hl Hr). Qed.
Print Assumptions C01U_lower_case.

(** 100% = 100: "n%", "n" and the int n are all n *)
Theorem C01U_cpu_percent : forall T n, units_tables_ok T = true ->
  cpu_units T (VStr (str_of_Z n ++ [37])) = UOk n /\ cpu_units T (VStr (str_of_Z n)) = UOk n /\
  cpu_units T (VInt n) = UOk n.
Proof. intros T n H. exact (cpu_percent T H n). Qed.
Print Assumptions C01U_cpu_percent.

(** what is NOT accepted: a unit-less size is the generic Exception in kilobytes/megabytes unless it is 0
    (size_to_bytes reads it as bytes) *)
Theorem C01U_unitless : forall T n, units_tables_ok T = true ->
  kilobytes T (VStr (str_of_Z n)) = (if n =? 0 then UOk 0 else UException) /\
  kilobytes T (VInt n) = (if n =? 0 then UOk 0 else UException) /\
  size_to_bytes T (VStr (str_of_Z n)) = UOk n.
Proof. intros T n H. exact (unitless T H n). Qed.
Print Assumptions C01U_unitless.

(** resources(data) is exactly [megabytes memory; cpu_units cpu; megabytes disk] (absent key = the int 0):
    it succeeds iff the three parsers succeed, with that vector and nothing else *)
Theorem C01U_resources_vector : forall T d, units_tables_ok T = true ->
  (forall m c k, megabytes T (fval (r_memory d)) = UOk m -> cpu_units T (fval (r_cpu d)) = UOk c ->
                 megabytes T (fval (r_disk d)) = UOk k -> resources T d = UOk [m; c; k]) /\
  (forall l, resources T d = UOk l ->
             exists m c k, l = [m; c; k] /\ megabytes T (fval (r_memory d)) = UOk m /\
                           cpu_units T (fval (r_cpu d)) = UOk c /\ megabytes T (fval (r_disk d)) = UOk k).
Proof. intros T d H. exact (conj (res_vector T H d) (res_inv T H d)). Qed.
Print Assumptions C01U_resources_vector.

(** total on well-formed records: each size field absent / zero / <n><c>[B] in any case between blanks, the cpu
    field absent / int / <n> / <n>% *)
Theorem C01U_resources_total : forall T d sm sc sd, units_tables_ok T = true ->
  fspells (r_memory d) sm = true -> fwf sm = true ->
  cspells (r_cpu d) sc = true ->
  fspells (r_disk d) sd = true -> fwf sd = true ->
  resources T d = UOk [fbytes sm / 1048576; cval sc; fbytes sd / 1048576].
Proof. intros T d sm sc sd H H1 W1 H2 H3 W3. exact (res_total T H d sm sc sd H1 W1 H2 H3 W3). Qed.
Print Assumptions C01U_resources_total.

(** two records whose fields denote the same numbers of megabytes / cpu units give the same resource vector *)
Theorem C01U_resources_same : forall T d1 sm1 sc1 sd1 d2 sm2 sc2 sd2, units_tables_ok T = true ->
  fspells (r_memory d1) sm1 = true -> fwf sm1 = true -> cspells (r_cpu d1) sc1 = true ->
  fspells (r_disk d1) sd1 = true -> fwf sd1 = true ->
  fspells (r_memory d2) sm2 = true -> fwf sm2 = true -> cspells (r_cpu d2) sc2 = true ->
  fspells (r_disk d2) sd2 = true -> fwf sd2 = true ->
  fbytes sm1 / 1048576 = fbytes sm2 / 1048576 -> cval sc1 = cval sc2 ->
  fbytes sd1 / 1048576 = fbytes sd2 / 1048576 ->
  resources T d1 = resources T d2 /\
  resources T d1 = UOk [fbytes sm1 / 1048576; cval sc1; fbytes sd1 / 1048576].
Proof.
  intros T d1 sm1 sc1 sd1 d2 sm2 sc2 sd2 H A1 A2 A3 A4 A5 B1 B2 B3 B4 B5 E1 E2 E3.
  exact (res_same T H d1 sm1 sc1 sd1 d2 sm2 sc2 sd2 A1 A2 A3 A4 A5 B1 B2 B3 B4 B5 E1 E2 E3).
Qed.
Print Assumptions C01U_resources_same.

(** * Non-vacuity (on the GENERATED tables): the hypotheses are satisfiable and the conclusions are the
      expected numbers; the error constructors are reachable *)
Definition s_ (l : list Z) : pyval := VStr l.
(* "2G" = 2048 = "2048M" = " 2g " *)
Example C01U_ex_G : megabytes units_tables (s_ [50; 71]) = UOk 2048.
Proof. vm_compute. reflexivity. Qed.
Example C01U_ex_M : megabytes units_tables (s_ [50; 48; 52; 56; 77]) = UOk 2048.
Proof. vm_compute. reflexivity. Qed.
Example C01U_ex_lower_blank : megabytes units_tables (s_ [32; 50; 103; 9]) = UOk 2048.
Proof. vm_compute. reflexivity. Qed.
(* "1023K" = 0 MB, 1023 KB; "3GB" = 3*10^9 // 2^20 = 2861 *)
Example C01U_ex_floor : megabytes units_tables (s_ [49; 48; 50; 51; 75]) = UOk 0.
Proof. vm_compute. reflexivity. Qed.
Example C01U_ex_floor_kb : kilobytes units_tables (s_ [49; 48; 50; 51; 75]) = UOk 1023.
Proof. vm_compute. reflexivity. Qed.
Example C01U_ex_GB : megabytes units_tables (s_ [51; 71; 66]) = UOk 2861.
Proof. vm_compute. reflexivity. Qed.
(* "100%" = 100 = "100" *)
Example C01U_ex_pct : cpu_units units_tables (s_ [49; 48; 48; 37]) = UOk 100.
Proof. vm_compute. reflexivity. Qed.
Example C01U_ex_nopct : cpu_units units_tables (s_ [49; 48; 48]) = UOk 100.
Proof. vm_compute. reflexivity. Qed.
(* the hypotheses of C01U_every_suffix / C01U_spells_recased hold for " 3gB\n" *)
Example C01U_ex_spells : spells [32; 51; 103; 66; 10] (spell 3 71 true) = true.
Proof. vm_compute. reflexivity. Qed.
Example C01U_ex_scale : assoc 71 canon_scale = Some 3.
Proof. vm_compute. reflexivity. Qed.
(* errors: "" and "B" IndexError; "5" unit-less Exception; "1.5G" and "5%" ValueError; "G" ValueError *)
Example C01U_ex_empty : size_to_bytes units_tables (s_ []) = UIndexError.
Proof. vm_compute. reflexivity. Qed.
Example C01U_ex_lone_B : megabytes units_tables (s_ [66]) = UIndexError.
Proof. vm_compute. reflexivity. Qed.
Example C01U_ex_unitless : megabytes units_tables (s_ [53]) = UException.
Proof. vm_compute. reflexivity. Qed.
Example C01U_ex_float : megabytes units_tables (s_ [49; 46; 53; 71]) = UValueError.
Proof. vm_compute. reflexivity. Qed.
Example C01U_ex_pct_size : megabytes units_tables (s_ [53; 37]) = UException.
Proof. vm_compute. reflexivity. Qed.
Example C01U_ex_size_cpu : cpu_units units_tables (s_ [53; 71]) = UValueError.
Proof. vm_compute. reflexivity. Qed.
(* resources: {memory: "1g", cpu: " 50% ", disk absent} = [1024; 50; 0]; the spelling hypotheses hold for it;
   {memory: "1024M", cpu: 50, disk: "0"} gives the same vector *)
Definition ex_rec1 : rspec :=
  {| r_memory := Some (s_ [49; 103]); r_cpu := Some (s_ [32; 53; 48; 37; 32]); r_disk := None |}.
Definition ex_rec2 : rspec :=
  {| r_memory := Some (s_ [49; 48; 50; 52; 77]); r_cpu := Some (VInt 50); r_disk := Some (s_ [48]) |}.
Example C01U_ex_resources : resources units_tables ex_rec1 = UOk [1024; 50; 0].
Proof. vm_compute. reflexivity. Qed.
Example C01U_ex_resources2 : resources units_tables ex_rec2 = UOk [1024; 50; 0].
Proof. vm_compute. reflexivity. Qed.
Example C01U_ex_res_hyps :
  fspells (r_memory ex_rec1) (FSized 1 71 false) && fwf (FSized 1 71 false) &&
  cspells (r_cpu ex_rec1) (CNum 50 true) && fspells (r_disk ex_rec1) FAbsent &&
  fspells (r_memory ex_rec2) (FSized 1024 77 false) && cspells (r_cpu ex_rec2) (CInt 50) &&
  fspells (r_disk ex_rec2) FZero = true.
Proof. vm_compute. reflexivity. Qed.
Example C01U_ex_res_error :
  resources units_tables {| r_memory := Some (s_ [49; 71]); r_cpu := Some (s_ [49; 71]); r_disk := None |}
  = UValueError.
Proof. vm_compute. reflexivity. Qed.
