(** C01  No server is oversubscribed; every instance sits on at most one server.

    Model: Sched/{Types,Tree,Cycle,Events}.v, tied to the source by the E-cell correspondence.
    Proof: Sched/Steps.v shows that a whole scheduling cycle (pre-phases, queue, placement loop with eviction,
    restore and renewal) is a sequence of eight primitive transitions; Sched/InvAcct.v shows that the accounting
    invariant [Acct] is preserved by each primitive and by every event between cycles. Unbounded: any number of
    servers, instances, cycles; any dimension. *)
From Coq Require Import ZArith QArith List Bool.
From TM Require Import Sched.Vec Sched.Types Sched.Tree Sched.Cycle Sched.Events Sched.MapsP Sched.Steps Sched.InvAcct.
From TM Require Import Sched.TurnP Sched.Reach Sched.ReloadP.
From TM Require Import Base.ShapeCanon Master.SrvState Master.SrvStateP.
Import ListNotations.
Open Scope Z_scope.

(** every state reachable from the empty cell by well-formed events and cycles satisfies the invariant *)
Theorem C01_invariant : forall dim root level ops,
  wf_ops (init_cell dim root level) ops -> Acct (run (init_cell dim root level) ops).
Proof. intros dim root level ops H. exact (Acct_run ops _ H (Acct_init dim root level)). Qed.
Print Assumptions C01_invariant.

(** one cycle, from ANY state satisfying the invariant and for ANY identity choices *)
Theorem C01_cycle : forall c choices, Acct c -> Acct (fst (fst (schedule c choices))).
Proof. exact Acct_schedule. Qed.
Print Assumptions C01_cycle.

(** what the invariant says, per server: free = capacity - summed demand, componentwise, and free >= 0
    (so the summed demand never exceeds the capacity in any dimension) *)
Theorem C01_accounting : forall c s, Acct c -> In s (c_servers c) ->
  vadd (s_free s) (total (c_apps c) (c_dim c) (s_apps s)) = s_cap s /\ nonneg (s_free s) /\
  length (s_free s) = c_dim c /\ length (s_cap s) = c_dim c.
Proof.
  intros c s HA Hin. pose proof (In_get_srv _ _ (ac_srv_names _ HA) Hin) as Hg.
  destruct (ac_srv_dims _ HA _ _ Hg) as (H1 & H2 & H3).
  exact (conj (ac_acct _ HA _ _ Hg) (conj H3 (conj H2 H1))).
Qed.
Print Assumptions C01_accounting.

(** the two views agree: a server lists exactly the instances that name it, without repetition,
    and an instance is listed by at most one server *)
Theorem C01_views : forall c, Acct c ->
  (forall s m, In s (c_servers c) -> In m (s_apps s) ->
     exists a, get_app m (c_apps c) = Some a /\ a_server a = Some (s_name s)) /\
  (forall a s, In a (c_apps c) -> In s (c_servers c) -> a_server a = Some (s_name s) -> In (a_name a) (s_apps s)) /\
  (forall s, In s (c_servers c) -> NoDup (s_apps s)) /\
  (forall s1 s2 m, In s1 (c_servers c) -> In s2 (c_servers c) -> In m (s_apps s1) -> In m (s_apps s2) -> s1 = s2).
Proof.
  intros c HA. pose proof (ac_srv_names _ HA) as Hns. pose proof (ac_app_names _ HA) as Hna.
  split; [|split; [|split]].
  - intros s m Hs Hm. exact (ac_listed _ HA _ _ _ (In_get_srv _ _ Hns Hs) Hm).
  - intros a s Ha Hs Hsv. exact (ac_placed _ HA _ _ _ _ (In_get_app _ _ Hna Ha) Hsv (In_get_srv _ _ Hns Hs)).
  - intros s Hs. exact (ac_nodup _ HA _ _ (In_get_srv _ _ Hns Hs)).
  - intros s1 s2 m H1 H2 Hm1 Hm2.
    destruct (ac_listed _ HA _ _ _ (In_get_srv _ _ Hns H1) Hm1) as (a1 & Ha1 & Hs1).
    destruct (ac_listed _ HA _ _ _ (In_get_srv _ _ Hns H2) Hm2) as (a2 & Ha2 & Hs2).
    rewrite Ha1 in Ha2. inversion Ha2; subst a2. rewrite Hs1 in Hs2. inversion Hs2 as [Hn].
    pose proof (In_get_srv _ _ Hns H1) as G1. pose proof (In_get_srv _ _ Hns H2) as G2.
    rewrite Hn in G1. rewrite G1 in G2. inversion G2. reflexivity.
Qed.
Print Assumptions C01_views.

(** non-vacuity: a history with pressure, an eviction and a removed server is well-formed, and its final state
    has a placed instance *)
Definition ex_a (n p o : Z) (d : vec) : app :=
  mkApp n p d 3000 [] 0 0 None None false o None None None None false false false false (-1).
Definition ex_ops : list op :=
  [ OAddBucket 2001 3 2000; OAddServer 1000 2001 [100;100;100] 4000 0 0; OAddServer 1001 2001 [100;100;100] 4000 0 0;
    OAddApp 4000 [] (ex_a 1 1 1 [60;60;60]); OAddApp 4000 [] (ex_a 2 1 2 [60;60;60]); OSchedule [];
    OAddApp 4000 [] (ex_a 3 9 3 [80;80;80]); OSchedule []; ORemoveServer 1000 false; OSchedule [] ].
Example C01_nonvacuous_wf : wf_ops (init_cell 3 2000 1) ex_ops.
Proof. apply wf_opsb_sound. vm_compute. reflexivity. Qed.
Example C01_nonvacuous_run :
  map (fun a => (a_name a, a_server a)) (c_apps (run (init_cell 3 2000 1) ex_ops))
  = [(1, None); (2, None); (3, Some 1001)].
Proof. vm_compute. reflexivity. Qed.

(** Loader level: reload_server keeps the running Server object - with its capacity and free vector - only when the
    new declaration is identical in capacity (exactly), partition label, own traits and parent bucket; otherwise the
    server is replaced and its placements are re-evaluated (model Master/SrvState.v same_decl, whose decision drives the
    correspondence stage of harness/props/c08master.py; the seeded change c01-is-same-isclose is what this excludes) *)
Theorem C01_reload_keeps_only_identical : forall old new, same_decl old new = true -> old = new.
Proof. exact reload_keeps_only_identical. Qed.
Print Assumptions C01_reload_keeps_only_identical.

(** Loader level: a server that is NOT identical to its new declaration is reloaded - Loader.remove_server
    (Server.remove_all, then parent.remove_node), Loader.load_server, Loader.restore_placement(restore_identity=False)
    for the placements recorded under it - and the accounting invariant (with every other invariant of a reachable
    state) holds afterwards, whatever the new capacity is and whichever of the recorded instances still fit: the
    sequence is a run of operations of the alphabet (Sched/ReloadP.v [reload_ops]) whose side conditions follow from
    the call site (vectors of the cell's dimension; the recorded placements are those the model holds on that server) *)
Theorem C01_reload_server : forall c name parent cap label traits vu vb ex xs,
  reachable c -> get_srv name (c_servers c) <> None ->
  length cap = c_dim c -> nonneg cap -> NoDup xs ->
  (forall x a, In x xs -> app_of c x = Some a -> a_server a = Some name) ->
  let c' := run c (reload_ops name parent cap label traits vu vb ex xs) in
  reachable c' /\ Acct c'.
Proof.
  intros c name parent cap label traits vu vb ex xs HR Hex Hl Hn Hnd Hrec c'.
  assert (W : wf_ops_all c (reload_ops name parent cap label traits vu vb ex xs))
    by (apply reload_wf; try assumption; apply reachable_Good; exact HR).
  assert (R' : reachable c') by (apply reachable_run; assumption).
  split; [exact R'|]. apply (proj1 (reachable_Good _ R')).
Qed.
Print Assumptions C01_reload_server.

(** non-vacuity: the server is declared again with a smaller capacity; of its two instances one fits again *)
Example C01_reload_nonvacuous :
  let c := run (init_cell 3 2000 1)
             [ OAddBucket 2001 3 2000; OAddServer 1000 2001 [100;100;100] 4000 0 0;
               OAddApp 4000 [] (ex_a 1 1 1 [40;40;40]); OAddApp 4000 [] (ex_a 2 1 2 [40;40;40]); OSchedule [] ] in
  let ops := reload_ops 1000 2001 [50;50;50] 4000 0 0 (fun _ => false) (fun _ => 0) [1; 2] in
  map (fun a => (a_name a, a_server a)) (c_apps c) = [(1, Some 1000); (2, Some 1000)] /\
  map (fun a => (a_name a, a_server a)) (c_apps (run c ops)) = [(1, Some 1000); (2, None)] /\
  map (fun s => (s_name s, s_free s)) (c_servers (run c ops)) = [(1000, [10;10;10])] /\
  wf_ops_allb c ops = true.
Proof. vm_compute. repeat split. Qed.

(** the functions of treadmill/scheduler/__init__.py these theorems were proved about still have the statement
    skeleton the model was written from (re-extracted from the Python AST on every run, harness/tables_shape.py;
    kept last so that a difference does not stop the theorems above from being checked) *)
Theorem C01_source_shape : shapes_ok_C01 = true.
Proof. vm_compute. reflexivity. Qed.
Print Assumptions C01_source_shape.
