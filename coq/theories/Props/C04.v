(** C04  Affinity limits hold at every level of the topology.

    Proved (Sched/InvAff.v, over the primitive-transition decomposition of Sched/Steps.v), for all histories of events
    and cycles in which instances of one affinity declare the same limits (the property's own proviso):
      C04_invariant / C04_cycle   the invariant holds in every reachable state / is kept by any cycle;
      C04_server_counts           the per-server affinity counter the scheduler keeps equals the true count;
      C04_server_limit            no server holds more instances of an affinity than they allow at server level.
    Refuted for the levels above the server on the code as it is (known finding, TODO in the source):
      C04_levels_refuted          the eviction path puts an instance straight on a server and exceeds a rack limit.
      C04_bucket_counts         (Sched/InvCount.v, built by a sub-agent) in every reachable state the affinity counter
                                kept by EVERY bucket - rack, pod, cell - equals the number of instances of that
                                affinity placed on the servers below it (parent chain), for all histories including
                                topology changes (servers added, moved between racks, removed) and every path of a
                                cycle (walk, eviction scan, restore); C04_cell_counts: the root counter equals the number
                                placed in the cell. Side conditions: a new bucket has a fresh name and an existing
                                parent, a new or moved server an existing parent.
    So the second sentence of the statement ("the per-node affinity counts the scheduler keeps equal the true
    counts") is a theorem at every level; the first sentence holds at server level (C04_server_limit) and is refuted
    above it on the code as it is (C04_levels_refuted): the counters are right, the limit is not consulted on the
    eviction and restore paths. *)
From Coq Require Import ZArith QArith List Bool.
From TM Require Import Sched.Vec Sched.Types Sched.Tree Sched.Cycle Sched.Events Sched.MapsP Sched.Steps
                       Sched.InvAcct Sched.InvAff Sched.InvCount.
From TM Require Import Base.ShapeCanon.
Import ListNotations.
Open Scope Z_scope.

Theorem C04_invariant : forall dim root level ops,
  wf_ops_aff (init_cell dim root level) ops -> AA (run (init_cell dim root level) ops).
Proof. intros dim root level ops H. exact (AA_run ops _ H (AA_init dim root level)). Qed.
Print Assumptions C04_invariant.

Theorem C04_cycle : forall c choices, Aff c -> Aff (fst (fst (schedule c choices))).
Proof. exact Aff_schedule. Qed.
Print Assumptions C04_cycle.

Theorem C04_server_counts : forall c s aff, AA c -> In s (c_servers c) ->
  cget aff (s_counters s) = count_aff (c_apps c) aff (s_apps s).
Proof.
  intros c s aff [HA HF] Hin. exact (af_exact _ HF _ _ aff (In_get_srv _ _ (ac_srv_names _ HA) Hin)).
Qed.
Print Assumptions C04_server_counts.

Theorem C04_server_limit : forall c s m a L, AA c -> In s (c_servers c) -> In m (s_apps s) ->
  get_app m (c_apps c) = Some a -> aff_limit a LEVEL_SERVER = Some L ->
  count_aff (c_apps c) (a_aff a) (s_apps s) <= L.
Proof.
  intros c s m a L [HA HF] Hin Hm Ha HL.
  pose proof (In_get_srv _ _ (ac_srv_names _ HA) Hin) as Hg.
  rewrite <- (af_exact _ HF _ _ (a_aff a) Hg). exact (af_limit _ HF _ _ _ _ _ Hg Hm Ha HL).
Qed.
Print Assumptions C04_server_limit.

Theorem C04_bucket_counts : forall dim root level ops,
  wf_ops_aff (init_cell dim root level) ops -> wf_ops_cnt (init_cell dim root level) ops ->
  let c := run (init_cell dim root level) ops in
  forall b aff, In b (c_buckets c) ->
    cget aff (b_counters b) = placed_below c (b_name b) aff /\ cget aff (b_counters b) = srv_count c (b_name b) aff.
Proof. exact bucket_counts_reachable. Qed.
Print Assumptions C04_bucket_counts.

Theorem C04_cell_counts : forall dim root level ops,
  wf_ops_aff (init_cell dim root level) ops -> wf_ops_cnt (init_cell dim root level) ops ->
  let c := run (init_cell dim root level) ops in
  exists b, get_bkt root (c_buckets c) = Some b /\ forall aff, cget aff (b_counters b) = placed_in_cell c aff.
Proof. exact root_counts_reachable. Qed.
Print Assumptions C04_cell_counts.

Theorem C04_counts_cycle : forall c ch, TreeWf c -> CountExact c ->
  TreeWf (fst (fst (schedule c ch))) /\ CountExact (fst (fst (schedule c ch))).
Proof. exact CountExact_schedule. Qed.
Print Assumptions C04_counts_cycle.

(** the code as it is: rack limit 1, a filler and an instance of affinity 3000 in one rack; a higher-priority
    instance of the same affinity arrives, evicts the filler and lands next to the first one *)
Definition ex_x (n p o : Z) : app :=
  mkApp n p [60;60;60] 3000 [(3, 1)] 0 0 None None false o None None None None false false false false (-1).
Definition ex_f (n o : Z) : app :=
  mkApp n 1 [60;60;60] 3001 [] 0 0 None None false o None None None None false false false false (-1).
Definition ex_ops : list op :=
  [ OAddBucket 2001 3 2000; OAddServer 1000 2001 [100;100;100] 4000 0 0; OAddServer 1001 2001 [100;100;100] 4000 0 0;
    OAddApp 4000 [] (ex_x 1 1 1); OAddApp 4000 [] (ex_f 2 2); OSchedule [];
    OAddApp 4000 [] (ex_x 3 9 3); OSchedule [] ].
Theorem C04_levels_refuted :
  exists ops, wf_ops_aff (init_cell 3 2000 1) ops /\
    let c := run (init_cell 3 2000 1) ops in
    exists b a, get_bkt 2001 (c_buckets c) = Some b /\ b_level b = 3 /\ get_app 3 (c_apps c) = Some a /\
                a_server a <> None /\ aff_limit a 3 = Some 1 /\ cget (a_aff a) (b_counters b) = 2.
Proof.
  exists ex_ops. split.
  - apply wf_ops_affb_sound. vm_compute. reflexivity.
  - vm_compute. eexists. eexists. repeat split; try reflexivity. discriminate.
Qed.
Print Assumptions C04_levels_refuted.

(** non-vacuity of the proved part: the same history satisfies the hypotheses, and a server-level limit is active *)
Definition ex_y (n p o : Z) : app :=
  mkApp n p [30;30;30] 3002 [(0, 1)] 0 0 None None false o None None None None false false false false (-1).
Example C04_nonvacuous :
  map (fun a => (a_name a, a_server a))
      (c_apps (run (init_cell 3 2000 1)
                   [OAddBucket 2001 3 2000; OAddServer 1000 2001 [100;100;100] 4000 0 0;
                    OAddApp 4000 [] (ex_y 1 1 1); OAddApp 4000 [] (ex_y 2 1 2); OSchedule []]))
  = [(1, Some 1000); (2, None)].
Proof. vm_compute. reflexivity. Qed.

(** non-vacuity of C04_bucket_counts: the refutation history satisfies both side conditions; the rack counter is 2
    with two instances of affinity 3000 really below the rack *)
Example C04_bucket_counts_nonvacuous :
  wf_ops_cntb (init_cell 3 2000 1) ex_ops = true /\
  placed_below (run (init_cell 3 2000 1) ex_ops) 2001 3000 = 2.
Proof. vm_compute. split; reflexivity. Qed.

(** the functions of treadmill/scheduler/__init__.py these theorems were proved about still have the statement
    skeleton the model was written from (re-extracted from the Python AST on every run, harness/tables_shape.py;
    kept last so that a difference does not stop the theorems above from being checked) *)
Theorem C04_source_shape : shapes_ok_C04 = true.
Proof. vm_compute. reflexivity. Qed.
Print Assumptions C04_source_shape.
