(** C14  Node VIPs, firewall rules and endpoint specs have exactly one owner.

    Model: Node/Owners.v (VipMgr, RuleMgr, EndpointsMgr, endpoints.garbage_collect,
    NetworkResourceService on top of VipMgr).  All theorems quantify over every operation
    sequence [ops] by any number of owners, from any well-formed start state (in particular
    from empty directories), and are proved by induction over [ops] in Node/OwnersP.v. *)
From Coq Require Import ZArith List Bool.
From TM Require Import Node.Owners Node.OwnersP.
From TM Require Import Base.ShapeCanon.
Import ListNotations.
Open Scope Z_scope.

(** a key (address, rule file, endpoint spec) never has two holders *)
Theorem C14_exclusive : forall c ops s0, wf c s0 ->
  let s := run c ops s0 in
  (forall k o1 o2, In (k, o1) (s_vips s) -> In (k, o2) (s_vips s) -> o1 = o2) /\
  (forall k o1 o2, In (k, o1) (s_rules s) -> In (k, o2) (s_rules s) -> o1 = o2) /\
  (forall k o1 o2, In (k, o1) (s_specs s) -> In (k, o2) (s_specs s) -> o1 = o2).
Proof. intros c ops s0 H. exact (run_exclusive c ops s0 H). Qed.
Print Assumptions C14_exclusive.

(** an entry appears only through a create operation of its owner, on a key nobody held: nobody takes over a held key *)
Theorem C14_no_takeover : forall c p s,
  (forall k o, In (k, o) (s_vips (fst (step c p s))) -> ~ In (k, o) (s_vips s) ->
               creates_for p = Some o /\ lookup Z.eqb k (s_vips s) = None) /\
  (forall k o, In (k, o) (s_rules (fst (step c p s))) -> ~ In (k, o) (s_rules s) ->
               creates_for p = Some o /\ lookup Z.eqb k (s_rules s) = None) /\
  (forall k o, In (k, o) (s_specs (fst (step c p s))) -> ~ In (k, o) (s_specs s) ->
               creates_for p = Some o /\ lookup spec_eqb k (s_specs s) = None).
Proof.
  intros c p s. exact (conj (step_new_vip c p s) (conj (step_new_rule c p s) (step_new_spec c p s))).
Qed.
Print Assumptions C14_no_takeover.

(** every allocated address lies in the configured network *)
Theorem C14_in_network : forall c ops s0 a o, wf c s0 -> In (a, o) (s_vips (run c ops s0)) -> in_cidr c a = true.
Proof. intros c ops s0 a o H. exact (run_in_network c ops s0 a o H). Qed.
Print Assumptions C14_in_network.

(** ... and is a host address, never the network or the broadcast address, unless a caller picked such an address
    explicitly (no caller in the tree passes picked_ip; see C14_picked_network_address below) *)
Theorem C14_hosts_only : forall c ops s0 a o,
  4 <= c_size c -> forallb (picks_host c) ops = true -> all_hosts c s0 ->
  In (a, o) (s_vips (run c ops s0)) ->
  a <> c_base c /\ a <> c_base c + c_size c - 1 /\ in_cidr c a = true.
Proof.
  intros c ops s0 a o H1 H2 H3 H4. exact (is_host_not_edge c a (run_hosts_only c ops s0 a o H1 H2 H3 H4)).
Qed.
Print Assumptions C14_hosts_only.

(** what alloc returns: an address that was free, now held by the caller, the first free host of the network *)
Theorem C14_alloc_returns : forall c o t,
  match vip_alloc c o None t with
  | (RAddr a, t') =>
      lookup Z.eqb a t = None /\ t' = t ++ [(a, o)] /\ in_cidr c a = true /\ (4 <= c_size c -> is_host c a = true) /\
      (forall y, hosts_first c <= y < a -> lookup Z.eqb y t <> None)
  | (_, t') => t' = t
  end.
Proof. exact alloc_returns. Qed.
Print Assumptions C14_alloc_returns.

(** only the owner releases: in every reachable state, an entry survives every operation except its owner's own
    release (direct, or its deleted / not replayed service request) and a collection while the owner does not exist *)
Theorem C14_owner_only_release : forall c ops s0, wf c s0 ->
  let s := run c ops s0 in forall p,
  (forall k o, In (k, o) (s_vips s) -> may_remove_vip s p k o = false -> In (k, o) (s_vips (fst (step c p s)))) /\
  (forall k o, In (k, o) (s_rules s) -> may_remove_rule s p k o = false -> In (k, o) (s_rules (fst (step c p s)))) /\
  (forall k o, In (k, o) (s_specs s) -> may_remove_spec s p k o = false -> In (k, o) (s_specs (fst (step c p s)))).
Proof.
  intros c ops s0 H s p. pose proof (run_wf c ops s0 H) as Hw.
  exact (conj (fun k o => step_keeps_vip c p s k o Hw)
        (conj (fun k o => step_keeps_rule c p s k o Hw) (fun k o => step_keeps_spec c p s k o Hw))).
Qed.
Print Assumptions C14_owner_only_release.

(** the same over whole histories: an entry is still there after any sequence in which nobody entitled removed it *)
Theorem C14_entry_survives : forall c ops s,  wf c s ->
  (forall k o, In (k, o) (s_vips s) -> undisturbed may_remove_vip c ops s k o = true -> In (k, o) (s_vips (run c ops s))) /\
  (forall k o, In (k, o) (s_rules s) -> undisturbed may_remove_rule c ops s k o = true -> In (k, o) (s_rules (run c ops s))) /\
  (forall k o, In (k, o) (s_specs s) -> undisturbed may_remove_spec c ops s k o = true -> In (k, o) (s_specs (run c ops s))).
Proof.
  intros c ops s H.
  exact (conj (fun k o => run_keeps_vip c ops s k o H)
        (conj (fun k o => run_keeps_rule c ops s k o H) (fun k o => run_keeps_spec c ops s k o H))).
Qed.
Print Assumptions C14_entry_survives.

(** a release by anybody but the holder (or of a key nobody holds) leaves the whole node state as it was *)
Theorem C14_nonowner_release_noop : forall c s,
  (forall x a, lookup Z.eqb a (s_vips s) <> Some x -> fst (step c (VipFree x a) s) = s) /\
  (forall k x, lookup Z.eqb k (s_rules s) <> Some x -> fst (step c (RuleUnlink k x) s) = s) /\
  (forall k x, lookup spec_eqb k (s_specs s) <> Some x -> fst (step c (SpecUnlink k (Some x)) s) = s) /\
  (forall a pr e x, (forall k o, In (k, o) (s_specs s) -> spec_matches a pr e k = true -> o <> x) ->
                    fst (step c (SpecUnlinkAll a pr e (Some x)) s) = s).
Proof.
  intros c s.
  exact (conj (fun x a => vip_free_noop c x a s) (conj (fun k x => rule_unlink_noop c k x s)
        (conj (fun k x => spec_unlink_noop c k x s) (fun a pr e x => spec_unlink_all_noop c a pr e x s)))).
Qed.
Print Assumptions C14_nonowner_release_noop.

(** garbage collection removes exactly the entries whose owner does not exist and touches nothing else *)
Theorem C14_gc_exact : forall c s,
  (let s' := fst (step c VipGc s) in
   (forall k o, In (k, o) (s_vips s') <-> In (k, o) (s_vips s) /\ In o (s_res s)) /\
   s_rules s' = s_rules s /\ s_specs s' = s_specs s /\ s_res s' = s_res s /\ s_apps s' = s_apps s /\
   s_devs s' = s_devs s /\ s_veth s' = s_veth s) /\
  (let s' := fst (step c RuleGc s) in
   (forall k o, In (k, o) (s_rules s') <-> In (k, o) (s_rules s) /\ In o (s_apps s)) /\
   s_vips s' = s_vips s /\ s_specs s' = s_specs s /\ s_res s' = s_res s /\ s_apps s' = s_apps s /\
   s_devs s' = s_devs s /\ s_veth s' = s_veth s) /\
  (let s' := fst (step c SpecGc s) in
   (forall k o, In (k, o) (s_specs s') <-> In (k, o) (s_specs s) /\ In o (s_apps s)) /\
   s_vips s' = s_vips s /\ s_rules s' = s_rules s /\ s_res s' = s_res s /\ s_apps s' = s_apps s /\
   s_devs s' = s_devs s /\ s_veth s' = s_veth s).
Proof. intros c s. exact (conj (vip_gc_exact c s) (conj (rule_gc_exact c s) (spec_gc_exact c s))). Qed.
Print Assumptions C14_gc_exact.

(** owners appear at arbitrary points, also in the middle of a collection: a history with collections during which
    an owner appears and registers an entry ([XVipGcWith], [XRuleGcWith], [XSpecGcWith]) is the history in which
    "appears; registers; collect" take place in that order - so every theorem of this file, all of which quantify
    over all operation lists, covers such histories; the two headline invariants restated: *)
Theorem C14_concurrent_histories : forall c xs s0,
  xrun c xs s0 = run c (flat_map lin xs) s0 /\
  (wf c s0 ->
   (forall k o1 o2, In (k, o1) (s_vips (xrun c xs s0)) -> In (k, o2) (s_vips (xrun c xs s0)) -> o1 = o2) /\
   (forall k o1 o2, In (k, o1) (s_rules (xrun c xs s0)) -> In (k, o2) (s_rules (xrun c xs s0)) -> o1 = o2) /\
   (forall k o1 o2, In (k, o1) (s_specs (xrun c xs s0)) -> In (k, o2) (s_specs (xrun c xs s0)) -> o1 = o2) /\
   (forall a o, In (a, o) (s_vips (xrun c xs s0)) -> in_cidr c a = true)).
Proof.
  intros c xs s0. split; [exact (xrun_lin c xs s0)|]. intros H. rewrite (xrun_lin c xs s0).
  destruct (run_exclusive c (flat_map lin xs) s0 H) as (E1 & E2 & E3).
  exact (conj E1 (conj E2 (conj E3 (fun a o => run_in_network c (flat_map lin xs) s0 a o H)))).
Qed.
Print Assumptions C14_concurrent_histories.

(** an entry whose owner exists at the moment the collector visits it is never reclaimed: in a collection during
    which owner [o] appears and registers, exactly the entries whose owner is neither live before nor [o] go;
    everything held by a live owner or by the newcomer stays, the newcomer's new entry included *)
Theorem C14_gc_live_at_visit : forall c s,
  (forall k o, let s' := fst (xstep c (XRuleGcWith k o) s) in
     (forall k' o', In (k', o') (s_rules s') <->
                    In (k', o') (s_rules (run c [AppUp o; RuleCreate k o] s)) /\ In o' (add_z o (s_apps s))) /\
     (forall k' o', In (k', o') (s_rules s) -> In o' (add_z o (s_apps s)) -> In (k', o') (s_rules s')) /\
     (lookup Z.eqb k (s_rules s) = None -> In (k, o) (s_rules s')) /\
     s_vips s' = s_vips s /\ s_specs s' = s_specs s /\ s_res s' = s_res s /\ s_devs s' = s_devs s) /\
  (forall k o, let s' := fst (xstep c (XSpecGcWith k o) s) in
     (forall k' o', In (k', o') (s_specs s') <->
                    In (k', o') (s_specs (run c [AppUp o; SpecCreate k o] s)) /\ In o' (add_z o (s_apps s))) /\
     (forall k' o', In (k', o') (s_specs s) -> In o' (add_z o (s_apps s)) -> In (k', o') (s_specs s')) /\
     (lookup spec_eqb k (s_specs s) = None -> In (k, o) (s_specs s')) /\
     s_vips s' = s_vips s /\ s_rules s' = s_rules s /\ s_res s' = s_res s /\ s_devs s' = s_devs s) /\
  (forall o picked, let s' := fst (xstep c (XVipGcWith o picked) s) in
     (forall k' o', In (k', o') (s_vips s') <->
                    In (k', o') (s_vips (run c [ResUp o; VipAlloc o picked] s)) /\ In o' (add_z o (s_res s))) /\
     (forall k' o', In (k', o') (s_vips s) -> In o' (add_z o (s_res s)) -> In (k', o') (s_vips s')) /\
     (forall a, snd (step c (VipAlloc o picked) (fst (step c (ResUp o) s))) = RAddr a -> In (a, o) (s_vips s')) /\
     s_rules s' = s_rules s /\ s_specs s' = s_specs s /\ s_apps s' = s_apps s /\ s_devs s' = s_devs s).
Proof.
  intros c s.
  exact (conj (fun k o => proj2 (rule_gc_with_exact c k o s))
        (conj (fun k o => proj2 (spec_gc_with_exact c k o s)) (fun o p => proj2 (vip_gc_with_exact c o p s)))).
Qed.
Print Assumptions C14_gc_live_at_visit.

(** synchronize: every stale device is deleted and its address freed, no stale device remains, nothing is
    added, and (when it completes) the surviving addresses belong to existing owners *)
Theorem C14_sync_frees_stale : forall c ops s0, wf c s0 ->
  let s := run c ops s0 in
  let s' := fst (step c SvcSync s) in
  (forall o, dev_stale (s_devs s) o = true -> dget o (s_devs s') = None) /\
  (forall o d, dget o (s_devs s') = Some d -> d_stale d = false /\ dget o (s_devs s) = Some d) /\
  (forall o k, dev_stale (s_devs s) o = true -> dev_holds (s_devs s) o k = true -> ~ In (k, o) (s_vips s')) /\
  (forall k o, In (k, o) (s_vips s') -> In (k, o) (s_vips s)) /\
  (snd (step c SvcSync s) = ROk -> forall k o, In (k, o) (s_vips s') -> In o (s_res s)) /\
  s_rules s' = s_rules s /\ s_specs s' = s_specs s /\ s_res s' = s_res s /\ s_apps s' = s_apps s.
Proof. intros c ops s0 H. exact (svc_sync_exact c (run c ops s0) (run_wf c ops s0 H)). Qed.
Print Assumptions C14_sync_frees_stale.

(** a repeated create request returns the same address and allocates nothing *)
Theorem C14_reuse : forall c ops mid s0 o env env' a,
  let s1 := fst (step c (SvcCreate o env) (run c ops s0)) in
  snd (step c (SvcCreate o env) (run c ops s0)) = RAddr a ->
  forallb (keeps_dev o) mid = true ->
  let s2 := run c mid s1 in
  snd (step c (SvcCreate o env') s2) = RAddr a /\ s_vips (fst (step c (SvcCreate o env') s2)) = s_vips s2.
Proof. exact run_reuse. Qed.
Print Assumptions C14_reuse.

(** on the schedules the resource-service framework produces, what the service believes is what the directory says:
    a device's address is held by that device's owner, hence no two devices share an address *)
Theorem C14_service_consistent : forall c ops, guarded c ops empty_state = true ->
  let s := run c ops empty_state in
  (forall o a, dev_holds (s_devs s) o a = true -> lookup Z.eqb a (s_vips s) = Some o) /\
  (forall o1 o2 a, dev_holds (s_devs s) o1 a = true -> dev_holds (s_devs s) o2 a = true -> o1 = o2).
Proof.
  intros c ops H s.
  pose proof (run_consistent c ops empty_state (wf_empty c) H consistent_empty) as Hc.
  exact (conj Hc (fun o1 o2 a => consistent_exclusive s o1 o2 a Hc)).
Qed.
Print Assumptions C14_service_consistent.

(** * Non-vacuity: a history with three owners, a non-owner's release, a dead owner and a collection *)
Definition ex_c := {| c_base := 167772160; c_size := 8 |}.              (* 10.0.0.0/29 *)
Definition ex_spec := {| sp_app := 9; sp_proto := 0; sp_ep := 0; sp_rport := 5000; sp_pid := 77; sp_port := 8000 |}.
Definition ex_ops :=
  [ ResUp 1; ResUp 2; AppUp 1; AppUp 2;
    VipAlloc 1 None; VipAlloc 2 None; VipAlloc 3 None;       (* owner 3 never existed *)
    VipFree 2 167772161;                                     (* non-owner release of owner 1's address *)
    RuleCreate 1 1; RuleCreate 1 2; RuleUnlink 1 2; SpecCreate ex_spec 1; SpecUnlinkAll 9 None None (Some 2);
    VipGc; ResDown 2; VipGc; AppDown 1; RuleGc; SpecGc ].

Example C14_nonvacuous :
  wf ex_c empty_state /\
  forallb (picks_host ex_c) ex_ops = true /\
  s_vips (run ex_c (firstn 13 ex_ops) empty_state) = [(167772161, 1); (167772162, 2); (167772163, 3)] /\
  s_rules (run ex_c (firstn 13 ex_ops) empty_state) = [(1, 1)] /\
  s_specs (run ex_c (firstn 13 ex_ops) empty_state) = [(ex_spec, 1)] /\
  s_vips (run ex_c (firstn 14 ex_ops) empty_state) = [(167772161, 1); (167772162, 2)] /\
  s_vips (run ex_c ex_ops empty_state) = [(167772161, 1)] /\
  s_rules (run ex_c ex_ops empty_state) = [] /\ s_specs (run ex_c ex_ops empty_state) = [] /\
  undisturbed may_remove_vip ex_c (skipn 5 ex_ops) (run ex_c (firstn 5 ex_ops) empty_state) 167772161 1 = true /\
  undisturbed may_remove_vip ex_c (skipn 6 ex_ops) (run ex_c (firstn 6 ex_ops) empty_state) 167772162 2 = false.
Proof. split; [exact (wf_empty ex_c)|]. vm_compute. repeat split. Qed.

(** a collection during which owner 2 (gone before) re-appears and registers rule 3: its old rule 2, its new rule 3
    and live owner 1's rule survive, dead owner 4's rule goes *)
Example C14_concurrent_nonvacuous :
  let s := run ex_c [AppUp 1; AppUp 2; AppUp 4; RuleCreate 1 1; RuleCreate 2 2; RuleCreate 4 4; AppDown 2; AppDown 4] empty_state in
  s_rules s = [(1, 1); (2, 2); (4, 4)] /\ s_apps s = [1] /\
  s_rules (fst (xstep ex_c (XRuleGcWith 3 2) s)) = [(1, 1); (2, 2); (3, 2)] /\
  s_rules (fst (step ex_c RuleGc s)) = [(1, 1)].
Proof. vm_compute. repeat split. Qed.

(** service schedule: create, repeat, restart + replay + synchronize frees the device that was not replayed *)
Definition ex_svc :=
  [ ResUp 1; SvcCreate 1 1; ResUp 2; SvcCreate 2 3; SvcCreate 1 1; ResDown 2;
    SvcRestart; SvcCreate 1 1; SvcSync; ResUp 3; SvcCreate 3 2 ].
Example C14_service_nonvacuous :
  guarded ex_c ex_svc empty_state = true /\
  snd (step ex_c (SvcCreate 1 1) (run ex_c (firstn 4 ex_svc) empty_state)) = RAddr 167772161 /\
  s_vips (run ex_c (firstn 8 ex_svc) empty_state) = [(167772161, 1); (167772162, 2)] /\
  dev_stale (s_devs (run ex_c (firstn 8 ex_svc) empty_state)) 2 = true /\
  s_vips (run ex_c (firstn 9 ex_svc) empty_state) = [(167772161, 1)] /\
  s_vips (run ex_c ex_svc empty_state) = [(167772161, 1); (167772162, 3)].
Proof. vm_compute. repeat split. Qed.

(** * Observations on the unchanged code (not violations of the statement) *)
(** alloc(owner, picked_ip=network address) succeeds: "in the network" holds, "host address" only for scanned ones *)
Example C14_picked_network_address :
  step ex_c (VipAlloc 1 (Some 167772160)) empty_state = (set_vips empty_state [(167772160, 1)], RAddr 167772160).
Proof. vm_compute. reflexivity. Qed.

(** EndpointsMgr.create_spec compares the existing owner with [appname] instead of [owner]: a repeated request of
    the same owner raises (RuleMgr.create_rule is idempotent), and a request whose appname equals the basename of
    the *other* holder returns normally although the spec stays with that holder.  The entry never changes hands. *)
Example C14_spec_repeat_raises :
  let s1 := fst (step ex_c (SpecCreate ex_spec 1) empty_state) in
  step ex_c (SpecCreate ex_spec 1) s1 = (s1, RExists) /\
  step ex_c (RuleCreate 1 1) (fst (step ex_c (RuleCreate 1 1) empty_state)) = (fst (step ex_c (RuleCreate 1 1) empty_state), ROk) /\
  let s2 := fst (step ex_c (SpecCreate ex_spec 9) empty_state) in
  step ex_c (SpecCreate ex_spec 2) s2 = (s2, ROk) /\ s_specs s2 = [(ex_spec, 9)].
Proof. vm_compute. repeat split. Qed.

(** the functions named by this property's anchors still have the statement skeleton the model was written from
    (re-extracted from the Python AST on every run, harness/tables_shape.py + harness/shape_pins.json; kept last so that
    a difference does not stop the theorems above from being checked) *)
Theorem C14_source_shape : shapes_ok_C14 = true.
Proof. vm_compute. reflexivity. Qed.
Print Assumptions C14_source_shape.
