(** C16  What a container start registers on the host is removed when it finishes.

    [c16_start] / [c16_finish] (TM.Gen.Tables) are the registration programs of
    runtime/linux/_run.py:_unshare_network and runtime/linux/_finish.py:_cleanup_network,
    regenerated from the Python AST on every run; Node/NetReg.v gives them their meaning.
    Every theorem about them rests on the computational premise [C16_templates_match]. *)
From Coq Require Import ZArith List Bool.
From TM Require Import Node.Owners Node.NetReg Node.NetRegP Gen.Tables.
From TM Require Import Base.ShapeCanon.
Import ListNotations.
Open Scope Z_scope.

(** every rule / ip-set entry start creates has a statement in finish that removes exactly it (same loop,
    same guard, same chain, same field sources, same owner); start only creates as unique_name, finish only
    removes owner-checked as unique_name; ip-set entries are keyed by the container's vip; the endpoint specs
    created under app.name are removed by unlink_all(app.name, owner=unique_name) *)
Theorem C16_templates_match : templates_match c16_start c16_finish = true.
Proof. vm_compute. reflexivity. Qed.
Print Assumptions C16_templates_match.

(** the rule directory, the endpoint directory, the ip-sets and the network service's table are, after
    start + finish on a fresh host, exactly what they were (same entries, same order) *)
Theorem C16_symmetric : forall dns m h,
  hwf h -> fresh c16_start dns m h ->
  snd (start_container c16_start dns m h) = true /\
  finish c16_finish dns m (fst (start_container c16_start dns m h)) = (h, true).
Proof. intros dns m h. exact (start_finish_identity c16_start c16_finish dns m h C16_templates_match). Qed.
Print Assumptions C16_symmetric.

(** finishing is safe to repeat: a second finish changes nothing and does not fail; the cleanup body itself
    (when the final network_client.delete did not happen) is idempotent too *)
Theorem C16_idempotent : forall dns m h, hwf h ->
  snd (finish c16_finish dns m h) = true /\
  finish c16_finish dns m (fst (finish c16_finish dns m h)) = (fst (finish c16_finish dns m h), true) /\
  forall n, cleanup c16_finish dns m n (fst (cleanup c16_finish dns m n h)) = cleanup c16_finish dns m n h.
Proof.
  intros dns m h Hw.
  assert (Hf : forallb finish_stmt_ok (stmts_of c16_finish) = true) by (vm_compute; reflexivity).
  destruct (finish_idempotent c16_finish dns m h Hf Hw) as [H1 H2].
  exact (conj H1 (conj H2 (fun n => cleanup_idempotent c16_finish dns m n h Hf Hw))).
Qed.
Print Assumptions C16_idempotent.

(** finishing one container removes no entry owned by anybody else, no ip-set entry of another vip, and no other
    container's network record - on ANY host, whatever the manifest *)
Theorem C16_others_untouched : forall dns m h, hwf h ->
  let h' := fst (finish c16_finish dns m h) in
  others_rules (m_uniq m) h' = others_rules (m_uniq m) h /\
  others_specs (m_uniq m) h' = others_specs (m_uniq m) h /\
  (forall vip, (forall n, net_get (m_uniq m) (h_net h) = Some n -> n_vip n = vip) ->
               others_ipset vip h' = others_ipset vip h) /\
  net_del (m_uniq m) (h_net h') = net_del (m_uniq m) (h_net h) /\
  (forall u, u <> m_uniq m -> net_get u (h_net h') = net_get u (h_net h)).
Proof.
  intros dns m h Hw.
  assert (Hf : forallb finish_stmt_ok (stmts_of c16_finish) = true) by (vm_compute; reflexivity).
  exact (finish_others c16_finish dns m h Hf Hw).
Qed.
Print Assumptions C16_others_untouched.

(** ... and neither does a start, even one that fails half-way on a host that is not fresh *)
Theorem C16_start_others_untouched : forall dns m h,
  let h' := fst (start c16_start dns m h) in
  others_rules (m_uniq m) h' = others_rules (m_uniq m) h /\
  others_specs (m_uniq m) h' = others_specs (m_uniq m) h /\
  others_ipset (n_vip (m_net m)) h' = others_ipset (n_vip (m_net m)) h /\ h_net h' = h_net h.
Proof.
  intros dns m h.
  assert (Hs : forallb start_stmt_ok (stmts_of c16_start) = true) by (vm_compute; reflexivity).
  exact (start_others c16_start dns m h Hs).
Qed.
Print Assumptions C16_start_others_untouched.

(** any interleaving of network allocations, starts and finishes of OTHER containers (other unique name, other vip)
    leaves a container's rules, specs, ip-set entries and network record exactly as they are *)
Theorem C16_interleaving : forall dns ms u0 vip0 ops h,
  hwf h -> net_inv u0 vip0 h -> Forall (foreign ms u0 vip0) ops ->
  let h' := crun c16_start c16_finish dns ms ops h in
  mine_rules u0 h' = mine_rules u0 h /\ mine_specs u0 h' = mine_specs u0 h /\
  mine_ipset vip0 h' = mine_ipset vip0 h /\ net_get u0 (h_net h') = net_get u0 (h_net h).
Proof. intros dns ms u0 vip0 ops h. exact (interleaving c16_start c16_finish dns ms u0 vip0 C16_templates_match ops h). Qed.
Print Assumptions C16_interleaving.

(** the two port pools of runtime._allocate_sockets (prod / non-prod) are non-empty and disjoint *)
Theorem C16_port_ranges_disjoint :
  ranges_disjoint (fst c16_prod_ports) (snd c16_prod_ports) (fst c16_nonprod_ports) (snd c16_nonprod_ports) = true.
Proof. vm_compute. reflexivity. Qed.
Print Assumptions C16_port_ranges_disjoint.

(** * Non-vacuity *)
Definition ex_dns := [(0, 2886729729); (1, 2886729730); (2, 2886729729)].
Definition ex_m1 : manifest :=
  {| m_uniq := 1; m_app := 101; m_pid := 4242; m_net := {| n_vip := 3232235778; n_ext := 169090600 |};
     m_eps := [ {| e_name := 0; e_proto := 0; e_port := 8000; e_rport := 5000; e_infra := true |};
                {| e_name := 1; e_proto := 1; e_port := 8001; e_rport := 5001; e_infra := false |} ];
     m_eph_tcp := [6000; 6001]; m_eph_udp := [6002]; m_pt := [0; 1; 2]; m_vring := true |}.
Definition ex_m2 : manifest :=
  {| m_uniq := 2; m_app := 102; m_pid := 4242; m_net := {| n_vip := 3232235779; n_ext := 169090600 |};
     m_eps := [ {| e_name := 0; e_proto := 0; e_port := 8000; e_rport := 5002; e_infra := true |} ];
     m_eph_tcp := [6003]; m_eph_udp := []; m_pt := [0]; m_vring := true |}.
(** a host that already carries container 2 *)
Definition ex_host := fst (start_container c16_start ex_dns ex_m2 empty_host).

Example C16_nonvacuous :
  hwf ex_host /\ fresh c16_start ex_dns ex_m1 ex_host /\
  length (h_rules ex_host) = 4%nat /\ length (h_specs ex_host) = 1%nat /\ length (h_ipset ex_host) = 3%nat /\
  let h1 := fst (start_container c16_start ex_dns ex_m1 ex_host) in
  length (h_rules h1) = 13%nat /\ length (h_specs h1) = 3%nat /\ length (h_ipset h1) = 8%nat /\
  finish c16_finish ex_dns ex_m1 h1 = (ex_host, true) /\
  fst (finish c16_finish ex_dns ex_m2 (fst (finish c16_finish ex_dns ex_m1 h1))) = empty_host.
Proof.
  split; [unfold ex_host, start_container, start; apply run_prims_hwf; exact hwf_empty|]. split; [apply freshb_fresh; vm_compute; reflexivity|].
  vm_compute. repeat split.
Qed.

(** * Observations on the unchanged code (assumptions of the statement made visible) *)
(** DNS of a passthrough host changes between start and finish (the source's FIXME): the old rule stays behind *)
Example C16_dns_change_leaks :
  let h1 := fst (start_container c16_start [(0, 2886729729)] ex_m2 empty_host) in
  length (h_rules (fst (finish c16_finish [(0, 2886729999)] ex_m2 h1))) = 1%nat.
Proof. vm_compute. reflexivity. Qed.

(** a second _unshare_network of the same container raises on its first endpoint spec (EndpointsMgr.create_spec
    compares the existing owner with appname, see C14) after re-creating that endpoint's two rules idempotently *)
Example C16_repeated_start_raises :
  let h1 := fst (start_container c16_start ex_dns ex_m2 empty_host) in
  start c16_start ex_dns ex_m2 h1 = (h1, false).
Proof. vm_compute. reflexivity. Qed.

(** the functions named by this property's anchors still have the statement skeleton the model was written from
    (re-extracted from the Python AST on every run, harness/tables_shape.py + harness/shape_pins.json; kept last so that
    a difference does not stop the theorems above from being checked) *)
Theorem C16_source_shape : shapes_ok_C16 = true.
Proof. vm_compute. reflexivity. Qed.
Print Assumptions C16_source_shape.
