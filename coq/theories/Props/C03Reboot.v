(** C03 / C02, "lease lifetime": an instance with a lease is only put on a server whose [valid_until] (its next
    reboot) lies after now + lease.  Sched/*.v takes [valid_until] as a given attribute of a server; this file is
    about the code that COMPUTES it: scheduler.Partition (reboot buckets), RebootBucket, reboot_dates.

    Model: Sched/Reboot.v.  Time stamps are integers (seconds), servers are ids, float('inf') is [None].
    [reboot_dates] is a function [ds : nat -> Z] (n-th date yielded); [sched_ds W wd0 tz d0] is that function
    for a weekly schedule W, over day numbers, the weekday of day 0 and the zone's standard offset being
    parameters (daylight saving is not modelled).  [tick] has explicit fuel: [TFuel] = ran out, [TIndex] =
    IndexError; [add] returns [None] for IndexError.  DEFAULT_SERVER_UPTIME, MIN_SERVER_UPTIME and the default
    schedule are [TM.Sched.RebootRun.reboot_tables], assembled from definitions that harness/tables_reboot.py
    regenerates from the source on every run (which also pins the statement shape of Partition.__init__ /
    _find_bucket / add / remove / tick, RebootBucket.* and reboot_dates); theorems that need their values carry
    the premise [reboot_tables_ok C = true], discharged by [C03R_tables_ok].

    [reach C ds now p]: p is a state of a Partition object - built by the constructor, then any sequence of
    tick / add / remove that returned - and [now] is the argument of the last tick. *)
From Coq Require Import ZArith List Bool Sorted.
From TM Require Import Sched.Reboot Sched.RebootP Sched.RebootRun Gen.Tables.
Import ListNotations.
Open Scope Z_scope.

(** the source's constants are the ones the statement needs: 21 days, 1 day, default schedule daily 23:59:59 *)
Theorem C03R_tables_ok : reboot_tables_ok reboot_tables = true.
Proof. vm_compute. reflexivity. Qed.
Print Assumptions C03R_tables_ok.

(** (a) the valid_until a server gets is the time stamp of one of the buckets; the server sits in that bucket
    afterwards; time stamps, the other buckets and the generator state are untouched.  All bucket lists. *)
Theorem C03R_valid_until_is_bucket : forall C s up ts p v p', add C s up ts p = Some (v, p') ->
  exists i b, nth_error (p_buckets p) i = Some b /\ b_ts b = v /\
    nth_error (p_buckets p') i = Some (bucket_add s b) /\ In s (b_srv (bucket_add s b)) /\
    (forall j, j <> i -> nth_error (p_buckets p') j = nth_error (p_buckets p) j) /\
    map b_ts (p_buckets p') = map b_ts (p_buckets p) /\ p_last p' = p_last p /\ p_idx p' = p_idx p.
Proof. exact add_valid_until_is_bucket. Qed.
Print Assumptions C03R_valid_until_is_bucket.

(** add never raises on a non-empty bucket list *)
Theorem C03R_add_total : forall C s up ts p, p_buckets p <> [] -> exists v p', add C s up ts p = Some (v, p').
Proof. exact add_total. Qed.
Print Assumptions C03R_add_total.

(** (b) the first bucket is not beyond up_since + DEFAULT_SERVER_UPTIME, no explicit time stamp names a bucket and
    SOME bucket lies in [up_since + MIN_SERVER_UPTIME, up_since + DEFAULT_SERVER_UPTIME]: so does the chosen one *)
Theorem C03R_window : forall C s up ts p v p' ba,
  overdue C up (p_buckets p) = false -> explicit_idx ts (p_buckets p) = None ->
  In ba (p_buckets p) -> admissible C up ba ->
  add C s up ts p = Some (v, p') ->
  up + rc_min C <= v <= up + rc_uptime C.
Proof. exact add_in_window. Qed.
Print Assumptions C03R_window.

(** (c) overdue: the first bucket is later than up_since + DEFAULT_SERVER_UPTIME => the FIRST bucket, whatever
    time stamp was asked for and whatever the loads *)
Theorem C03R_overdue_first : forall C s up ts p b0 r, p_buckets p = b0 :: r -> b_ts b0 > up + rc_uptime C ->
  add C s up ts p = Some (b_ts b0, set_buckets p (bucket_add s b0 :: r)).
Proof. exact add_overdue_first. Qed.
Print Assumptions C03R_overdue_first.

(** (d) an explicit (truthy) time stamp that names an existing bucket is honoured unless (c) applies; its cost is
    not looked at (see [C03R_explicit_early_refuted]) *)
Theorem C03R_explicit_honoured : forall C s up t p, t <> 0 -> In t (map b_ts (p_buckets p)) ->
  overdue C up (p_buckets p) = false -> exists p', add C s up (Some t) p = Some (t, p').
Proof. exact add_explicit_honoured. Qed.
Print Assumptions C03R_explicit_honoured.

(** (e) otherwise the result is min(reversed(buckets), key=cost): no bucket is cheaper and every LATER bucket is
    strictly dearer ([clt]: Python's < on ints and inf) *)
Theorem C03R_cheapest_latest : forall C s up ts p v p',
  overdue C up (p_buckets p) = false -> explicit_idx ts (p_buckets p) = None ->
  add C s up ts p = Some (v, p') ->
  exists i b, nth_error (p_buckets p) i = Some b /\ b_ts b = v /\
    (forall j bj, nth_error (p_buckets p) j = Some bj -> clt (cost C up bj) (cost C up b) = false) /\
    (forall j bj, nth_error (p_buckets p) j = Some bj -> (i < j)%nat -> clt (cost C up b) (cost C up bj) = true).
Proof. exact add_cheapest_latest. Qed.
Print Assumptions C03R_cheapest_latest.

(** (e) in loads: against any admissible bucket j the chosen one is admissible, not more loaded, and strictly less
    loaded when j is later - the least loaded admissible bucket wins, ties go to the LATEST *)
Theorem C03R_least_loaded : forall C s up ts p v p' j bj,
  overdue C up (p_buckets p) = false -> explicit_idx ts (p_buckets p) = None ->
  add C s up ts p = Some (v, p') ->
  nth_error (p_buckets p) j = Some bj -> admissible C up bj ->
  exists i b, nth_error (p_buckets p) i = Some b /\ b_ts b = v /\ admissible C up b /\
    load b <= load bj /\ ((i < j)%nat -> load b < load bj).
Proof. exact add_least_loaded. Qed.
Print Assumptions C03R_least_loaded.

(** (g) NO bucket admissible (every cost +inf), not overdue, no explicit time stamp: min over equal keys returns
    the first item of reversed(buckets) - the server gets the LAST bucket *)
Theorem C03R_none_admissible_last : forall C s up ts p v p' pre bl,
  overdue C up (p_buckets p) = false -> explicit_idx ts (p_buckets p) = None ->
  (forall b, In b (p_buckets p) -> ~ admissible C up b) ->
  p_buckets p = pre ++ [bl] ->
  add C s up ts p = Some (v, p') -> v = b_ts bl.
Proof. exact add_none_admissible_last. Qed.
Print Assumptions C03R_none_admissible_last.

(** (f) tick(now) on a state that satisfies the invariant (constructor state or non-empty), for a strictly
    increasing date stream: the result again satisfies the invariant, is strictly sorted, contains no bucket older
    than now, ends with a bucket beyond now + DEFAULT_SERVER_UPTIME (so it is non-empty), keeps every old bucket
    that is not older than now (with its servers) and adds only empty buckets *)
Theorem C03R_tick : forall C ds now fuel p p', StrictInc ds -> 0 <= rc_uptime C -> Inv ds p ->
  (p_buckets p <> [] \/ p_last p <= now + rc_uptime C) ->
  tick C ds fuel now p = TOk p' ->
  Inv ds p' /\ Current C now p' /\ StronglySorted Z.lt (tss p') /\
  now + rc_uptime C < p_last p' /\
  (forall b, In b (p_buckets p) -> now <= b_ts b -> In b (p_buckets p')) /\
  (forall b, In b (p_buckets p') -> In b (p_buckets p) \/ b_srv b = []) /\
  (forall b, In b (p_buckets p') -> now <= b_ts b).
Proof. exact tick_spec. Qed.
Print Assumptions C03R_tick.

(** ... it never raises IndexError, and [fuel_bound] fuel is enough (the first loop terminates) *)
Theorem C03R_tick_no_index_error : forall C ds now fuel p, 0 <= rc_uptime C -> Inv ds p ->
  (p_buckets p <> [] \/ p_last p <= now + rc_uptime C) -> tick C ds fuel now p <> TIndex.
Proof. exact tick_no_index_error. Qed.
Print Assumptions C03R_tick_no_index_error.

Theorem C03R_tick_terminates : forall C ds now fuel p, StrictInc ds -> (fuel_bound C ds now p <= fuel)%nat ->
  tick C ds fuel now p <> TFuel.
Proof. exact tick_enough_fuel. Qed.
Print Assumptions C03R_tick_terminates.

(** every state of a Partition object: consecutive dates of the stream, current for the last tick's now (nothing
    older, last bucket beyond now + DEFAULT_SERVER_UPTIME), server sets without repetition *)
Theorem C03R_reach_inv : forall C ds, StrictInc ds -> 0 <= rc_uptime C -> forall now p, reach C ds now p ->
  Inv ds p /\ Current C now p /\ SetLike p.
Proof. exact reach_inv. Qed.
Print Assumptions C03R_reach_inv.

(** the dates of a weekly schedule with some weekday 0..6 and times of day: strictly increasing, at most
    8 days - 1 s apart, the first one on the start day or within six days after it *)
Theorem C03R_sched_dates : forall W wd0 tz d0, sched_live W = true -> sched_tod_ok W = true ->
  StrictInc (sched_ds W wd0 tz d0) /\ GapBound (sched_ds W wd0 tz d0) 691199 /\
  d0 * 86400 - tz <= sched_ds W wd0 tz d0 0 < (d0 + 7) * 86400 - tz.
Proof.
  intros W wd0 tz d0 Hl Ht.
  exact (conj (sched_ds_inc W wd0 tz Hl Ht d0) (conj (sched_ds_gap W wd0 tz Hl Ht d0) (sched_ds_first W wd0 tz Hl Ht d0))).
Qed.
Print Assumptions C03R_sched_dates.

(** a schedule without any weekday 0..6 (e.g. {"7": ...}): no date is ever produced - the real constructor walks
    to date.max (about 3 s) and raises OverflowError *)
Theorem C03R_dead_schedule_no_date : forall W wd0 d, sched_live W = false -> next_day W wd0 7 d = None.
Proof. exact dead_schedule_no_date. Qed.
Print Assumptions C03R_dead_schedule_no_date.

(** a Partition of a weekly schedule (or the default one): sorted, current, add and tick never fail *)
Theorem C03R_sched_partition : forall C W wd0 tz d0 now p,
  reboot_tables_ok C = true -> sched_given_ok W = true ->
  reach C (sched_ds (eff_sched C W) wd0 tz d0) now p ->
  StronglySorted Z.lt (tss p) /\ Current C now p /\ SetLike p /\
  (forall s up ts, exists v p', add C s up ts p = Some (v, p')) /\
  (forall fuel now', tick C (sched_ds (eff_sched C W) wd0 tz d0) fuel now' p <> TIndex) /\
  (forall fuel now', (fuel_bound C (sched_ds (eff_sched C W) wd0 tz d0) now' p <= fuel)%nat ->
     exists p', tick C (sched_ds (eff_sched C W) wd0 tz d0) fuel now' p = TOk p').
Proof. exact sched_reach_inv. Qed.
Print Assumptions C03R_sched_partition.

(** THE STATEMENT, lower half: in every state of a Partition object, a server booted no later than
    now + DEFAULT_SERVER_UPTIME - MIN_SERVER_UPTIME (now = the last tick) that is added without an explicit
    time stamp naming a bucket is never scheduled for a reboot earlier than MIN_SERVER_UPTIME after its boot -
    overdue or not, admissible bucket or not *)
Theorem C03R_no_early_reboot : forall C ds now p s up ts v p',
  reboot_tables_ok C = true -> StrictInc ds -> reach C ds now p ->
  up + rc_min C <= now + rc_uptime C ->
  explicit_idx ts (p_buckets p) = None ->
  add C s up ts p = Some (v, p') ->
  up + rc_min C <= v.
Proof. exact reach_no_early_reboot. Qed.
Print Assumptions C03R_no_early_reboot.

(** THE STATEMENT, both halves, for a weekly schedule: such a server, unless overdue, ALWAYS has an admissible
    bucket and gets a reboot time between 1 and 21 days after its boot *)
Theorem C03R_sched_window : forall C W wd0 tz d0 now p s up ts v p',
  reboot_tables_ok C = true -> sched_given_ok W = true ->
  reach C (sched_ds (eff_sched C W) wd0 tz d0) now p ->
  overdue C up (p_buckets p) = false ->
  up + rc_min C <= now + rc_uptime C ->
  explicit_idx ts (p_buckets p) = None ->
  add C s up ts p = Some (v, p') ->
  up + rc_min C <= v <= up + rc_uptime C.
Proof. exact sched_window. Qed.
Print Assumptions C03R_sched_window.

(** * Witnesses: what does NOT hold *)
(** (g) a server whose up_since lies more than 20 days in the future (a wrong clock on the node) has no admissible
    bucket, gets the LAST bucket, and that is BEFORE its boot time + MIN_SERVER_UPTIME (here before its boot) *)
Theorem C03R_future_boot_refuted : exists p v p',
  init_sched reboot_tables [(0, (1, 2, 3))] 3 0 100 1700000123 = TOk p /\
  add reboot_tables 1 (1700000123 + 30 * 86400) None p = Some (v, p') /\
  overdue reboot_tables (1700000123 + 30 * 86400) (p_buckets p) = false /\
  v < 1700000123 + 30 * 86400.
Proof.
  eexists. eexists. eexists. split; [vm_compute; reflexivity|]. split; [vm_compute; reflexivity|].
  split; vm_compute; reflexivity.
Qed.
Print Assumptions C03R_future_boot_refuted.

(** (d) an explicit time stamp is honoured even when it is earlier than up_since + MIN_SERVER_UPTIME: a server
    booted one hour ago, whose presence record still names tonight's bucket, is rebooted tonight *)
Theorem C03R_explicit_early_refuted : exists p v p',
  init_sched reboot_tables [] 3 0 100 1700000123 = TOk p /\
  add reboot_tables 1 (1700000123 - 3600) (Some 1700006399) p = Some (v, p') /\
  v = 1700006399 /\ v < (1700000123 - 3600) + rc_min reboot_tables.
Proof.
  eexists. eexists. eexists. split; [vm_compute; reflexivity|]. split; [vm_compute; reflexivity|].
  split; vm_compute; reflexivity.
Qed.
Print Assumptions C03R_explicit_early_refuted.

(** add does not take the server out of the bucket it sits in: added twice (without remove) with a different
    outcome, it is counted in the load of two buckets *)
Theorem C03R_double_membership_refuted : exists p v1 p1 v2 p2 b1 b2,
  init_sched reboot_tables [] 3 0 100 1700000123 = TOk p /\
  add reboot_tables 1 (1700000123 - 86400) None p = Some (v1, p1) /\
  add reboot_tables 1 (1700000123 - 86400) (Some 1700006399) p1 = Some (v2, p2) /\
  v1 <> v2 /\ In b1 (p_buckets p2) /\ In b2 (p_buckets p2) /\ b_ts b1 <> b_ts b2 /\
  In 1 (b_srv b1) /\ In 1 (b_srv b2).
Proof.
  eexists. eexists. eexists. eexists. eexists.
  exists {| b_ts := 1700006399; b_srv := [1] |}, {| b_ts := 1701647999; b_srv := [1] |}.
  split; [vm_compute; reflexivity|]. split; [vm_compute; reflexivity|]. split; [vm_compute; reflexivity|].
  split; [vm_compute; discriminate|]. split; [vm_compute; tauto|]. split; [vm_compute; tauto|].
  split; [vm_compute; discriminate|]. split; cbn; tauto.
Qed.
Print Assumptions C03R_double_membership_refuted.

(** * Non-vacuity *)
Definition ex_ds : nat -> Z := sched_ds (eff_sched reboot_tables [(0, (1, 2, 3)); (3, (22, 0, 0))]) 3 0 19675.
Definition ex_p : part :=
  match init reboot_tables ex_ds 100 1700000123 with TOk p => p | _ => part0 0 end.

(** the constructor returns, so [reach] is inhabited; the hypotheses of the schedule theorems hold *)
Example C03R_ex_reach : reach reboot_tables ex_ds 1700000123 ex_p.
Proof. apply (R_init reboot_tables ex_ds 100 1700000123 ex_p). vm_compute. reflexivity. Qed.
Example C03R_ex_sched_ok : sched_given_ok [(0, (1, 2, 3)); (3, (22, 0, 0))] = true /\ sched_given_ok [] = true /\
  sched_ok (default_sched reboot_tables) = true.
Proof. vm_compute. repeat split; reflexivity. Qed.
Example C03R_ex_buckets : tss ex_p = [1700172000; 1700442123; 1700776800; 1701046923; 1701381600; 1701651723;
                                      1701986400] /\ p_last ex_p = 1701986400.
Proof. vm_compute. split; reflexivity. Qed.
(** a server booted three days ago: not overdue, no explicit time stamp; it gets the latest empty admissible bucket *)
Example C03R_ex_window : overdue reboot_tables (1700000123 - 259200) (p_buckets ex_p) = false /\
  explicit_idx None (p_buckets ex_p) = None /\
  option_map fst (add reboot_tables 7 (1700000123 - 259200) None ex_p) = Some 1701381600 /\
  (1700000123 - 259200) + 86400 <= 1701381600 <= (1700000123 - 259200) + 1814400.
Proof. vm_compute. repeat split; try reflexivity; discriminate. Qed.
(** least loaded wins: with that bucket taken, the next server of the same age goes to the one before it *)
Example C03R_ex_least_loaded :
  match add reboot_tables 7 (1700000123 - 259200) None ex_p with
  | Some (_, p1) => option_map fst (add reboot_tables 8 (1700000123 - 259200) None p1)
  | None => None
  end = Some 1701046923.
Proof. vm_compute. reflexivity. Qed.
(** overdue: booted 30 days ago, asks for a later bucket, gets the first one *)
Example C03R_ex_overdue : overdue reboot_tables (1700000123 - 2592000) (p_buckets ex_p) = true /\
  option_map fst (add reboot_tables 9 (1700000123 - 2592000) (Some 1701046923) ex_p) = Some 1700172000.
Proof. vm_compute. split; reflexivity. Qed.
(** explicit time stamp honoured *)
Example C03R_ex_explicit :
  option_map fst (add reboot_tables 9 (1700000123 - 259200) (Some 1700442123) ex_p) = Some 1700442123.
Proof. vm_compute. reflexivity. Qed.
(** tick three days later: the first bucket is dropped, the list is extended, the server stays in its bucket *)
Example C03R_ex_tick :
  match add reboot_tables 7 (1700000123 - 259200) None ex_p with
  | Some (_, p1) => match tick reboot_tables ex_ds 100 (1700000123 + 259200) p1 with
                    | TOk p2 => Some (tss p2, map b_srv (p_buckets p2))
                    | _ => None
                    end
  | None => None
  end = Some ([1700442123; 1700776800; 1701046923; 1701381600; 1701651723; 1701986400; 1702256523],
              [[]; []; []; [7]; []; []; []]).
Proof. vm_compute. reflexivity. Qed.
(** fuel exhaustion is visible; a schedule keyed 7 is dead, one keyed 6 is live *)
Example C03R_ex_fuel : tick reboot_tables ex_ds 2 1700000123 (part0 1700000123) = TFuel /\
  sched_live [(7, (1, 2, 3))] = false /\ sched_live [(6, (1, 2, 3))] = true.
Proof. vm_compute. repeat split; reflexivity. Qed.
