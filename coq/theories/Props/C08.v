(** C08  Server failure handling: data retention, frozen servers, blacklisting.

    Proved on the model, for every reachable state [c] (any history of the operation alphabet satisfying the side
    conditions wf_ops_all) and the cycle run from it  (Sched/KeepP.v, Sched/CycleP.v, Sched/Reach.v):
      C08_keeps_placement       an instance on a server that is not up - down for less than its data-retention time,
                                or frozen and not marked for unscheduling - that is not blacklisted, not flagged for
                                renewal, holds an identity valid for the current group size and is not ranked beyond
                                the utilisation cap in this cycle's queue, is on the same server, with the same expiry
                                and identity, after the cycle (so nothing evicts it for capacity meanwhile);
      C08_loses_placement       once the retention time has run out (or the instance on a frozen server is marked for
                                unscheduling) it is not on that server after the cycle;
      C08_blacklisted_unplaced  a blacklisted instance ends the cycle without a server and without an identity;
      (a server that is not up receives no new instance: C03_new_assignment.)
      C08_master_since          master level: the `since` against which the retention is measured is the time a master
                                first saw the server's presence gone, through restarts, fail-overs and record reloads
                                (Master/SrvState.v, tied to Loader/Master by its own correspondence stage);
    and for every cell state (Sched/FrameP.v):
      C08_retention_decision / C08_expired   which instances the first phase moves off an inactive server;
      C08_no_capacity_eviction_meanwhile / C08_nonup_receives_nothing
                                the eviction scan and a fresh placement walk leave every server that is not up exactly
                                as it was;
      C08_blacklisted_skipped   the placement loop does nothing for a blacklisted instance.
    Refuted on the code as it is (known finding, behaviour looks intended), which is why C08_keeps_placement carries
    the valid-identity premise:
      C08_shrink_refuted        an instance on a down server inside its retention window is removed when its identity
                                group shrinks below its identity;
      C08_renewal_refuted       an instance flagged for renewal whose lease no longer fits is moved off a frozen server
                                (hence the premise a_renew = false; C07 exempts a failing renewal, C08 does not). *)
From Coq Require Import ZArith QArith List Bool.
From TM Require Import Sched.Vec Sched.Types Sched.Queue Sched.Tree Sched.Cycle Sched.Events Sched.MapsP Sched.Steps Sched.FrameP
                       Sched.InvAcct Sched.InvIdent Sched.TurnP Sched.CycleP Sched.KeepP Sched.Reach Master.SrvState Master.SrvStateP.
From TM Require Import Base.ShapeCanon.
Import ListNotations.
Open Scope Z_scope.

Theorem C08_retention_decision : forall c s n, In n (to_be_moved c s) <->
  In n (s_apps s) /\ exists a, get_app n (c_apps c) = Some a /\
    ((s_state s = Down /\ expired c (s_since s) a = true) \/ (s_state s = Frozen /\ a_unschedule a = true)).
Proof. exact to_be_moved_spec. Qed.
Print Assumptions C08_retention_decision.

Theorem C08_expired : forall c since a, expired c since a = true <->
  match a_drt a with None => 0 <= c_now c | Some t => since + t <= c_now c end.
Proof. exact expired_spec. Qed.
Print Assumptions C08_expired.

Theorem C08_no_capacity_eviction_meanwhile : forall victims placer c ev n s,
  get_srv n (c_servers c) = Some s -> s_state s <> Up ->
  get_srv n (c_servers (fst (evict_scan victims placer c ev))) = Some s.
Proof. intros victims placer c ev n s H1 H2. exact (evict_scan_nonup victims placer c ev n s H1 H2). Qed.
Print Assumptions C08_no_capacity_eviction_meanwhile.

Theorem C08_nonup_receives_nothing : forall fuel c b an n s,
  get_srv n (c_servers c) = Some s -> s_state s <> Up ->
  get_srv n (c_servers (fst (bucket_put fuel c b an))) = Some s.
Proof. intros fuel c b an n s H1 H2. exact (bucket_put_nonup fuel c b an n s H1 H2). Qed.
Print Assumptions C08_nonup_receives_nothing.

Theorem C08_blacklisted_skipped : forall rq st an a,
  get_app an (c_apps (l_cell st)) = Some a -> a_blacklisted a = true -> place_one rq st an = st.
Proof. exact place_one_blacklisted. Qed.
Print Assumptions C08_blacklisted_skipped.

Theorem C08_keeps_placement : forall c ch x a n s, reachable c ->
  get_app x (c_apps c) = Some a -> a_server a = Some n -> get_srv n (c_servers c) = Some s -> s_state s <> Up ->
  (s_state s = Down -> expired c (s_since s) a = false) ->
  (s_state s = Frozen -> a_unschedule a = false) ->
  a_blacklisted a = false -> a_renew a = false ->
  (forall i g grp, a_identity a = Some i -> a_group a = Some g -> aget g (c_groups c) = Some grp -> i < g_count grp) ->
  (forall label q e, In (label, q) (snd (fst (schedule c ch))) -> In e q -> e_app e = x -> e_rank e <> UNPLACED_RANK) ->
  exists a', get_app x (c_apps (step c (OSchedule ch))) = Some a' /\ a_server a' = Some n /\
             a_expiry a' = a_expiry a /\ a_identity a' = a_identity a.
Proof.
  intros c ch x a n s Hr Ha Hsv Hs Hst Hd Hf Hbl Hren Hid Hrank.
  apply (reachable_keeps c ch x a n s (reachable_Good c Hr)); [|exact Hst|exact Hren|exact Hrank].
  constructor; try assumption. intros i g k Hi Hg Hk. unfold gcount in Hk.
  destruct (aget g (c_groups c)) as [grp|] eqn:E; [|discriminate]. inversion Hk; subst k. exact (Hid i g grp Hi Hg E).
Qed.
Print Assumptions C08_keeps_placement.

Theorem C08_loses_placement : forall c ch x a n s, reachable c ->
  get_app x (c_apps c) = Some a -> a_server a = Some n -> get_srv n (c_servers c) = Some s ->
  (s_state s = Down /\ expired c (s_since s) a = true) \/ (s_state s = Frozen /\ a_unschedule a = true) ->
  exists a', get_app x (c_apps (step c (OSchedule ch))) = Some a' /\ a_server a' <> Some n.
Proof. intros c ch x a n s Hr. exact (reachable_moves c ch x a n s (reachable_Good c Hr)). Qed.
Print Assumptions C08_loses_placement.

Theorem C08_blacklisted_unplaced : forall c ch x a, reachable c ->
  get_app x (c_apps c) = Some a -> a_blacklisted a = true ->
  exists a', get_app x (c_apps (step c (OSchedule ch))) = Some a' /\ a_server a' = None /\
             (a_group a' = None \/ a_identity a' = None).
Proof. intros c ch x a Hr. exact (reachable_blacklisted c ch x a (reachable_Good c Hr)). Qed.
Print Assumptions C08_blacklisted_unplaced.

(** master level (Master/SrvState.v, model of Loader.adjust_server_state / adjust_presence / load_server and
    Master._record_server_state for one server): whatever presence changes, master (re)starts and record reloads have
    happened, a server that is down in memory and has a stored record has exactly that record and its `since` is the time
    a master first saw its presence gone in the current absence; an up server never has a record saying "down" (a stale
    one would be replayed at the next failure and cut the retention short) *)
Theorem C08_master_since : forall pres ops st t, Forall natural ops ->
  let r := grun (init_srv pres) None ops in
  sv_mem (fst r) = Some (st, t) ->
  (st = Down -> sv_rec (fst r) <> None -> sv_rec (fst r) = Some (Down, t) /\ snd r = Some t) /\
  (st = Up -> snd r = None /\ forall u, sv_rec (fst r) <> Some (Down, u)).
Proof. exact down_since_is_observed_loss. Qed.
Print Assumptions C08_master_since.

(** the code as it is: group of 3, instance 3 holds identity 2 on a server that went down at 1000 with retention 100;
    the group shrinks to 2; the cycle at 1001 removes the instance although retention lasts until 1100 *)
Definition ex_a (n o : Z) : app :=
  mkApp n 1 [10;10;10] 3000 [] 0 0 (Some 100) (Some 5000) false o None None None None false false false false (-1).
Definition ex_ops : list op :=
  [ OAddBucket 2001 3 2000; OAddServer 1000 2001 [100;100;100] 4000 0 0; OConfigGroup 5000 3; OTick 1000;
    OAddApp 4000 [] (ex_a 1 1); OAddApp 4000 [] (ex_a 2 2); OAddApp 4000 [] (ex_a 3 3);
    OSchedule [(1, 0); (2, 1); (3, 2)]; OSetState 1000 Down 1000; OConfigGroup 5000 2; OTick 1001; OSchedule [] ].
Theorem C08_shrink_refuted :
  let c0 := run (init_cell 3 2000 1) (firstn 11 ex_ops) in
  let c := run (init_cell 3 2000 1) ex_ops in
  exists a0 a s, get_app 3 (c_apps c0) = Some a0 /\ a_server a0 = Some 1000 /\ a_drt a0 = Some 100 /\
                 get_srv 1000 (c_servers c0) = Some s /\ s_state s = Down /\ s_since s + 100 > c_now c0 /\
                 get_app 3 (c_apps c) = Some a /\ a_server a = None.
Proof. vm_compute. eexists. eexists. eexists. repeat split; reflexivity. Qed.
Print Assumptions C08_shrink_refuted.

(** the code as it is, second exemption the statement does not list: instance 1 (lease 50) runs on server 1000, which is
    frozen and then announces a reboot at 1010; flagged for renewal at 1000 the lease no longer fits, and the cycle moves
    the instance to server 1001 although it was not marked for unscheduling *)
Definition ex_l (n o : Z) : app :=
  mkApp n 1 [10;10;10] 3000 [] 0 50 (Some 100) None false o None None None None false false false false (-1).
Definition ex_ops_renew : list op :=
  [ OAddBucket 2001 3 2000; OAddServer 1000 2001 [100;100;100] 4000 0 5000; OTick 1000; OAddApp 4000 [] (ex_l 1 1);
    OSchedule []; OAddServer 1001 2001 [100;100;100] 4000 0 9000; OSetState 1000 Frozen 1000; OSetValidUntil 1000 1010;
    OSetRenew 1; OSchedule [] ].
Theorem C08_renewal_refuted :
  let c0 := run (init_cell 3 2000 1) (firstn 9 ex_ops_renew) in
  let c := run (init_cell 3 2000 1) ex_ops_renew in
  exists a0 s a, get_app 1 (c_apps c0) = Some a0 /\ a_server a0 = Some 1000 /\ a_unschedule a0 = false /\
                 a_blacklisted a0 = false /\ a_renew a0 = true /\
                 get_srv 1000 (c_servers c0) = Some s /\ s_state s = Frozen /\
                 get_app 1 (c_apps c) = Some a /\ a_server a = Some 1001.
Proof. vm_compute. eexists. eexists. eexists. repeat split; reflexivity. Qed.
Print Assumptions C08_renewal_refuted.

(** non-vacuity of C08_keeps_placement: the same history without the shrink; instance 3 sits on the down server inside
    its retention window and is still there after the cycle *)
Definition ex_ops_keep : list op :=
  [ OAddBucket 2001 3 2000; OAddServer 1000 2001 [100;100;100] 4000 0 0; OConfigGroup 5000 3; OTick 1000;
    OAddApp 4000 [] (ex_a 1 1); OAddApp 4000 [] (ex_a 2 2); OAddApp 4000 [] (ex_a 3 3);
    OSchedule [(1, 0); (2, 1); (3, 2)]; OSetState 1000 Down 1000; OTick 1001 ].
Example C08_keeps_nonvacuous_reachable : reachable (run (init_cell 3 2000 1) ex_ops_keep).
Proof. exists 3%nat, 2000, 1, ex_ops_keep. split; [apply wf_ops_allb_sound; vm_compute; reflexivity|reflexivity]. Qed.
Example C08_keeps_nonvacuous :
  let c := run (init_cell 3 2000 1) ex_ops_keep in
  (exists a s, get_app 3 (c_apps c) = Some a /\ a_server a = Some 1000 /\ get_srv 1000 (c_servers c) = Some s /\
               s_state s = Down /\ expired c (s_since s) a = false /\ a_blacklisted a = false /\ a_renew a = false /\
               a_identity a = Some 2) /\
  forallb (fun lq => forallb (fun e => negb (Z.eqb (e_rank e) UNPLACED_RANK)) (snd lq)) (snd (fst (schedule c []))) = true /\
  option_map a_server (get_app 3 (c_apps (step c (OSchedule [])))) = Some (Some 1000).
Proof. vm_compute. split; [eexists; eexists; repeat split; reflexivity|split; reflexivity]. Qed.

(** the functions of treadmill/scheduler/__init__.py these theorems were proved about still have the statement
    skeleton the model was written from (re-extracted from the Python AST on every run, harness/tables_shape.py;
    kept last so that a difference does not stop the theorems above from being checked) *)
Theorem C08_source_shape : shapes_ok_C08 = true.
Proof. vm_compute. reflexivity. Qed.
Print Assumptions C08_source_shape.
