(** C08  Server failure handling: data retention, frozen servers, blacklisting.

    Proved on the model (Sched/FrameP.v), for every cell state:
      C08_retention_decision    the instances moved off an inactive server by the cycle's first phase are exactly: on a
                                down server those whose retention has run out (since + timeout <= now; no timeout =>
                                at once), on a frozen server those marked for unscheduling; nothing on an up server;
      C08_no_capacity_eviction_meanwhile / C08_nonup_receives_nothing
                                the eviction scan and a fresh placement walk leave every server that is not up exactly
                                as it was: nothing is evicted from it for capacity and nothing new is put on it;
      C08_blacklisted_skipped   the placement loop does nothing for a blacklisted instance.
    Refuted on the code as it is (known finding, behaviour looks intended):
      C08_shrink_refuted        an instance on a down server inside its retention window is removed when its identity
                                group shrinks below its identity.
    Partial: the composition over the whole cycle ("keeps its placement until ... and loses it in the first cycle
    after that") is decided by the correspondence (virtual clock ticks at the boundary) and the C08 oracle. *)
From Coq Require Import ZArith QArith List Bool.
From TM Require Import Sched.Vec Sched.Types Sched.Tree Sched.Cycle Sched.Events Sched.MapsP Sched.Steps Sched.FrameP.
Import ListNotations.
Open Scope Z_scope.

Theorem C08_retention_decision : forall c s n, In n (to_be_moved c s) <->
  In n (s_apps s) /\ exists a, get_app n (c_apps c) = Some a /\
    ((s_state s = Down /\ expired c (s_since s) a = true) \/ (s_state s = Frozen /\ a_unschedule a = true)).
Proof. exact to_be_moved_spec. Qed.
Print Assumptions C08_retention_decision.

Theorem C08_expired : forall c since a, expired c since a = true <->
  match a_drt a with None => 0 <= c_now c | Some t => since + t <= c_now c end.
Proof. exact expired_spec. Qed.
Print Assumptions C08_expired.

Theorem C08_no_capacity_eviction_meanwhile : forall victims placer c ev n s,
  get_srv n (c_servers c) = Some s -> s_state s <> Up ->
  get_srv n (c_servers (fst (evict_scan victims placer c ev))) = Some s.
Proof. intros victims placer c ev n s H1 H2. exact (evict_scan_nonup victims placer c ev n s H1 H2). Qed.
Print Assumptions C08_no_capacity_eviction_meanwhile.

Theorem C08_nonup_receives_nothing : forall fuel c b an n s,
  get_srv n (c_servers c) = Some s -> s_state s <> Up ->
  get_srv n (c_servers (fst (bucket_put fuel c b an))) = Some s.
Proof. intros fuel c b an n s H1 H2. exact (bucket_put_nonup fuel c b an n s H1 H2). Qed.
Print Assumptions C08_nonup_receives_nothing.

Theorem C08_blacklisted_skipped : forall rq st an a,
  get_app an (c_apps (l_cell st)) = Some a -> a_blacklisted a = true -> place_one rq st an = st.
Proof. exact place_one_blacklisted. Qed.
Print Assumptions C08_blacklisted_skipped.

(** the code as it is: group of 3, instance 3 holds identity 2 on a server that went down at 1000 with retention 100;
    the group shrinks to 2; the cycle at 1001 removes the instance although retention lasts until 1100 *)
Definition ex_a (n o : Z) : app :=
  mkApp n 1 [10;10;10] 3000 [] 0 0 (Some 100) (Some 5000) false o None None None None false false false false (-1).
Definition ex_ops : list op :=
  [ OAddBucket 2001 3 2000; OAddServer 1000 2001 [100;100;100] 4000 0 0; OConfigGroup 5000 3; OTick 1000;
    OAddApp 4000 [] (ex_a 1 1); OAddApp 4000 [] (ex_a 2 2); OAddApp 4000 [] (ex_a 3 3);
    OSchedule [(1, 0); (2, 1); (3, 2)]; OSetState 1000 Down 1000; OConfigGroup 5000 2; OTick 1001; OSchedule [] ].
Theorem C08_shrink_refuted :
  let c0 := run (init_cell 3 2000 1) (firstn 11 ex_ops) in
  let c := run (init_cell 3 2000 1) ex_ops in
  exists a0 a s, get_app 3 (c_apps c0) = Some a0 /\ a_server a0 = Some 1000 /\ a_drt a0 = Some 100 /\
                 get_srv 1000 (c_servers c0) = Some s /\ s_state s = Down /\ s_since s + 100 > c_now c0 /\
                 get_app 3 (c_apps c) = Some a /\ a_server a = None.
Proof. vm_compute. eexists. eexists. eexists. repeat split; reflexivity. Qed.
Print Assumptions C08_shrink_refuted.
