(** C15, "applications, cell allocations and partitions as LDAP entries": the per-class wrappers of
    admin/_ldap.py and the option-indexed list codec.

    Model: Codec/LdapCls.v (on Codec/Ldap.v).  For every LdapObject class (Server, DNS, AppGroup, Tenant, Allocation,
    Cell, CellAllocation, Partition, Application):
        from_entry (_remove_empty (to_entry x)) = normal form of x          for every typed x,
    with the normal form [*_nf] written out in the model: None values dropped, absent lists read as [], ints in str
    fields as text, JSON dicts with sorted keys, defaults filled in ('0%', '0G', '_default', restart limit/interval),
    item lists sorted by sorted(item.items()), an empty vring dropped.  The normal forms are typed again and
    normalising twice changes nothing (for dicts with defaults: up to the order of the keys, [obj_eqv]), except
    Application, whose ephemeral_ports defaults appear only on the second store: [C15L_application_nf_not_idempotent_refuted].
    Where the round trip loses something outside the typed domain there is a [_refuted] witness.

    Schemas, object keys, sort keys, option prefixes, defaults and the attribute-option format are [lcls_tables],
    assembled (Codec/LdapClsRun.v) from definitions that harness/tables_ldapcls.py regenerates from the source on
    every run; every theorem carries the premise [ltables_ok T = true], discharged for the generated tables by
    [C15L_tables_ok]. *)
From Coq Require Import ZArith List Bool Permutation.
From TM Require Import Codec.BaseN Codec.Dec Codec.Json Codec.Ldap Codec.LdapP Codec.LdapCls Codec.LdapClsP Codec.LdapClsRun
  Gen.Tables.
Import ListNotations.
Open Scope Z_scope.

(** the generated tables satisfy every side condition of the theorems below *)
Theorem C15L_tables_ok : ltables_ok lcls_tables && lcls_conv_ok = true.
Proof. vm_compute. reflexivity. Qed.
Print Assumptions C15L_tables_ok.

(** * 1. The option-indexed list codec *)
(** '{:x}' is injective on all integers, so distinct indices give distinct options ... *)
Theorem C15L_hex_injective : forall a b, hex_of_Z a = hex_of_Z b -> a = b.
Proof. intros a b H. exact (hex_of_Z_inj a b H). Qed.
Print Assumptions C15L_hex_injective.

(** ... and '<attribute>;<option>' determines both parts when the attribute has no ';' *)
Theorem C15L_option_attr_injective : forall a o a' o', ~ In 59 a -> ~ In 59 a' ->
  opt_attr a o = opt_attr a' o' -> a = a' /\ o = o'.
Proof. intros a o a' o' H1 H2 H. exact (opt_attr_inj a o a' o' H1 H2 H). Qed.
Print Assumptions C15L_option_attr_injective.

(** reading: whatever the option names are (any indices, with gaps, in any order), if the entry holds exactly the
    option groups [hx] under the prefix (each group the stored encoding of a typed item) then
    _grouped_to_list_of_dict returns the normal forms of the items, sorted; options under other prefixes are ignored *)
Theorem C15L_option_list_read : forall (E : entry) (lp : str) (isch : schema) (hx : list (str * obj)),
  isch_ok isch -> NoDup (map fst hx) ->
  (forall o x, In (o, x) hx -> is_prefix lp o = true /\ obj_typed2 isch x = true /\
      (forall a f t, In (a, (f, t)) (active isch) -> alookup E (opt_attr a o) = stored (row_assigned2 x f t)) /\
      (exists k, In k (map fst E) /\ has_opt k = true /\ opt_of k = o)) ->
  (forall k, In k (map fst E) -> has_opt k = true -> is_prefix lp (opt_of k) = true -> In (opt_of k) (map fst hx)) ->
  (forall k, In k (map fst E) -> has_opt k = true -> zlen (key_parts k) = 2) ->
  grouped_list E lp isch = Ok (sort_by item_lt (map (fun ox => nf_base isch (snd ox)) hx)).
Proof. intros E lp isch hx H1 H2 H3 H4 H5. exact (grouped_list_spec E lp isch hx H1 H2 H3 H4 H5). Qed.
Print Assumptions C15L_option_list_read.

(** writing then reading one typed list: _to_obj_list, _remove_empty, _grouped_to_list_of_dict *)
Theorem C15L_option_list_roundtrip : forall ls items, list_spec_ok [] TStr ls = true -> items_typed ls (Some items) = true ->
  exists E, to_obj_list items (ls_key ls) (ls_prefix ls) (ls_schema ls) = oret E /\
    grouped_list (remove_empty E) (ls_lprefix ls) (ls_schema ls) = Ok (nf_items (ls_schema ls) items).
Proof. intros ls items H1 H2. exact (obj_list_rt ls items H1 H2). Qed.
Print Assumptions C15L_option_list_roundtrip.

(** the order of the result does not depend on the order of the input, and sorting twice changes nothing *)
Theorem C15L_items_nf_canonical : forall isch l1 l2, isch_ok isch -> forallb (obj_typed2 isch) l1 = true ->
  Permutation l1 l2 -> nf_items isch l1 = nf_items isch l2.
Proof.
  intros isch l1 l2 H1 H2 H3.
  exact (items_sort_canon isch _ _ (items_P isch l1 H1 H2) (Permutation_map (nf_base isch) H3)).
Qed.
Print Assumptions C15L_items_nf_canonical.

Theorem C15L_items_nf_idempotent : forall isch items, isch_ok isch -> forallb (obj_typed2 isch) items = true ->
  nf_items isch (nf_items isch items) = nf_items isch items.
Proof. intros isch items H1 H2. exact (nf_items_idem isch items H1 H2). Qed.
Print Assumptions C15L_items_nf_idempotent.

(** * 2. Classes that use LdapObject.from_entry / to_entry: DNS, AppGroup, Tenant, Allocation (and Server's schema) *)
Theorem C15L_plain_roundtrip : forall T sch o, ltables_ok T = true ->
  In sch [lt_server T; lt_dns T; lt_appgroup T; lt_tenant T; lt_allocation T] ->
  obj_typed2 sch o = true -> plain_store_load T sch o = Some (Ok (nf_base sch o)).
Proof. intros T sch o H1 H2 H3. exact (plain_class_rt T sch o H1 H2 H3). Qed.
Print Assumptions C15L_plain_roundtrip.

Theorem C15L_plain_nf_normal : forall T sch o, ltables_ok T = true ->
  In sch [lt_server T; lt_dns T; lt_appgroup T; lt_tenant T; lt_allocation T] ->
  obj_typed2 sch o = true -> obj_typed2 sch (nf_base sch o) = true /\ nf_base sch (nf_base sch o) = nf_base sch o.
Proof. intros T sch o H1 H2 H3. exact (plain_class_nf T sch o H1 H2 H3). Qed.
Print Assumptions C15L_plain_nf_normal.

(** * 3. Server: the partition defaults to DEFAULT_PARTITION *)
Theorem C15L_server_roundtrip : forall T o, ltables_ok T = true -> obj_typed2 (lt_server T) o = true ->
  server_store_load T o = Some (Ok (server_nf T o)).
Proof. intros T o H1 H2. exact (server_class_rt T o H1 H2). Qed.
Print Assumptions C15L_server_roundtrip.

Theorem C15L_server_nf_normal : forall T o, ltables_ok T = true -> obj_typed2 (lt_server T) o = true ->
  obj_typed2 (lt_server T) (server_nf T o) = true /\ obj_eqv (server_nf T (server_nf T o)) (server_nf T o).
Proof.
  intros T o H1 H2. destruct (ltables_ok_proj T H1) as [_ [Hp _]].
  exact (conj (server_nf_typed T o Hp H2) (server_nf_idem T o Hp H2)).
Qed.
Print Assumptions C15L_server_nf_normal.

(** * 4. Cell: masters under their own idx *)
Theorem C15L_cell_roundtrip : forall T o, ltables_ok T = true -> cell_typed T o = true ->
  cell_store_load T o = Some (Ok (cell_nf T o)).
Proof. intros T o H1 H2. destruct (ltables_ok_proj T H1) as [_ [_ [_ [_ [Hc _]]]]]. exact (cell_rt T o Hc H2). Qed.
Print Assumptions C15L_cell_roundtrip.

Theorem C15L_cell_nf_normal : forall T o, ltables_ok T = true -> cell_typed T o = true ->
  cell_typed T (cell_nf T o) = true /\ cell_nf T (cell_nf T o) = cell_nf T o.
Proof.
  intros T o H1 H2. destruct (ltables_ok_proj T H1) as [_ [_ [_ [_ [Hc _]]]]].
  exact (conj (cell_nf_typed T o Hc H2) (cell_nf_idem T o Hc H2)).
Qed.
Print Assumptions C15L_cell_nf_normal.

(** * 5. CellAllocation: assignments; cpu / memory / disk / partition defaults *)
Theorem C15L_cellalloc_roundtrip : forall T o, ltables_ok T = true -> ca_typed T o = true ->
  ca_store_load T o = Some (Ok (ca_nf T o)).
Proof. intros T o H1 H2. destruct (ltables_ok_proj T H1) as [_ [_ [Hc _]]]. exact (ca_rt T o Hc H2). Qed.
Print Assumptions C15L_cellalloc_roundtrip.

Theorem C15L_cellalloc_nf_normal : forall T o, ltables_ok T = true -> ca_typed T o = true ->
  ca_typed T (ca_nf T o) = true /\
  obj_eqv (lo_base (ca_nf T (ca_nf T o))) (lo_base (ca_nf T o)) /\ lo_items (ca_nf T (ca_nf T o)) = lo_items (ca_nf T o).
Proof.
  intros T o H1 H2. destruct (ltables_ok_proj T H1) as [_ [_ [Hc _]]].
  exact (conj (ca_nf_typed T o Hc H2) (ca_nf_idem T o Hc H2)).
Qed.
Print Assumptions C15L_cellalloc_nf_normal.

(** * 6. Partition: limits; cpu / memory / disk defaults *)
Theorem C15L_partition_roundtrip : forall T o, ltables_ok T = true -> pt_typed T o = true ->
  pt_store_load T o = Some (Ok (pt_nf T o)).
Proof. intros T o H1 H2. destruct (ltables_ok_proj T H1) as [_ [_ [_ [Hc _]]]]. exact (pt_rt T o Hc H2). Qed.
Print Assumptions C15L_partition_roundtrip.

Theorem C15L_partition_nf_normal : forall T o, ltables_ok T = true -> pt_typed T o = true ->
  pt_typed T (pt_nf T o) = true /\
  obj_eqv (lo_base (pt_nf T (pt_nf T o))) (lo_base (pt_nf T o)) /\ lo_items (pt_nf T (pt_nf T o)) = lo_items (pt_nf T o).
Proof.
  intros T o H1 H2. destruct (ltables_ok_proj T H1) as [_ [_ [_ [Hc _]]]].
  exact (conj (pt_nf_typed T o Hc H2) (pt_nf_idem T o Hc H2)).
Qed.
Print Assumptions C15L_partition_nf_normal.

(** * 7. Application: services (+ restart), endpoints, environ, affinity limits, ephemeral ports, vring *)
Theorem C15L_application_roundtrip : forall T a, ltables_ok T = true -> app_typed T a = true ->
  app_store_load T a = Some (Ok (app_nf T a)).
Proof. intros T a H1 H2. destruct (ltables_ok_proj T H1) as [_ [_ [_ [_ [_ Hc]]]]]. exact (app_rt T a Hc H2). Qed.
Print Assumptions C15L_application_roundtrip.

(** * 8. Examples (the generated tables; closed by vm_compute) *)
Definition ex_server : obj :=
  [([95%Z; 105%Z; 100%Z], (FStr [115%Z; 114%Z; 118%Z; 49%Z])); ([99%Z; 101%Z; 108%Z; 108%Z], (FStr [99%Z; 49%Z])); ([116%Z; 114%Z; 97%Z; 105%Z; 116%Z; 115%Z], (FStrs [[115%Z; 115%Z; 100%Z]])); ([100%Z; 97%Z; 116%Z; 97%Z], (FDict [([98%Z], (VInt 1%Z)); ([97%Z], VNull)]))].

Definition ex_dns : obj :=
  [([95%Z; 105%Z; 100%Z], (FStr [100%Z])); ([115%Z; 101%Z; 114%Z; 118%Z; 101%Z; 114%Z], (FStrs [[97%Z]; [98%Z]])); ([116%Z; 116%Z; 108%Z], (FInt 10%Z)); ([122%Z; 107%Z; 117%Z; 114%Z; 108%Z], FNone)].

Definition ex_cell : lobj :=
  {| lo_base := [([95%Z; 105%Z; 100%Z], (FStr [99%Z; 49%Z])); ([118%Z; 101%Z; 114%Z; 115%Z; 105%Z; 111%Z; 110%Z], (FStr [118%Z]))]; lo_items := (Some [[([105%Z; 100%Z; 120%Z], (FInt 10%Z)); ([104%Z; 111%Z; 115%Z; 116%Z; 110%Z; 97%Z; 109%Z; 101%Z], (FStr [104%Z; 50%Z])); ([122%Z; 107%Z; 45%Z; 99%Z; 108%Z; 105%Z; 101%Z; 110%Z; 116%Z; 45%Z; 112%Z; 111%Z; 114%Z; 116%Z], (FInt 2181%Z))]; [([105%Z; 100%Z; 120%Z], (FInt 1%Z)); ([104%Z; 111%Z; 115%Z; 116%Z; 110%Z; 97%Z; 109%Z; 101%Z], (FStr [104%Z; 49%Z]))]]) |}.

Definition ex_ca : lobj :=
  {| lo_base := [([99%Z; 101%Z; 108%Z; 108%Z], (FStr [99%Z; 49%Z])); ([114%Z; 97%Z; 110%Z; 107%Z], (FInt 5%Z)); ([116%Z; 114%Z; 97%Z; 105%Z; 116%Z; 115%Z], (FStrs []))]; lo_items := (Some [[([112%Z; 97%Z; 116%Z; 116%Z; 101%Z; 114%Z; 110%Z], (FStr [112%Z; 46%Z; 98%Z; 42%Z])); ([112%Z; 114%Z; 105%Z; 111%Z; 114%Z; 105%Z; 116%Z; 121%Z], (FInt 2%Z))]; [([112%Z; 97%Z; 116%Z; 116%Z; 101%Z; 114%Z; 110%Z], (FStr [112%Z; 46%Z; 97%Z; 42%Z])); ([112%Z; 114%Z; 105%Z; 111%Z; 114%Z; 105%Z; 116%Z; 121%Z], (FInt 1%Z))]]) |}.

Definition ex_pt : lobj :=
  {| lo_base := [([95%Z; 105%Z; 100%Z], (FStr [112%Z])); ([115%Z; 121%Z; 115%Z; 116%Z; 101%Z; 109%Z; 115%Z], (FInts [1%Z; 2%Z])); ([100%Z; 111%Z; 119%Z; 110%Z; 45%Z; 116%Z; 104%Z; 114%Z; 101%Z; 115%Z; 104%Z; 111%Z; 108%Z; 100%Z], (FInt 3%Z))]; lo_items := (Some [[([116%Z; 114%Z; 97%Z; 105%Z; 116%Z], (FStr [103%Z; 112%Z; 117%Z])); ([99%Z; 112%Z; 117%Z], (FStr [49%Z; 48%Z; 37%Z]))]]) |}.

Definition ex_app : appo :=
  {| ap_base := [([95%Z; 105%Z; 100%Z], (FStr [112%Z; 46%Z; 97%Z; 112%Z; 112%Z])); ([99%Z; 112%Z; 117%Z], (FStr [49%Z; 48%Z; 37%Z])); ([109%Z; 101%Z; 109%Z; 111%Z; 114%Z; 121%Z], (FStr [49%Z; 71%Z])); ([115%Z; 104%Z; 97%Z; 114%Z; 101%Z; 100%Z; 95%Z; 105%Z; 112%Z], (FBool true)); ([116%Z; 105%Z; 99%Z; 107%Z; 101%Z; 116%Z; 115%Z], (FStrs [[117%Z; 64%Z; 82%Z]]))]; ap_eph := (Some [([116%Z; 99%Z; 112%Z], (FInt 2%Z))]); ap_services := (Some [{| sv_fields := [([110%Z; 97%Z; 109%Z; 101%Z], (FStr [119%Z; 101%Z; 98%Z])); ([99%Z; 111%Z; 109%Z; 109%Z; 97%Z; 110%Z; 100%Z], (FStr [99%Z]))]; sv_restart := (Some [([108%Z; 105%Z; 109%Z; 105%Z; 116%Z], (FInt 3%Z))]) |}; {| sv_fields := [([110%Z; 97%Z; 109%Z; 101%Z], (FStr [97%Z])); ([117%Z; 115%Z; 101%Z; 115%Z; 104%Z; 101%Z; 108%Z; 108%Z], (FBool false))]; sv_restart := None |}]); ap_endpoints := (Some [[([110%Z; 97%Z; 109%Z; 101%Z], (FStr [104%Z; 116%Z; 116%Z; 112%Z])); ([112%Z; 111%Z; 114%Z; 116%Z], (FInt 80%Z)); ([112%Z; 114%Z; 111%Z; 116%Z; 111%Z], (FStr [116%Z; 99%Z; 112%Z]))]; [([110%Z; 97%Z; 109%Z; 101%Z], (FStr [115%Z; 115%Z; 104%Z])); ([112%Z; 111%Z; 114%Z; 116%Z], (FInt 22%Z))]]); ap_environ := (Some [[([110%Z; 97%Z; 109%Z; 101%Z], (FStr [65%Z])); ([118%Z; 97%Z; 108%Z; 117%Z; 101%Z], (FStr [49%Z]))]]); ap_affinity := (Some [([114%Z; 97%Z; 99%Z; 107%Z], (FInt 1%Z)); ([112%Z; 111%Z; 100%Z], (FInt 2%Z))]); ap_vring := (Some {| vr_cells := (Some (FStrs [[99%Z; 49%Z]])); vr_rules := (Some [[([112%Z; 97%Z; 116%Z; 116%Z; 101%Z; 114%Z; 110%Z], (FStr [112%Z; 46%Z; 42%Z])); ([101%Z; 110%Z; 100%Z; 112%Z; 111%Z; 105%Z; 110%Z; 116%Z; 115%Z], (FStrs [[104%Z; 116%Z; 116%Z; 112%Z]]))]]) |}) |}.

Definition ex_app_blank : appo :=
  {| ap_base := []; ap_eph := None; ap_services := None; ap_endpoints := None; ap_environ := None; ap_affinity := None; ap_vring := None |}.

Definition ex_dupsvc_a : appo :=
  {| ap_base := []; ap_eph := None; ap_services := (Some [{| sv_fields := [([110%Z; 97%Z; 109%Z; 101%Z], (FStr [119%Z; 101%Z; 98%Z])); ([99%Z; 111%Z; 109%Z; 109%Z; 97%Z; 110%Z; 100%Z], (FStr [120%Z]))]; sv_restart := (Some [([108%Z; 105%Z; 109%Z; 105%Z; 116%Z], (FInt 1%Z))]) |}; {| sv_fields := [([110%Z; 97%Z; 109%Z; 101%Z], (FStr [119%Z; 101%Z; 98%Z])); ([99%Z; 111%Z; 109%Z; 109%Z; 97%Z; 110%Z; 100%Z], (FStr [121%Z]))]; sv_restart := (Some [([108%Z; 105%Z; 109%Z; 105%Z; 116%Z], (FInt 2%Z))]) |}]); ap_endpoints := None; ap_environ := None; ap_affinity := None; ap_vring := None |}.

Definition ex_dupsvc_b : appo :=
  {| ap_base := []; ap_eph := None; ap_services := (Some [{| sv_fields := [([110%Z; 97%Z; 109%Z; 101%Z], (FStr [119%Z; 101%Z; 98%Z])); ([99%Z; 111%Z; 109%Z; 109%Z; 97%Z; 110%Z; 100%Z], (FStr [120%Z]))]; sv_restart := (Some [([108%Z; 105%Z; 109%Z; 105%Z; 116%Z], (FInt 2%Z))]) |}; {| sv_fields := [([110%Z; 97%Z; 109%Z; 101%Z], (FStr [119%Z; 101%Z; 98%Z])); ([99%Z; 111%Z; 109%Z; 109%Z; 97%Z; 110%Z; 100%Z], (FStr [121%Z]))]; sv_restart := (Some [([108%Z; 105%Z; 109%Z; 105%Z; 116%Z], (FInt 2%Z))]) |}]); ap_endpoints := None; ap_environ := None; ap_affinity := None; ap_vring := None |}.

Definition ex_rst_none : appo :=
  {| ap_base := []; ap_eph := None; ap_services := (Some [{| sv_fields := [([110%Z; 97%Z; 109%Z; 101%Z], (FStr [119%Z; 101%Z; 98%Z]))]; sv_restart := (Some [([108%Z; 105%Z; 109%Z; 105%Z; 116%Z], FNone)]) |}]); ap_endpoints := None; ap_environ := None; ap_affinity := None; ap_vring := None |}.

Definition ex_aff_none : appo :=
  {| ap_base := []; ap_eph := None; ap_services := None; ap_endpoints := None; ap_environ := None; ap_affinity := (Some [([114%Z; 97%Z; 99%Z; 107%Z], FNone); ([112%Z; 111%Z; 100%Z], (FInt 1%Z))]); ap_vring := None |}.

Definition ex_rst_name_a : appo :=
  {| ap_base := []; ap_eph := None; ap_services := (Some [{| sv_fields := [([110%Z; 97%Z; 109%Z; 101%Z], (FStr [119%Z; 101%Z; 98%Z]))]; sv_restart := (Some [([110%Z; 97%Z; 109%Z; 101%Z], (FStr [111%Z; 116%Z; 104%Z; 101%Z; 114%Z])); ([108%Z; 105%Z; 109%Z; 105%Z; 116%Z], (FInt 2%Z))]) |}]); ap_endpoints := None; ap_environ := None; ap_affinity := None; ap_vring := None |}.

Definition ex_rst_name_b : appo :=
  {| ap_base := []; ap_eph := None; ap_services := (Some [{| sv_fields := [([110%Z; 97%Z; 109%Z; 101%Z], (FStr [111%Z; 116%Z; 104%Z; 101%Z; 114%Z]))]; sv_restart := (Some [([108%Z; 105%Z; 109%Z; 105%Z; 116%Z], (FInt 2%Z))]) |}]); ap_endpoints := None; ap_environ := None; ap_affinity := None; ap_vring := None |}.

Definition ex_vring_empty : appo :=
  {| ap_base := []; ap_eph := None; ap_services := None; ap_endpoints := None; ap_environ := None; ap_affinity := None; ap_vring := (Some {| vr_cells := (Some (FStrs [])); vr_rules := (Some []) |}) |}.

Definition ex_dupidx_a : lobj :=
  {| lo_base := []; lo_items := (Some [[([105%Z; 100%Z; 120%Z], (FInt 1%Z)); ([104%Z; 111%Z; 115%Z; 116%Z; 110%Z; 97%Z; 109%Z; 101%Z], (FStr [104%Z; 49%Z])); ([122%Z; 107%Z; 45%Z; 99%Z; 108%Z; 105%Z; 101%Z; 110%Z; 116%Z; 45%Z; 112%Z; 111%Z; 114%Z; 116%Z], (FInt 2181%Z))]; [([105%Z; 100%Z; 120%Z], (FInt 1%Z)); ([104%Z; 111%Z; 115%Z; 116%Z; 110%Z; 97%Z; 109%Z; 101%Z], (FStr [104%Z; 50%Z]))]]) |}.

Definition ex_dupidx_b : lobj :=
  {| lo_base := []; lo_items := (Some [[([105%Z; 100%Z; 120%Z], (FInt 1%Z)); ([104%Z; 111%Z; 115%Z; 116%Z; 110%Z; 97%Z; 109%Z; 101%Z], (FStr [104%Z; 50%Z])); ([122%Z; 107%Z; 45%Z; 99%Z; 108%Z; 105%Z; 101%Z; 110%Z; 116%Z; 45%Z; 112%Z; 111%Z; 114%Z; 116%Z], (FInt 2181%Z))]]) |}.

Definition ex_entry_dense : entry :=
  [([99%Z; 101%Z; 108%Z; 108%Z], [(EStr [99%Z; 49%Z])]); ([112%Z; 97%Z; 116%Z; 116%Z; 101%Z; 114%Z; 110%Z; 59%Z; 116%Z; 109%Z; 45%Z; 97%Z; 108%Z; 108%Z; 111%Z; 99%Z; 45%Z; 97%Z; 115%Z; 115%Z; 105%Z; 103%Z; 110%Z; 109%Z; 101%Z; 110%Z; 116%Z; 45%Z; 48%Z], [(EStr [112%Z; 46%Z; 97%Z; 42%Z])]); ([112%Z; 114%Z; 105%Z; 111%Z; 114%Z; 105%Z; 116%Z; 121%Z; 59%Z; 116%Z; 109%Z; 45%Z; 97%Z; 108%Z; 108%Z; 111%Z; 99%Z; 45%Z; 97%Z; 115%Z; 115%Z; 105%Z; 103%Z; 110%Z; 109%Z; 101%Z; 110%Z; 116%Z; 45%Z; 48%Z], [(EStr [49%Z])]); ([112%Z; 97%Z; 116%Z; 116%Z; 101%Z; 114%Z; 110%Z; 59%Z; 116%Z; 109%Z; 45%Z; 97%Z; 108%Z; 108%Z; 111%Z; 99%Z; 45%Z; 97%Z; 115%Z; 115%Z; 105%Z; 103%Z; 110%Z; 109%Z; 101%Z; 110%Z; 116%Z; 45%Z; 49%Z], [(EStr [112%Z; 46%Z; 98%Z; 42%Z])]); ([112%Z; 114%Z; 105%Z; 111%Z; 114%Z; 105%Z; 116%Z; 121%Z; 59%Z; 116%Z; 109%Z; 45%Z; 97%Z; 108%Z; 108%Z; 111%Z; 99%Z; 45%Z; 97%Z; 115%Z; 115%Z; 105%Z; 103%Z; 110%Z; 109%Z; 101%Z; 110%Z; 116%Z; 45%Z; 49%Z], [(EStr [50%Z])])].

Definition ex_entry_gaps : entry :=
  [([112%Z; 114%Z; 105%Z; 111%Z; 114%Z; 105%Z; 116%Z; 121%Z; 59%Z; 116%Z; 109%Z; 45%Z; 97%Z; 108%Z; 108%Z; 111%Z; 99%Z; 45%Z; 97%Z; 115%Z; 115%Z; 105%Z; 103%Z; 110%Z; 109%Z; 101%Z; 110%Z; 116%Z; 45%Z; 102%Z; 102%Z], [(EStr [50%Z])]); ([99%Z; 101%Z; 108%Z; 108%Z], [(EStr [99%Z; 49%Z])]); ([112%Z; 97%Z; 116%Z; 116%Z; 101%Z; 114%Z; 110%Z; 59%Z; 116%Z; 109%Z; 45%Z; 97%Z; 108%Z; 108%Z; 111%Z; 99%Z; 45%Z; 97%Z; 115%Z; 115%Z; 105%Z; 103%Z; 110%Z; 109%Z; 101%Z; 110%Z; 116%Z; 45%Z; 102%Z; 102%Z], [(EStr [112%Z; 46%Z; 98%Z; 42%Z])]); ([112%Z; 97%Z; 116%Z; 116%Z; 101%Z; 114%Z; 110%Z; 59%Z; 116%Z; 109%Z; 45%Z; 97%Z; 108%Z; 108%Z; 111%Z; 99%Z; 45%Z; 97%Z; 115%Z; 115%Z; 105%Z; 103%Z; 110%Z; 109%Z; 101%Z; 110%Z; 116%Z; 45%Z; 48%Z; 48%Z; 55%Z], [(EStr [112%Z; 46%Z; 97%Z; 42%Z])]); ([112%Z; 114%Z; 105%Z; 111%Z; 114%Z; 105%Z; 116%Z; 121%Z; 59%Z; 116%Z; 109%Z; 45%Z; 97%Z; 108%Z; 108%Z; 111%Z; 99%Z; 45%Z; 97%Z; 115%Z; 115%Z; 105%Z; 103%Z; 110%Z; 109%Z; 101%Z; 110%Z; 116%Z; 45%Z; 48%Z; 48%Z; 55%Z], [(EStr [49%Z])]); ([112%Z; 97%Z; 116%Z; 116%Z; 101%Z; 114%Z; 110%Z; 59%Z; 116%Z; 109%Z; 45%Z; 102%Z; 111%Z; 111%Z; 45%Z; 48%Z], [(EStr [122%Z; 122%Z])])].


Definition T0 : ltables := lcls_tables.

(** non-vacuity: typed objects of every class, with options / lists / nested items, round-trip to their normal forms *)
Example C15L_server_nonvacuous :
  obj_typed2 (lt_server T0) ex_server = true /\ server_store_load T0 ex_server = Some (Ok (server_nf T0 ex_server)) /\
  alookup (server_nf T0 ex_server) (lt_srv_partition T0) = Some (FStr (lt_default_partition T0)).
Proof. vm_compute. repeat split. Qed.

Example C15L_dns_nonvacuous :
  obj_typed2 (lt_dns T0) ex_dns = true /\ plain_store_load T0 (lt_dns T0) ex_dns = Some (Ok (nf_base (lt_dns T0) ex_dns)) /\
  nf_base (lt_dns T0) ex_dns <> ex_dns.
Proof. split; [vm_compute; reflexivity|]. split; [vm_compute; reflexivity|]. vm_compute. intros H. discriminate H. Qed.

Example C15L_cell_nonvacuous :
  cell_typed T0 ex_cell = true /\ cell_store_load T0 ex_cell = Some (Ok (cell_nf T0 ex_cell)) /\
  lo_items (cell_nf T0 ex_cell) <> lo_items ex_cell.
Proof. split; [vm_compute; reflexivity|]. split; [vm_compute; reflexivity|]. vm_compute. intros H. discriminate H. Qed.

Example C15L_cellalloc_nonvacuous :
  ca_typed T0 ex_ca = true /\ ca_store_load T0 ex_ca = Some (Ok (ca_nf T0 ex_ca)) /\
  lo_items (ca_nf T0 ex_ca) <> lo_items ex_ca.
Proof. split; [vm_compute; reflexivity|]. split; [vm_compute; reflexivity|]. vm_compute. intros H. discriminate H. Qed.

Example C15L_partition_nonvacuous :
  pt_typed T0 ex_pt = true /\ pt_store_load T0 ex_pt = Some (Ok (pt_nf T0 ex_pt)).
Proof. split; vm_compute; reflexivity. Qed.

Example C15L_application_nonvacuous :
  app_typed T0 ex_app = true /\ app_store_load T0 ex_app = Some (Ok (app_nf T0 ex_app)) /\
  ap_services (app_nf T0 ex_app) <> ap_services ex_app.
Proof. split; [vm_compute; reflexivity|]. split; [vm_compute; reflexivity|]. vm_compute. intros H. discriminate H. Qed.

(** option indices with gaps, leading zeros, in any order, plus an option of an unknown prefix: same object *)
Example C15L_option_indices_irrelevant :
  ca_from_entry T0 ex_entry_gaps = ca_from_entry T0 ex_entry_dense /\
  exists o, ca_from_entry T0 ex_entry_dense = Some (Ok o) /\ length (items_or_nil (lo_items o)) = 2%nat.
Proof. split; [vm_compute; reflexivity|]. eexists. split; [vm_compute; reflexivity|reflexivity]. Qed.

(** * 9. Where the round trip is not the identity on meaning *)
(** Application: the normal form is reached after TWO store + load cycles: an object without ephemeral_ports loads
    with ephemeral_ports = {}, and storing that writes tcp = udp = 0 *)
Theorem C15L_application_nf_not_idempotent_refuted :
  exists a, app_typed T0 a = true /\ app_typed T0 (app_nf T0 a) = true /\
    ap_eph (app_nf T0 (app_nf T0 a)) <> ap_eph (app_nf T0 a) /\
    app_nf T0 (app_nf T0 (app_nf T0 a)) = app_nf T0 (app_nf T0 a).
Proof.
  exists ex_app_blank. split; [vm_compute; reflexivity|]. split; [vm_compute; reflexivity|].
  split; [vm_compute; intros H; discriminate H|vm_compute; reflexivity].
Qed.
Print Assumptions C15L_application_nf_not_idempotent_refuted.

(** two services of one name: both read back with the restart settings of the last one (matched by name, not index) *)
Theorem C15L_application_duplicate_service_name_refuted :
  exists a b r, ap_services a <> ap_services b /\ app_store_load T0 a = Some (Ok r) /\ app_store_load T0 b = Some (Ok r).
Proof.
  exists ex_dupsvc_a, ex_dupsvc_b. eexists. split; [vm_compute; intros H; discriminate H|]. split; vm_compute; reflexivity.
Qed.
Print Assumptions C15L_application_duplicate_service_name_refuted.

(** a restart dict that carries a name overwrites the service's name *)
Theorem C15L_application_restart_name_refuted :
  exists a b r, ap_services a <> ap_services b /\ app_store_load T0 a = Some (Ok r) /\ app_store_load T0 b = Some (Ok r).
Proof.
  exists ex_rst_name_a, ex_rst_name_b. eexists. split; [vm_compute; intros H; discriminate H|]. split; vm_compute; reflexivity.
Qed.
Print Assumptions C15L_application_restart_name_refuted.

(** a restart limit / an affinity limit of None is stored as nothing and cannot be read back (KeyError) *)
Theorem C15L_application_none_limit_refuted :
  app_store_load T0 ex_rst_none = Some (Err E_KEY) /\ app_store_load T0 ex_aff_none = Some (Err E_KEY).
Proof. split; vm_compute; reflexivity. Qed.
Print Assumptions C15L_application_none_limit_refuted.

(** an empty vring and no vring are one entry (both typed: the normal form drops the empty vring) *)
Theorem C15L_application_empty_vring_refuted :
  app_typed T0 ex_vring_empty = true /\ app_typed T0 ex_app_blank = true /\ ap_vring ex_vring_empty <> ap_vring ex_app_blank /\
  app_store_load T0 ex_vring_empty = app_store_load T0 ex_app_blank /\
  obind (app_to_entry T0 ex_vring_empty) (fun e => oret (remove_empty e)) = obind (app_to_entry T0 ex_app_blank) (fun e => oret (remove_empty e)).
Proof.
  split; [vm_compute; reflexivity|]. split; [vm_compute; reflexivity|]. split; [vm_compute; intros H; discriminate H|].
  split; vm_compute; reflexivity.
Qed.
Print Assumptions C15L_application_empty_vring_refuted.

(** two masters with one idx share one option group: they are merged into one master *)
Theorem C15L_cell_duplicate_idx_refuted :
  exists r, lo_items ex_dupidx_a <> lo_items ex_dupidx_b /\
    cell_store_load T0 ex_dupidx_a = Some (Ok r) /\ cell_store_load T0 ex_dupidx_b = Some (Ok r) /\
    length (items_or_nil (lo_items r)) = 1%nat.
Proof.
  eexists. split; [vm_compute; intros H; discriminate H|]. split; [vm_compute; reflexivity|]. split; [vm_compute; reflexivity|reflexivity].
Qed.
Print Assumptions C15L_cell_duplicate_idx_refuted.
