(** C13  A container is running or in cleanup, never both, and follows the cache.

    Model: Node/AppCfg.v (AppCfgMgr handlers after the repairs of _synchronize, _on_deleted and
    _on_created; MonitorContainerCleanup.execute; Cleanup.invoke; inotify as a FIFO queue).

    Proved for ALL event sequences (every reachable state, every iteration order):
      - an unchanged running container is left running by every handler (C13_unchanged_stays);
      - a container with an exitinfo / aborted / oom file that is not running is started by no handler
        (C13_no_restart_finished);
      - after a resynchronisation the running link of every instance is given by [expected_running]
        (C13_sync_running): the cached manifest runs exactly when it can be configured;
      - a running container whose cache entry is gone or replaced is handed to cleanup (C13_gone_to_cleanup_event, C13_gone_to_cleanup_sync);
      - the link-shape invariant (C13_one_link_partial).
    Still refuted (recorded findings): two cleanup links through the two naming schemes
    (C13_one_link_refuted) and a finished container re-created after its cleanup while the placement
    still exists (C13_finished_recreated_refuted). *)
From Coq Require Import ZArith List Bool.
From TM Require Import Node.AppCfg Node.AppCfgP.
From TM Require Import Base.ShapeCanon.
Import ListNotations.
Open Scope Z_scope.

(** * Refutations that remain (known findings) *)

(** _terminate names the cleanup link after the container, _synchronize after the instance *)
Definition w_two_cleanup_links : list op :=
  [ReadyUp; Deliver [] []; CachePut 0 0 true; Deliver [] []; CacheDel 0; Deliver [] [];
   Restart; ReadyUp; Deliver [] []].
Theorem C13_one_link_refuted :
  exists ops, let s := run ops init in
    one_link s = false /\
    lget (cleanup s) (LCont (0, 0)) = Some (0, 0) /\ lget (cleanup s) (LInst 0) = Some (0, 0).
Proof. exists w_two_cleanup_links. vm_compute. repeat split. Qed.
Print Assumptions C13_one_link_refuted.

(** the container finished and was cleaned up, the placement (cache entry) is still there, readiness
    flips: the same container name is configured and started again *)
Definition w_finished_recreated : list op :=
  [CachePut 0 0 true; ReadyUp; Deliver [] []; Deliver [] []; Exit 0 KExit; CleanupDone (LInst 0);
   ReadyDown; Deliver [] []; ReadyUp; Deliver [] []].
Theorem C13_finished_recreated_refuted :
  exists ops, let s := run ops init in
    memb cont_eqb (0, 0) (finished s) = true /\ rget (running s) 0 = Some (0, 0).
Proof. exists w_finished_recreated. vm_compute. split; reflexivity. Qed.
Print Assumptions C13_finished_recreated_refuted.

(** * What is proved, for every event sequence *)

(** a container can be linked only as running/<its instance>, cleanup/<its instance> and
    cleanup/<its own name>: at most one running link, two cleanup links only through the two naming schemes *)
Theorem C13_one_link_partial : forall ops,
  let s := run ops init in
  (forall i c, rget (running s) i = Some c -> i = app_name c) /\
  (forall l c, lget (cleanup s) l = Some c -> l = LInst (app_name c) \/ l = LCont c).
Proof. intros ops. exact (reach_one_link_partial ops). Qed.
Print Assumptions C13_one_link_partial.

(** the first ready event of an inactive manager is a resynchronisation *)
Theorem C13_first_sync : forall s oc oi,
  active s = false -> handle s EvReadyUp oc oi = synchronize (with_active s true) oc oi.
Proof. intros s oc oi H. exact (first_sync s oc oi H). Qed.
Print Assumptions C13_first_sync.

(** an unchanged running container is left running: every reachable state, EVERY handler call (created,
    deleted -- also a stale one --, ready up/down incl. a resynchronisation with other generations in apps/) *)
Theorem C13_unchanged_stays : forall ops e oc oi i f ok,
  let s := run ops init in
  rget (running s) i = Some (i, f) -> aget (apps s) (i, f) <> None -> cget (cache s) i = Some (f, ok) ->
  rget (running (handle s e oc oi)) i = Some (i, f).
Proof. intros ops e oc oi i f ok. exact (reach_unchanged_stays ops e oc oi i f ok). Qed.
Print Assumptions C13_unchanged_stays.

(** a container that has an exitinfo / aborted / oom file and is not running is started by no handler call *)
Theorem C13_no_restart_finished : forall ops e oc oi c fl,
  let s := run ops init in
  aget (apps s) c = Some fl -> flagged fl = true -> rget (running s) (app_name c) <> Some c ->
  rget (running (handle s e oc oi)) (app_name c) <> Some c.
Proof. intros ops e oc oi c fl. exact (reach_no_restart_finished ops e oc oi c fl). Qed.
Print Assumptions C13_no_restart_finished.

(** after a resynchronisation the running link of every instance is [expected_running]: the cached manifest's
    container if it was already running, or if it is not in cleanup, not finished and configure succeeds;
    otherwise none (a running generation without a matching manifest is terminated) *)
Theorem C13_sync_running : forall ops oc oi i,
  let s := run ops init in
  rget (running (synchronize s oc oi)) i = expected_running s i.
Proof. intros ops oc oi i. exact (reach_sync_running ops oc oi i). Qed.
Print Assumptions C13_sync_running.

(** in particular: a cached, configurable manifest whose container does not exist yet is running afterwards,
    whatever older generations of the instance are in apps/ *)
Theorem C13_sync_configures_new : forall ops oc oi i f,
  let s := run ops init in
  cget (cache s) i = Some (f, true) -> aget (apps s) (i, f) = None ->
  rget (running (synchronize s oc oi)) i = Some (i, f).
Proof. intros ops oc oi i f. exact (reach_sync_configures_new ops oc oi i f). Qed.
Print Assumptions C13_sync_configures_new.

(** a deleted event of an active manager hands the instance's running container to cleanup, unless the event
    is stale (the running container was configured from the manifest that exists now) *)
Theorem C13_gone_to_cleanup_event : forall s i c oc oi,
  active s = true -> rget (running s) i = Some c -> runs_manifest s i = false ->
  let s' := handle s (EvDeleted i) oc oi in
  rget (running s') i = None /\ lget (cleanup s') (LCont c) = Some c /\
  (forall j, j <> i -> rget (running s') j = rget (running s) j).
Proof. intros s i c oc oi H1 H2 H3. exact (deleted_hands_over s i c oc oi H1 H2 H3). Qed.
Print Assumptions C13_gone_to_cleanup_event.

(** a resynchronisation hands over a running generation whose manifest is gone, or was replaced by one that is
    not configured yet, and then configures the new manifest *)
Theorem C13_gone_to_cleanup_sync : forall ops oc oi i x,
  let s := run ops init in
  linked s (rget (running s) i) = Some x ->
  (forall f ok, cget (cache s) i = Some (f, ok) -> aget (apps s) (i, f) = None) ->
  lget (cleanup (synchronize s oc oi)) (LCont x) = Some x /\
  rget (running (synchronize s oc oi)) i = match cget (cache s) i with Some (f, true) => Some (i, f) | _ => None end.
Proof. intros ops oc oi i x. exact (reach_gone_to_cleanup_sync ops oc oi i x). Qed.
Print Assumptions C13_gone_to_cleanup_sync.

(** a created event configures the container of the current cache entry, unless it already finished *)
Theorem C13_created_configures : forall s i f oc oi,
  active s = true -> rget (running s) i = None -> cget (cache s) i = Some (f, true) ->
  is_finished s i = false ->
  rget (running (handle s (EvCreated i) oc oi)) i = Some (i, f).
Proof. intros s i f oc oi H1 H2 H3 H4. exact (created_configures s i f oc oi H1 H2 H3 H4). Qed.
Print Assumptions C13_created_configures.

(** * The histories that refuted the statement before the repairs, as regression examples *)
Definition w_late_event : list op :=
  [ReadyUp; CachePut 0 0 true; Deliver [] []; Exit 0 KExit; Deliver [] []].
Definition w_stale_delete : list op :=
  [ReadyUp; Deliver [] []; CachePut 0 0 true; CacheDel 0; CachePut 0 1 true;
   Deliver [] []; Deliver [] []; Deliver [] []].
Definition w_two_generations (oc : list cont) : list op :=
  [ReadyUp; Deliver [] []; CachePut 0 0 true; Deliver [] []; CacheDel 0; Deliver [] [];
   CachePut 0 1 true; Deliver [] []; ReadyDown; Deliver [] []; ReadyUp; Deliver oc []].
Definition w_replaced_while_down : list op :=
  [CachePut 0 0 true; ReadyUp; Deliver [] []; Deliver [] []; CachePut 0 1 true; Restart; ReadyUp; Deliver [] []].

Example C13_regressions :
  (let s := run w_late_event init in rget (running s) 0 = None /\ one_link s = true) /\
  (let s := run w_stale_delete init in rget (running s) 0 = Some (0, 1) /\ cleanup s = [] /\ one_link s = true) /\
  (forall oc, oc = [(0, 0); (0, 1)] \/ oc = [(0, 1); (0, 0)] ->
     rget (running (run (w_two_generations oc) init)) 0 = Some (0, 1)) /\
  (let s := run w_replaced_while_down init in
     rget (running s) 0 = Some (0, 1) /\ lget (cleanup s) (LCont (0, 0)) = Some (0, 0) /\ one_link s = true).
Proof.
  split; [vm_compute; auto | split; [vm_compute; auto | split]].
  - intros oc [->| ->]; vm_compute; reflexivity.
  - vm_compute. auto.
Qed.

(** non-vacuity of the hypotheses: a reachable state with a running unchanged container (kept), one whose
    cache entry is gone (handed over), a finished one (not restarted) and a new manifest (configured) *)
Definition ex_ops : list op :=
  [ReadyUp; Deliver [] []; CachePut 0 0 true; Deliver [] []; CachePut 1 1 true; Deliver [] [];
   CachePut 2 2 true; Deliver [] []; Flag (2, 2) KOom; Boot; CachePut 1 3 true; CachePut 3 4 true;
   CacheDel 0; CachePut 0 5 true].
Example C13_nonvacuous :
  let s := run ex_ops init in let s' := synchronize s [] [] in
  active s = false /\
  (exists fl, aget (apps s) (2, 2) = Some fl /\ flagged fl = true) /\ cget (cache s) 2 = Some (2, true) /\
  rget (running s') 0 = Some (0, 5) /\ rget (running s') 1 = Some (1, 3) /\ rget (running s') 2 = None /\
  rget (running s') 3 = Some (3, 4) /\ lget (cleanup s') (LInst 2) = Some (2, 2) /\ one_link s' = true.
Proof. vm_compute. repeat split. eexists; split; reflexivity. Qed.

(** the functions named by this property's anchors still have the statement skeleton the model was written from
    (re-extracted from the Python AST on every run, harness/tables_shape.py + harness/shape_pins.json; kept last so that
    a difference does not stop the theorems above from being checked) *)
Theorem C13_source_shape : shapes_ok_C13 = true.
Proof. vm_compute. reflexivity. Qed.
Print Assumptions C13_source_shape.
