(** C13 placeholder while the model is being tied; replaced below. *)
From Coq Require Import ZArith List Bool.
From TM Require Import Node.AppCfg Node.AppCfgP.
Import ListNotations.
Open Scope Z_scope.

Theorem C13_links_wf : forall ops, wf (run ops init).
Proof. exact links_wf_all. Qed.
Print Assumptions C13_links_wf.
