(** C13  A container is running or in cleanup, never both, and follows the cache.

    Model: Node/AppCfg.v (AppCfgMgr handlers, MonitorContainerCleanup.execute, Cleanup.invoke;
    inotify as a FIFO queue; the code as it is).  The unchanged code does NOT satisfy the
    statement: each part of it has a [.._refuted] witness below (event sequences evaluated by
    vm_compute, each reproduced on the real code by the harness oracle), followed by the part
    that is proved: for ALL event sequences the link-shape invariant, and for every
    well-formed state the behaviour of the handlers / of one resynchronisation for an
    instance that has a single container directory. *)
From Coq Require Import ZArith List Bool.
From TM Require Import Node.AppCfg Node.AppCfgP.
Import ListNotations.
Open Scope Z_scope.

(** * Refutations (the code as it is) *)

(** "each container is referenced by at most one link" -- naming mismatch:
    _terminate names the cleanup link after the container, _synchronize after the instance.
    cache put, configured, cache delete -> _terminate; manager restart; resynchronisation. *)
Definition w_two_cleanup_links : list op :=
  [ReadyUp; Deliver [] []; CachePut 0 0 true; Deliver [] []; CacheDel 0; Deliver [] [];
   Restart; ReadyUp; Deliver [] []].
Theorem C13_one_link_refuted :
  exists ops, let s := run ops init in
    one_link s = false /\
    lget (cleanup s) (LCont (0, 0)) = Some (0, 0) /\ lget (cleanup s) (LInst 0) = Some (0, 0).
Proof. exists w_two_cleanup_links. vm_compute. repeat split. Qed.
Print Assumptions C13_one_link_refuted.

(** "a finished container is never started again" and "running or in cleanup, never both":
    a created event that was queued before a resynchronisation is handled after the container,
    started by that resynchronisation, has already exited: _on_created configures it again. *)
Definition w_late_event : list op :=
  [ReadyUp; CachePut 0 0 true; Deliver [] []; Exit 0 KExit; Deliver [] []].
Theorem C13_no_restart_finished_refuted :
  exists ops o, let s := run ops init in let s' := step s o in
    (exists fl, aget (apps s) (0, 0) = Some fl /\ flagged fl = true) /\
    rget (running s) 0 = None /\ lget (cleanup s) (LInst 0) = Some (0, 0) /\
    rget (running s') 0 = Some (0, 0) /\ lget (cleanup s') (LInst 0) = Some (0, 0) /\ one_link s' = false.
Proof.
  exists [ReadyUp; CachePut 0 0 true; Deliver [] []; Exit 0 KExit], (Deliver [] []).
  vm_compute. repeat split. eexists; split; reflexivity.
Qed.
Print Assumptions C13_no_restart_finished_refuted.

(** "an unchanged running container is left running": (a) the instance is evicted and placed again before the
    manager handles the first event: the created event configures the NEW file, the stale deleted event
    terminates it, the second created event starts it again while it is in cleanup *)
Definition w_stale_delete : list op :=
  [ReadyUp; Deliver [] []; CachePut 0 0 true; CacheDel 0; CachePut 0 1 true;
   Deliver [] []; Deliver [] []; Deliver [] []].
Theorem C13_unchanged_stays_refuted_event :
  exists ops o, let s := run ops init in let s' := step s o in
    rget (running s) 0 = Some (0, 1) /\ cget (cache s) 0 = Some (1, true) /\
    aget (apps s) (0, 1) = Some no_flags /\ hd_error (queue s) = Some (EvDeleted 0) /\
    rget (running s') 0 = None /\ lget (cleanup s') (LCont (0, 1)) = Some (0, 1) /\
    one_link (step s' (Deliver [] [])) = false.
Proof.
  exists [ReadyUp; Deliver [] []; CachePut 0 0 true; CacheDel 0; CachePut 0 1 true; Deliver [] []], (Deliver [] []).
  vm_compute. repeat split.
Qed.
Print Assumptions C13_unchanged_stays_refuted_event.

(** (b) evicted and placed again, the old generation still waits in cleanup, readiness flips:
    the resynchronisation terminates the NEW, cached, running generation -- for either iteration order *)
Definition w_two_generations : list op :=
  [ReadyUp; Deliver [] []; CachePut 0 0 true; Deliver [] []; CacheDel 0; Deliver [] [];
   CachePut 0 1 true; Deliver [] []; ReadyDown; Deliver [] []; ReadyUp].
Theorem C13_unchanged_stays_refuted_sync :
  exists ops, let s := run ops init in
    rget (running s) 0 = Some (0, 1) /\ cget (cache s) 0 = Some (1, true) /\
    aget (apps s) (0, 1) = Some no_flags /\ active s = false /\ queue s = [EvReadyUp] /\
    forall oc, oc = [(0, 0); (0, 1)] \/ oc = [(0, 1); (0, 0)] ->
      rget (running (step s (Deliver oc []))) 0 = None.
Proof.
  exists w_two_generations. vm_compute. repeat split. intros oc [->| ->]; reflexivity.
Qed.
Print Assumptions C13_unchanged_stays_refuted_sync.

(** "after a synchronisation the running links are exactly the configurable cached manifests":
    the manager was down while the manifest was replaced; the resynchronisation terminates the old
    generation and forgets the new one (no event is pending): the instance stays down *)
Definition w_replaced_while_down : list op :=
  [CachePut 0 0 true; ReadyUp; Deliver [] []; Deliver [] []; CachePut 0 1 true; Restart; ReadyUp; Deliver [] []].
Theorem C13_sync_running_refuted :
  exists ops, let s := run ops init in
    cget (cache s) 0 = Some (1, true) /\ aget (apps s) (0, 1) = None /\
    rget (running s) 0 = None /\ queue s = [] /\ active s = true /\
    lget (cleanup s) (LCont (0, 0)) = Some (0, 0).
Proof. exists w_replaced_while_down. vm_compute. repeat split. Qed.
Print Assumptions C13_sync_running_refuted.

(** * What is proved *)

(** ALL event sequences: a container can be linked only as running/<its instance>, cleanup/<its instance>
    and cleanup/<its own name>; hence at most one running link, and two cleanup links only through the
    two naming schemes *)
Theorem C13_one_link_partial : forall ops,
  let s := run ops init in
  (forall i c, rget (running s) i = Some c -> i = app_name c) /\
  (forall l c, lget (cleanup s) l = Some c -> l = LInst (app_name c) \/ l = LCont c).
Proof.
  intros ops s. destruct (links_wf_all ops) as [W1 W2]. split; [|exact W2].
  intros i c H. symmetry. now apply W1.
Qed.
Print Assumptions C13_one_link_partial.

(** the first ready event of an inactive manager is a resynchronisation *)
Theorem C13_first_sync : forall s oc oi,
  active s = false -> handle s EvReadyUp oc oi = synchronize (with_active s true) oc oi.
Proof. intros s oc oi H. cbn. now rewrite H. Qed.
Print Assumptions C13_first_sync.

(** a deleted event of an active manager hands the instance's running container to cleanup
    and touches no other running link (every state) *)
Theorem C13_gone_to_cleanup_event : forall s i c oc oi,
  active s = true -> rget (running s) i = Some c ->
  let s' := handle s (EvDeleted i) oc oi in
  rget (running s') i = None /\ lget (cleanup s') (LCont c) = Some c /\
  (forall j, j <> i -> rget (running s') j = rget (running s) j).
Proof. intros s i c oc oi H1 H2. exact (deleted_hands_over s i c oc oi H1 H2). Qed.
Print Assumptions C13_gone_to_cleanup_event.

(** a resynchronisation hands over a running container whose cache entry is gone or replaced
    (instance with a single container directory) *)
Theorem C13_gone_to_cleanup_sync : forall s oc oi i f0,
  wf s -> lone i f0 s ->
  rget (running s) i = Some (i, f0) -> (forall ok, cget (cache s) i <> Some (f0, ok)) ->
  rget (running (synchronize s oc oi)) i = None /\
  lget (cleanup (synchronize s oc oi)) (LCont (i, f0)) = Some (i, f0).
Proof. intros s oc oi i f0 W L H1 H2. exact (sync_hands_over s oc oi i f0 W L H1 H2). Qed.
Print Assumptions C13_gone_to_cleanup_sync.

(** a resynchronisation never starts a finished / aborted / oom container that is not running *)
Theorem C13_no_restart_finished_partial : forall s oc oi i f0 fl,
  wf s -> lone i f0 s ->
  aget (apps s) (i, f0) = Some fl -> flagged fl = true -> rget (running s) i = None ->
  rget (running (synchronize s oc oi)) i <> Some (i, f0).
Proof. intros s oc oi i f0 fl W L H1 H2 H3. exact (sync_no_restart s oc oi i f0 W L fl H1 H2 H3). Qed.
Print Assumptions C13_no_restart_finished_partial.

(** an unchanged running container is left running: by every handler except a deleted event for its own
    instance and a resynchronisation (every state) ... *)
Theorem C13_unchanged_stays_events : forall s e oc oi i c,
  rget (running s) i = Some c -> e <> EvDeleted i -> (e = EvReadyUp -> active s = true) ->
  rget (running (handle s e oc oi)) i = Some c.
Proof. intros s e oc oi i c H1 H2 H3. exact (handler_keeps_running s e oc oi i c H1 H2 H3). Qed.
Print Assumptions C13_unchanged_stays_events.

(** ... and by a resynchronisation when no other generation of the instance has a container directory *)
Theorem C13_unchanged_stays_partial : forall s oc oi i f0 ok,
  wf s -> lone i f0 s ->
  rget (running s) i = Some (i, f0) -> cget (cache s) i = Some (f0, ok) ->
  rget (running (synchronize s oc oi)) i = Some (i, f0).
Proof. intros s oc oi i f0 ok W L H1 H2. exact (sync_keeps_unchanged s oc oi i f0 W L ok H1 H2). Qed.
Print Assumptions C13_unchanged_stays_partial.

(** after a resynchronisation a not-yet-running instance runs exactly when its cached manifest can be
    configured: (a) its only container directory is the current generation *)
Theorem C13_sync_running_partial : forall s oc oi i f0 ok fl,
  wf s -> lone i f0 s ->
  cget (cache s) i = Some (f0, ok) -> aget (apps s) (i, f0) = Some fl -> rget (running s) i = None ->
  rget (running (synchronize s oc oi)) i =
    if target_exists s (lget (cleanup s) (LInst i)) || flagged fl || negb ok then None else Some (i, f0).
Proof. intros s oc oi i f0 ok fl W L H1 H2 H3. exact (sync_running_lone s oc oi i f0 W L ok fl H1 H2 H3). Qed.
Print Assumptions C13_sync_running_partial.

(** (b) it has no container directory *)
Theorem C13_sync_running_new : forall s oc oi i,
  wf s -> none i s -> rget (running s) i = None ->
  rget (running (synchronize s oc oi)) i =
    match cget (cache s) i with Some (f, true) => Some (i, f) | _ => None end.
Proof. intros s oc oi i W N H. exact (sync_running_none s oc oi i W N H). Qed.
Print Assumptions C13_sync_running_new.

(** a created event configures the container of the current cache entry *)
Theorem C13_created_configures : forall s i f oc oi,
  active s = true -> rget (running s) i = None -> cget (cache s) i = Some (f, true) ->
  rget (running (handle s (EvCreated i) oc oi)) i = Some (i, f).
Proof. intros s i f oc oi H1 H2 H3. exact (created_configures s i f oc oi H1 H2 H3). Qed.
Print Assumptions C13_created_configures.

(** non-vacuity: a reachable state with two instances, one running unchanged (kept), one whose cache entry is
    gone (handed over), satisfying the hypotheses of the partial theorems *)
Definition ex_ops : list op :=
  [ReadyUp; Deliver [] []; CachePut 0 0 true; Deliver [] []; CachePut 1 1 true; Deliver [] [];
   ReadyDown; Deliver [] []; CacheDel 1; Deliver [] []].
Definition ex_s := with_active (run ex_ops init) true.
Example C13_nonvacuous :
  wf ex_s /\ lone 0 0 ex_s /\ lone 1 1 ex_s /\
  rget (running ex_s) 0 = Some (0, 0) /\ cget (cache ex_s) 0 = Some (0, true) /\
  rget (running ex_s) 1 = Some (1, 1) /\ cget (cache ex_s) 1 = None /\
  one_link (synchronize ex_s [] []) = true /\
  rget (running (synchronize ex_s [] [])) 0 = Some (0, 0) /\
  lget (cleanup (synchronize ex_s [] [])) (LCont (1, 1)) = Some (1, 1).
Proof.
  split; [|split; [|split]].
  - unfold ex_s. apply (wf_same_links (run ex_ops init)); try reflexivity. apply links_wf_all.
  - vm_compute. split; [|split].
    + repeat constructor; cbn; intuition discriminate.
    + auto.
    + intros c' [<-|[<-|[]]] H; [reflexivity | discriminate H].
  - vm_compute. split; [|split].
    + repeat constructor; cbn; intuition discriminate.
    + auto.
    + intros c' [<-|[<-|[]]] H; [discriminate H | reflexivity].
  - vm_compute. repeat split.
Qed.
