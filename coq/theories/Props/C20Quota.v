(** C20, third anchored mechanism: "instance API quotas bound total and per-proid scheduled instances"
    (api/instance.py:24-31 and the quota check at the top of the nested create, :145-161).

    Model: Api/Quota.v.  Names are lists of code points; the stats dict (ZooKeeper node /scheduled-stats, written by
    the master's _calculate_aggregate, read through masterapi.get_scheduled_stats) is an association list
    proid -> count.  The two quotas, the '.' of rsrc_id[:rsrc_id.find('.')], the default of .get, the schema bounds
    of count and the key expression / increment of the master's aggregate are [TM.Api.QuotaRun.quota_tables],
    assembled from definitions that harness/tables_quota.py regenerates from the source on every run (the statement
    shape of the quota part of create is pinned there by AST template).  Theorems that depend on the constants carry
    the premise [quota_tables_ok T = true], discharged for the generated tables by [C20Q_tables_ok].

    46 '.'  35 '#'  102 111 111 "foo"  98 97 114 "bar"  110 111 100 111 116 "nodot". *)
From Coq Require Import ZArith List Bool.
From TM Require Import Codec.BaseN Api.Quota Api.QuotaP Api.QuotaRun Gen.Tables.
Import ListNotations.
Open Scope Z_scope.

(** the source's constants: '.' in the API and in the master, absent proid = 0, the master counts every name once,
    1 <= minimum <= maximum of count <= proid quota <= total quota *)
Theorem C20Q_tables_ok : quota_tables_ok quota_tables = true.
Proof. vm_compute. reflexivity. Qed.
Print Assumptions C20Q_tables_ok.

(** ... and they are the documented numbers: 50000 in total, 10000 per proid, count in 1..1000 *)
Theorem C20Q_constants_canonical : quota_tables_canonical quota_tables = true.
Proof. vm_compute. reflexivity. Qed.
Print Assumptions C20Q_constants_canonical.

(** (a) sound and complete: a create is accepted iff both sums stay within the quotas *)
Theorem C20Q_accept_iff : forall T st rsrc_id count,
  quota_check T st rsrc_id count = Accept <->
  total_apps st + count <= q_total T /\ proid_apps T st rsrc_id + count <= q_proid T.
Proof. intros T st rsrc_id count. exact (check_accept_iff T st rsrc_id count). Qed.
Print Assumptions C20Q_accept_iff.

(** (b) the order of the two errors: 'Total ...' whenever the total is exceeded (whatever the proid's count);
    'Proid ...' only when the total fits *)
Theorem C20Q_error_order : forall T st rsrc_id count,
  (quota_check T st rsrc_id count = TotalExceeded <-> total_apps st + count > q_total T) /\
  (quota_check T st rsrc_id count = ProidExceeded <->
   total_apps st + count <= q_total T /\ proid_apps T st rsrc_id + count > q_proid T).
Proof.
  intros T st rsrc_id count.
  exact (conj (check_total_iff T st rsrc_id count) (check_proid_iff T st rsrc_id count)).
Qed.
Print Assumptions C20Q_error_order.

(** (e) the decorated create: a count outside the schema bounds never reaches the check, one inside gets the check *)
Theorem C20Q_count_schema : forall T st rsrc_id count,
  (api_create T st rsrc_id count = None <-> (count < q_count_min T \/ q_count_max T < count)) /\
  (forall o, api_create T st rsrc_id count = Some o ->
             q_count_min T <= count <= q_count_max T /\ o = quota_check T st rsrc_id count).
Proof. intros T st rsrc_id count. exact (api_create_spec T st rsrc_id count). Qed.
Print Assumptions C20Q_count_schema.

(** the proid that is charged: the text before the FIRST '.' ... *)
Theorem C20Q_proid_is_prefix : forall T pre post, quota_tables_ok T = true ->
  ~ In 46 pre -> proid_of T (pre ++ 46 :: post) = pre.
Proof. intros T pre post H Hn. exact (proid_is_prefix T pre post H Hn). Qed.
Print Assumptions C20Q_proid_is_prefix.

(** ... and WITHOUT a '.' (find = -1) it is rsrc_id[:-1]: the name without its last character *)
Theorem C20Q_proid_without_dot : forall T name, has_sep T name = false -> proid_of T name = removelast name.
Proof. intros T name H. exact (proid_of_nosep T name H). Qed.
Print Assumptions C20Q_proid_without_dot.

(** (c) for EVERY sequence of requests (any names, any counts), starting from stats within the quotas and updated by
    exactly the accepted creates: the total and every proid's count stay within the quotas *)
Theorem C20Q_invariant : forall T st reqs, quota_tables_ok T = true -> within T st ->
  within T (fst (run T st reqs)).
Proof. intros T st reqs H Hw. exact (invariant_ok T st reqs H Hw). Qed.
Print Assumptions C20Q_invariant.

(** ... "updated by exactly the accepted creates": one outcome per request, each the check against the stats reached
    by the requests before it; the final total / count of a proid is the initial one plus the accepted counts *)
Theorem C20Q_run_frame : forall T st reqs, quota_tables_ok T = true ->
  length (snd (run T st reqs)) = length reqs /\
  (forall a r b, reqs = a ++ r :: b ->
     nth_error (snd (run T st reqs)) (length a) = Some (quota_check T (fst (run T st a)) (fst r) (snd r))) /\
  stats_total (fst (run T st reqs)) = stats_total st + accepted_sum reqs (snd (run T st reqs)) /\
  (forall p, stats_get (q_default T) (fst (run T st reqs)) p
             = stats_get (q_default T) st p + accepted_sum_for T p reqs (snd (run T st reqs))).
Proof. intros T st reqs H. exact (run_frame T st reqs H). Qed.
Print Assumptions C20Q_run_frame.

(** (e) with the schema's counts (>= 1) the number of accepted creates is bounded by the room that was left *)
Theorem C20Q_accepted_bounded : forall T st reqs, quota_tables_ok T = true -> counts_ok T reqs = true ->
  within T st -> accepted_n (snd (run T st reqs)) <= q_total T - stats_total st.
Proof. intros T st reqs H Hc Hw. exact (run_accepted_bounded T st reqs H Hc Hw). Qed.
Print Assumptions C20Q_accepted_bounded.

(** the boolean [withinb] (used by the Examples) implies [within] *)
Theorem C20Q_withinb : forall T st, withinb T st = true -> within T st.
Proof. intros T st H. exact (withinb_within T st H). Qed.
Print Assumptions C20Q_withinb.

(** (d) what the check does NOT guarantee.  The stats are a ZooKeeper node rewritten by the master when /scheduled
    changes, not the API's own count: two creates checked against the same node are both accepted and together exceed
    the proid quota (checked one after the other the second is refused) ... *)
Definition ex_stale_proid : stats := [([102; 111; 111], q_proid quota_tables - 1)].
Theorem C20Q_stale_proid_refuted :
  exists st r1 c1 r2 c2,
    withinb quota_tables st = true /\ count_ok quota_tables c1 = true /\ count_ok quota_tables c2 = true /\
    snd (run_stale quota_tables st st [(r1, c1); (r2, c2)]) = [Accept; Accept] /\
    (stats_get 0 (fst (run_stale quota_tables st st [(r1, c1); (r2, c2)])) (proid_of quota_tables r1)
       >? q_proid quota_tables) = true /\
    snd (run quota_tables st [(r1, c1); (r2, c2)]) = [Accept; ProidExceeded].
Proof.
  exists ex_stale_proid, [102; 111; 111; 46; 97], 1, [102; 111; 111; 46; 98], 1.
  vm_compute. repeat split; reflexivity.
Qed.
Print Assumptions C20Q_stale_proid_refuted.

(** ... and the total quota: five proids, 49999 instances, two creates of 1000 *)
Definition ex_stale_total : stats :=
  [([97; 97], q_proid quota_tables); ([98; 98], q_proid quota_tables); ([99; 99], q_proid quota_tables);
   ([100; 100], q_proid quota_tables); ([101; 101], q_total quota_tables - 4 * q_proid quota_tables - 1001)].
Theorem C20Q_stale_total_refuted :
  exists st r1 c1 r2 c2,
    withinb quota_tables st = true /\ count_ok quota_tables c1 = true /\ count_ok quota_tables c2 = true /\
    snd (run_stale quota_tables st st [(r1, c1); (r2, c2)]) = [Accept; Accept] /\
    (stats_total (fst (run_stale quota_tables st st [(r1, c1); (r2, c2)])) >? q_total quota_tables) = true /\
    snd (run quota_tables st [(r1, c1); (r2, c2)]) = [Accept; TotalExceeded].
Proof.
  exists ex_stale_total, [102; 111; 111; 46; 97], 1000, [98; 97; 114; 46; 98], 1000.
  vm_compute. repeat split; reflexivity.
Qed.
Print Assumptions C20Q_stale_total_refuted.

(** what does hold against stale stats, with the schema's counts: n accepted creates overshoot a quota by at most
    (n - 1) * 1000 *)
Theorem C20Q_stale_partial : forall T st reqs, quota_tables_ok T = true -> counts_ok T reqs = true -> within T st ->
  let n := accepted_n (snd (run_stale T st st reqs)) in
  stats_total (fst (run_stale T st st reqs)) <= q_total T + Z.max 0 (n - 1) * q_count_max T /\
  forall p, stats_get (q_default T) (fst (run_stale T st st reqs)) p
            <= q_proid T + Z.max 0 (n - 1) * q_count_max T.
Proof. intros T st reqs H Hc Hw. exact (stale_partial T st reqs H Hc Hw). Qed.
Print Assumptions C20Q_stale_partial.

(** the body of create alone (behind the schema, which admits only names with a '.'; reachable as
    create.__wrapped__): a name without '.' is charged to rsrc_id[:-1].  A "proid" at its quota gets 1000 more
    accepted, the entry of another key refuses it, and the master files its instances under a third key *)
Theorem C20Q_dotless_body_refuted :
  exists name,
    has_sep quota_tables name = false /\
    str_eqb (proid_of quota_tables name) name = false /\
    quota_check quota_tables [(name, q_proid quota_tables)] name (q_count_max quota_tables) = Accept /\
    quota_check quota_tables [(removelast name, q_proid quota_tables)] name 1 = ProidExceeded /\
    str_eqb (agg_key quota_tables (name ++ 35 :: [48; 48; 48; 48; 48; 48; 48; 48; 48; 49]))
            (proid_of quota_tables name) = false.
Proof. exists [110; 111; 100; 111; 116]. vm_compute. repeat split; reflexivity. Qed.
Print Assumptions C20Q_dotless_body_refuted.

(** the writer of the stats agrees with the reader: the master's aggregate of a list of names has the number of names
    as its total and, under every key, the number of names with that key *)
Theorem C20Q_master_aggregate : forall T names, quota_tables_ok T = true ->
  stats_total (aggregate T names) = Z.of_nat (length names) /\
  forall p, stats_get (q_default T) (aggregate T names) p = count_proid T p names.
Proof. intros T names H. exact (master_aggregate T names H). Qed.
Print Assumptions C20Q_master_aggregate.

(** the instances rsrc_id#<suffix> of a create are filed by the master under the key the API charged - for a
    rsrc_id with a '.' *)
Theorem C20Q_instances_same_key : forall T rsrc_id sfx, quota_tables_ok T = true -> has_sep T rsrc_id = true ->
  agg_key T (rsrc_id ++ 35 :: sfx) = proid_of T rsrc_id.
Proof. intros T rsrc_id sfx H Hs. exact (instances_same_key T rsrc_id sfx H Hs). Qed.
Print Assumptions C20Q_instances_same_key.

(** (c) on the real population: the API checks against the master's aggregate of /scheduled, an accepted create adds
    its instance nodes.  For every sequence of creates with names the schema admits (a '.'), one after the other: the
    number of scheduled instances and the number of every proid stay within the quotas *)
Theorem C20Q_system_invariant : forall T names reqs, quota_tables_ok T = true -> sys_names_ok T reqs = true ->
  sys_within T names -> sys_within T (fst (sys_run T names reqs)).
Proof. intros T names reqs H Hn Hw. exact (sys_run_within T reqs H Hn names Hw). Qed.
Print Assumptions C20Q_system_invariant.

(** * Non-vacuity (on the GENERATED tables) *)
Definition foo_a : str := [102; 111; 111; 46; 97].            (* "foo.a" *)
Definition foo_b_c : str := [102; 111; 111; 46; 98; 46; 99].  (* "foo.b.c" *)
Definition bar_x : str := [98; 97; 114; 46; 120].             (* "bar.x" *)
Definition ex_stats : stats := [([102; 111; 111], q_proid quota_tables - 2); ([98; 97; 114], 5)].
Definition ex_reqs : list request := [(foo_a, 1); (foo_b_c, 2); (foo_a, 1); (bar_x, 1000); (foo_a, 1)].

Example C20Q_ex_hyps : withinb quota_tables ex_stats && counts_ok quota_tables ex_reqs = true.
Proof. vm_compute. reflexivity. Qed.

(* 9998 + 1 ok; + 2 too many for foo; + 1 ok (10000); bar + 1000 ok; foo full *)
Example C20Q_ex_run :
  run quota_tables ex_stats ex_reqs =
  ([([102; 111; 111], q_proid quota_tables); ([98; 97; 114], 1005)],
   [Accept; ProidExceeded; Accept; Accept; ProidExceeded]).
Proof. vm_compute. reflexivity. Qed.

(* both exceeded: the total is reported *)
Example C20Q_ex_both :
  quota_check quota_tables ex_stale_total foo_a 1000 = Accept /\
  quota_check quota_tables ex_stale_total [97; 97; 46; 120] 1000 = ProidExceeded /\
  quota_check quota_tables (([102; 102], 2) :: ex_stale_total) [97; 97; 46; 120] 1000 = TotalExceeded.
Proof. vm_compute. repeat split; reflexivity. Qed.

(* proid: first '.', '@' is part of it, no '.' drops the last character, '' stays '' *)
Example C20Q_ex_proid :
  proid_of quota_tables foo_b_c = [102; 111; 111] /\
  proid_of quota_tables [97; 64; 102; 111; 111; 46; 120] = [97; 64; 102; 111; 111] /\
  proid_of quota_tables [110; 111; 100; 111; 116] = [110; 111; 100; 111] /\
  proid_of quota_tables [46; 120] = [] /\
  proid_of quota_tables [] = [].
Proof. vm_compute. repeat split; reflexivity. Qed.

(* the schema of count *)
Example C20Q_ex_count :
  api_create quota_tables [] foo_a 0 = None /\ api_create quota_tables [] foo_a 1001 = None /\
  api_create quota_tables [] foo_a 1 = Some Accept /\ api_create quota_tables [] foo_a 1000 = Some Accept.
Proof. vm_compute. repeat split; reflexivity. Qed.

(* the loop on names: two creates, the master's aggregate after them *)
Definition ex_sys : list sys_request := [(foo_a, [[49]; [50]]); (bar_x, [[51]]); (foo_b_c, [[52]])].
Example C20Q_ex_sys :
  sys_names_ok quota_tables ex_sys = true /\
  snd (sys_run quota_tables [] ex_sys) = [Accept; Accept; Accept] /\
  aggregate quota_tables (fst (sys_run quota_tables [] ex_sys)) = [([102; 111; 111], 3); ([98; 97; 114], 1)] /\
  count_proid quota_tables [102; 111; 111] (fst (sys_run quota_tables [] ex_sys)) = 3.
Proof. vm_compute. repeat split; reflexivity. Qed.
