(** C09  The published placement equals the scheduler's model after every cycle.

    Model: Master/Publish.v.  A cycle = Cell.schedule (Sched/Cycle.v [schedule], its own properties C01..C08)
    followed by the publication, which is a function of the placement tuples the cycle returned and of the
    per-instance data {identity, identity_count, expires} read from cell.apps.

    PROVED AT FULL STRENGTH (publication half; all tuple lists, all stores):
      C09_publication            after Master.reschedule the store holds, for every listed instance, exactly one
                                 entry: under the `after` server with the current data, none if pending; every
                                 other node is untouched
      C09_published_equals_model the same as equality (node by node) with the model's placement
      C09_startup_content        after Master.init_schedule the nodes under every server of the model are exactly
                                 server.apps, each with the current placement data (identity, identity_count,
                                 expires)   [repaired by "fix: init_schedule reconciles the content of placement
                                 nodes, not only their names"; old failing input: C09_startup_content_regression]
    under the two hypotheses that tie the store to what the cycle read, which the publication cannot check
    because it reads nothing back:
      [within_before]        no entry of a listed instance outside its `before` server
      [unchanged_published]  for an instance the cycle left alone the stored data is the current data.
    REFUTED ON THE CURRENT TREE (known findings; model follows the code):
      C09_unchanged_needed_refuted  [unchanged_published] is necessary: when a handler changes the data of a placed
                                    instance (Loader.reload_server re-puts instances with a new expiry) and the cycle
                                    then reports "nothing changed", the stale data stays (signature
                                    stale-expiry-after-server-reload-not-republished)
      C10_stale_entry_refuted (Props/C10.v)  [within_before] is necessary (Loader.remove_server)
    ONLY ORACLE + CORRESPONDENCE (E-master, harness/props/c09.py): that the real handlers between two cycles keep
    the two hypotheses (they do not always: see the signatures above), and that Cell.schedule's tuples are what
    the Sched model computes (E-cell). *)
From Coq Require Import ZArith List Bool.
From TM Require Import Master.Publish Master.PublishP Gen.Tables.
From TM Require Import Base.ShapeCanon.
Import ListNotations.
Open Scope Z_scope.

Definition c10_cfg : cfg :=
  cfg_of_tables c10_reschedule_phases c10_changed_filter c10_init_phases c10_init_flags c10_integrity_flags.

Theorem C09_source_shape : cfg_canonical c10_cfg = true.
Proof. vm_compute. reflexivity. Qed.
Print Assumptions C09_source_shape.

Theorem C09_publication : forall tuples i once st,
  NoDup (map t_name tuples) ->
  within_before tuples st ->
  unchanged_published tuples i st ->
  let final := apply_writes st (reschedule_writes c10_cfg tuples i once) in
  (forall t, In t tuples -> forall s,
     lookup final s (t_name t) = if oeqb (t_sa t) (Some s) then Some (get_info i (t_name t)) else None) /\
  (forall a, ~ In a (map t_name tuples) -> forall s, lookup final s a = lookup st s a).
Proof.
  intros tuples i once st H1 H2 H3.
  exact (resched_final c10_cfg tuples i once st C09_source_shape H1 H2 H3).
Qed.
Print Assumptions C09_publication.

Theorem C09_published_equals_model : forall tuples i once st,
  NoDup (map t_name tuples) ->
  within_before tuples st ->
  unchanged_published tuples i st ->
  (forall s a, has st s a = true -> In a (map t_name tuples)) ->
  forall s a, lookup (apply_writes st (reschedule_writes c10_cfg tuples i once)) s a =
              lookup (model_entries i tuples) s a.
Proof.
  intros tuples i once st H1 H2 H3 H4.
  exact (resched_equals_model c10_cfg tuples i once st C09_source_shape H1 H2 H3 H4).
Qed.
Print Assumptions C09_published_equals_model.

Theorem C09_startup_content : forall st i members,
  NoDup (map fst members) ->
  let final := apply_writes st (init_writes c10_cfg st i members) in
  (forall s correct, In (s, correct) members -> forall a,
     lookup final s a = if zmem a correct then Some (get_info i a) else None) /\
  (forall s, ~ In s (map fst members) -> forall a, lookup final s a = lookup st s a).
Proof.
  intros st i members H. exact (init_final c10_cfg st i members C09_source_shape H).
Qed.
Print Assumptions C09_startup_content.

(** regression: group shrunk while no master ran: the store says identity 2, the restarted model runs the instance
    with identity 0 on the same server; init_schedule used to leave the node as it was, now it rewrites it *)
Example C09_startup_content_regression :
  let st := [(1, 7, mkPD (Some 2) (Some 3) (Some 100))] in
  let i := [(7, mkPD (Some 0) (Some 2) (Some 100))] in
  flat_writes (init_writes c10_cfg st i [(1, [7])]) = [3; 3; 1; 2; 1; 7; 1; 0; 1; 2; 1; 100; 6] /\
  lookup (apply_writes st (init_writes c10_cfg st i [(1, [7])])) 1 7 = Some (get_info i 7).
Proof. vm_compute. split; reflexivity. Qed.

(** the cycle reports instance 7 as unchanged (same server, same expiry) but a handler has given it a new expiry
    since the node was written: nothing is rewritten *)
Theorem C09_unchanged_needed_refuted : exists tuples i once st t s,
  NoDup (map t_name tuples) /\ within_before tuples st /\ In t tuples /\ t_sa t = Some s /\
  lookup (apply_writes st (reschedule_writes c10_cfg tuples i once)) s (t_name t) <> Some (get_info i (t_name t)).
Proof.
  exists [(7, Some 1, Some 200, Some 1, Some 200)], [(7, mkPD None None (Some 200))], [],
         [(1, 7, mkPD None None (Some 100))], (7, Some 1, Some 200, Some 1, Some 200), 1.
  split; [repeat constructor; cbn; intuition|].
  split; [apply within_beforeb_sound; vm_compute; reflexivity|].
  split; [left; reflexivity|]. split; [reflexivity|]. vm_compute. discriminate.
Qed.
Print Assumptions C09_unchanged_needed_refuted.

(** non-vacuity: the cycle of Props/C10.v's example; the published store is the model's placement *)
Definition ex_d (e : Z) : pdata := mkPD None None (Some e).
Definition ex_tuples : list ptuple :=
  [(1, Some 10, Some 100, Some 11, Some 200); (2, Some 10, Some 100, Some 10, Some 300);
   (3, None, None, Some 11, Some 200); (4, Some 11, Some 100, None, None); (5, Some 10, Some 100, Some 10, Some 100)].
Definition ex_info : info := [(1, ex_d 200); (2, ex_d 300); (3, ex_d 200); (4, mkPD None None None); (5, ex_d 100)].
Definition ex_store : store := [(10, 1, ex_d 100); (10, 2, ex_d 100); (11, 4, ex_d 100); (10, 5, ex_d 100)].
Example C09_nonvacuous :
  nodupb (map t_name ex_tuples) = true /\ within_beforeb ex_tuples ex_store = true /\
  unchanged_publishedb canonical_cfg ex_tuples ex_info ex_store = true /\
  forallb (fun e => zmem (e_app e) (map t_name ex_tuples)) ex_store = true /\
  flat_store (apply_writes ex_store (reschedule_writes c10_cfg ex_tuples ex_info [4])) =
    [4; 10; 2; -1; -1; 1; 300; 10; 5; -1; -1; 1; 100; 11; 1; -1; -1; 1; 200; 11; 3; -1; -1; 1; 200] /\
  flat_store (model_entries ex_info ex_tuples) =
    [4; 10; 2; -1; -1; 1; 300; 10; 5; -1; -1; 1; 100; 11; 1; -1; -1; 1; 200; 11; 3; -1; -1; 1; 200].
Proof. vm_compute. repeat split. Qed.

(** the functions named by this property's anchors still have the statement skeleton the model was written from
    (re-extracted from the Python AST on every run, harness/tables_shape.py + harness/shape_pins.json; kept last so that
    a difference does not stop the theorems above from being checked) *)
Theorem C09_anchor_shape : shapes_ok_C09 = true.
Proof. vm_compute. reflexivity. Qed.
Print Assumptions C09_anchor_shape.
