(** C20  The app monitor converges to the target count without overshoot.

    Model: Mon/AppMon.v (reevaluate + the _run_sync watch callbacks).  Time is in
    ticks ([tps] per second, any positive [tps]); tokens are scaled by
    _INTERVAL * tps, so [m_tok c = available * scale].  The constants are
    [TM.Gen.Tables.c20_consts], regenerated from sproc/appmonitor.py on every run. *)
From Coq Require Import ZArith List Bool Sorting.Sorted.
From TM Require Import Mon.AppMon Mon.AppMonP Gen.Tables.
From TM Require Import Base.ShapeCanon.
Import ListNotations.
Open Scope Z_scope.

Definition P20 (tps : Z) : params := {| p_k := c20_consts; p_tps := tps |}.

(** the source's constants are the ones the property names: 2 * count tokens per 3600 s, cap 2 * count *)
Theorem C20_constants_canonical : consts_canonical c20_consts = true.
Proof. vm_compute. reflexivity. Qed.
Print Assumptions C20_constants_canonical.

Theorem C20_constants_ok : consts_okb c20_consts = true.
Proof. vm_compute. reflexivity. Qed.
Print Assumptions C20_constants_ok.

Theorem C20_params_ok : forall tps, 0 < tps -> params_ok (P20 tps).
Proof. intros tps H. exact (consts_ok_params c20_consts tps C20_constants_ok H). Qed.
Print Assumptions C20_params_ok.

(** every POST /instance/<app>?count=k of an evaluation: the monitor is configured and not suspended,
    1 <= k <= missing, k <= floor(available after this evaluation's refill), in fact k = min of the two,
    and 0 <= available <= 2 * count *)
Theorem C20_create_bounded : forall tps s res n k r, 0 < tps -> state_inv (P20 tps) s ->
  In (n, ACreate k r) (actions_of (P20 tps) s res) ->
  exists c, active s n c /\ r = res_of res n /\
            1 <= k /\ k <= missing s n c /\ k <= whole_tokens (P20 tps) s c /\
            k = Z.min (missing s n c) (whole_tokens (P20 tps) s c) /\
            k * scale (P20 tps) <= m_tok (refill (P20 tps) (st_clock s) c) /\
            0 <= m_tok (refill (P20 tps) (st_clock s) c) <= cap (P20 tps) c.
Proof. intros tps s res n k r Ht Hinv Hin. exact (create_bounded (P20 tps) s res n k r (C20_params_ok tps Ht) Hinv Hin). Qed.
Print Assumptions C20_create_bounded.

(** convergence step: an active monitor with instances missing asks for exactly min(missing, floor(available))
    when that is positive, issues nothing when no whole token is left, and nothing when at the target *)
Theorem C20_create_complete : forall tps s res n c, 0 < tps -> state_inv (P20 tps) s -> active s n c ->
  (0 < missing s n c -> 1 <= whole_tokens (P20 tps) s c ->
   In (n, ACreate (Z.min (missing s n c) (whole_tokens (P20 tps) s c)) (res_of res n)) (actions_of (P20 tps) s res)) /\
  (0 < missing s n c -> whole_tokens (P20 tps) s c <= 0 -> forall a, ~ In (n, a) (actions_of (P20 tps) s res)) /\
  (missing s n c = 0 -> forall a, ~ In (n, a) (actions_of (P20 tps) s res)).
Proof. intros tps s res n c Ht Hinv Ha. exact (create_complete (P20 tps) s res n c (C20_params_ok tps Ht) Hinv Ha). Qed.
Print Assumptions C20_create_complete.

(** every bulk delete of an evaluation removes exactly the surplus: the first (fifo / no policy) or the last
    (lifo) [current - count] entries of the instance list, leaving [count] *)
Theorem C20_delete_exact : forall tps s res n ids ok, 0 < tps -> state_inv (P20 tps) s ->
  In (n, ADelete ids ok) (actions_of (P20 tps) s res) ->
  exists c, active s n c /\ ok = is_success (res_of res n) /\ missing s n c < 0 /\
            zlen ids = - missing s n c /\
            (((m_policy c = PNone \/ m_policy c = PFifo) /\
              exists kept, insts_of (st_scheduled s) n = ids ++ kept /\ zlen kept = m_count c) \/
             (m_policy c = PLifo /\
              exists kept, insts_of (st_scheduled s) n = kept ++ ids /\ zlen kept = m_count c)).
Proof. intros tps s res n ids ok Ht Hinv Hin. exact (delete_exact (P20 tps) s res n ids ok (C20_params_ok tps Ht) Hinv Hin). Qed.
Print Assumptions C20_delete_exact.

(** a surplus under a valid policy is deleted in the same evaluation; under any other policy value nothing happens *)
Theorem C20_delete_complete : forall tps s res n c, 0 < tps -> state_inv (P20 tps) s -> active s n c ->
  missing s n c < 0 ->
  (valid_policy (m_policy c) ->
   exists ids, In (n, ADelete ids (is_success (res_of res n))) (actions_of (P20 tps) s res)) /\
  (m_policy c = POther -> forall a, ~ In (n, a) (actions_of (P20 tps) s res)).
Proof. intros tps s res n c Ht Hinv Ha Hm. exact (delete_complete (P20 tps) s res n c (C20_params_ok tps Ht) Hinv Ha Hm). Qed.
Print Assumptions C20_delete_complete.

(** on the age-sorted instance list: fifo deletes only instances older than every one kept, lifo only newer *)
Theorem C20_delete_oldest_or_newest : forall tps s res n ids ok, 0 < tps -> state_inv (P20 tps) s ->
  StronglySorted Z.lt (insts_of (st_scheduled s) n) ->
  In (n, ADelete ids ok) (actions_of (P20 tps) s res) ->
  exists c kept, lookup (st_monitors s) n = Some c /\ zlen kept = m_count c /\
    (forall x, In x (insts_of (st_scheduled s) n) <-> In x ids \/ In x kept) /\
    ((m_policy c = PNone \/ m_policy c = PFifo) -> forall x y, In x ids -> In y kept -> x < y) /\
    (m_policy c = PLifo -> forall x y, In x ids -> In y kept -> y < x).
Proof.
  intros tps s res n ids ok Ht Hinv Hs Hin.
  exact (delete_order (P20 tps) s res n ids ok (C20_params_ok tps Ht) Hinv Hs Hin).
Qed.
Print Assumptions C20_delete_oldest_or_newest.

(** at most one REST call per application and evaluation; in particular never a create and a delete *)
Theorem C20_one_call_per_app : forall tps s res, state_inv (P20 tps) s -> NoDup (keys (actions_of (P20 tps) s res)).
Proof. intros tps s res Hinv. exact (one_action_per_app (P20 tps) s res Hinv). Qed.
Print Assumptions C20_one_call_per_app.

Theorem C20_never_create_and_delete : forall tps s res n k r ids ok, state_inv (P20 tps) s ->
  In (n, ACreate k r) (actions_of (P20 tps) s res) -> In (n, ADelete ids ok) (actions_of (P20 tps) s res) -> False.
Proof. intros tps s res n k r ids ok Hinv H1 H2. exact (never_create_and_delete (P20 tps) s res n k r ids ok Hinv H1 H2). Qed.
Print Assumptions C20_never_create_and_delete.

(** a suspended monitor and an application without monitor: no REST call, configuration and tokens untouched *)
Theorem C20_inactive_no_action : forall tps s res n, state_inv (P20 tps) s ->
  (lookup (st_monitors s) n = None \/ is_susp (st_suspended s) n (st_clock s) = true) ->
  (forall a, ~ In (n, a) (actions_of (P20 tps) s res)) /\
  lookup (st_monitors (after (P20 tps) s res)) n = lookup (st_monitors s) n.
Proof. intros tps s res n Hinv Hc. exact (inactive_no_action (P20 tps) s res n Hinv Hc). Qed.
Print Assumptions C20_inactive_no_action.

(** tokens are deducted for successfully created instances only, and stay within [0, 2 * count] *)
Theorem C20_tokens_after : forall tps s res n c, 0 < tps -> state_inv (P20 tps) s -> active s n c ->
  exists c', lookup (st_monitors (after (P20 tps) s res)) n = Some c' /\
             m_count c' = m_count c /\ m_policy c' = m_policy c /\ m_last c' = st_clock s /\
             m_tok c' = m_tok (refill (P20 tps) (st_clock s) c)
                        - scale (P20 tps) * created_in n (actions_of (P20 tps) s res) /\
             0 <= m_tok c' <= cap (P20 tps) c.
Proof. intros tps s res n c Ht Hinv Ha. exact (tokens_after (P20 tps) s res n c (C20_params_ok tps Ht) Hinv Ha). Qed.
Print Assumptions C20_tokens_after.

(** histories: from the initial state, any sequence of clock advances (>= 0), (re)configurations (count >= 0),
    removals, instance-list changes and evaluations with arbitrary REST outcomes keeps every monitor's bucket
    within 0 <= available <= 2 * count (so every theorem above applies at every evaluation of every history) *)
Theorem C20_invariant : forall tps clock0 w0 evs, 0 < tps -> 0 <= clock0 -> Forall event_ok evs ->
  state_inv (P20 tps) (fst (run (P20 tps) (init_state clock0 w0) evs)).
Proof.
  intros tps clock0 w0 evs Ht Hc Hev.
  exact (run_inv (P20 tps) evs (C20_params_ok tps Ht) (init_state clock0 w0) (init_state_inv (P20 tps) clock0 w0 Hc) Hev).
Qed.
Print Assumptions C20_invariant.

Theorem C20_invariant_step : forall tps s evs, 0 < tps -> state_inv (P20 tps) s -> Forall event_ok evs ->
  state_inv (P20 tps) (fst (run (P20 tps) s evs)).
Proof. intros tps s evs Ht Hinv Hev. exact (run_inv (P20 tps) evs (C20_params_ok tps Ht) s Hinv Hev). Qed.
Print Assumptions C20_invariant_step.

(** the budget over histories: while monitor [name] is not reconfigured or removed, the instances successfully
    created for it over ANY event sequence are bounded by the tokens it had plus 2 * count per 3600 s of elapsed
    time:  created <= available(t0) + (2 * count / 3600) * (t1 - t0), multiplied through by 3600 * tps *)
Theorem C20_budget : forall tps name evs s c, 0 < tps -> state_inv (P20 tps) s -> Forall event_ok evs ->
  forallb (no_reconf name) evs = true -> lookup (st_monitors s) name = Some c ->
  3600 * tps * created name (snd (run (P20 tps) s evs))
    <= m_tok c + 2 * m_count c * (st_clock (fst (run (P20 tps) s evs)) - m_last c).
Proof.
  intros tps name evs s c Ht Hinv Hev Hnr Hc.
  exact (run_budget_hourly c20_consts tps name evs s c C20_constants_canonical Ht Hinv Hev Hnr Hc).
Qed.
Print Assumptions C20_budget.

(** sharper, with what is left: spent + left <= had + accrued between the two refills *)
Theorem C20_budget_exact : forall tps name evs s c, 0 < tps -> state_inv (P20 tps) s -> Forall event_ok evs ->
  forallb (no_reconf name) evs = true -> lookup (st_monitors s) name = Some c ->
  exists c', lookup (st_monitors (fst (run (P20 tps) s evs))) name = Some c' /\ m_count c' = m_count c /\
             m_last c <= m_last c' /\
             scale (P20 tps) * created name (snd (run (P20 tps) s evs)) + m_tok c'
               <= m_tok c + k_rate c20_consts * m_count c * (m_last c' - m_last c).
Proof.
  intros tps name evs s c Ht Hinv Hev Hnr Hc.
  exact (run_budget (P20 tps) name evs (C20_params_ok tps Ht) s c Hinv Hev Hnr Hc).
Qed.
Print Assumptions C20_budget_exact.

(** a removed (or never configured) monitor causes no action until it is configured again *)
Theorem C20_removed_no_action : forall tps name evs s, 0 < tps -> state_inv (P20 tps) s -> Forall event_ok evs ->
  forallb (no_configure name) evs = true -> lookup (st_monitors s) name = None ->
  lookup (st_monitors (fst (run (P20 tps) s evs))) name = None /\
  Forall (no_action_for name) (snd (run (P20 tps) s evs)).
Proof.
  intros tps name evs s Ht Hinv Hev Hnc Hc.
  exact (run_absent (P20 tps) name evs (C20_params_ok tps Ht) s Hinv Hev Hnc Hc).
Qed.
Print Assumptions C20_removed_no_action.

(** * Non-vacuity: a concrete history (1 tick = 1 s) that exercises every branch the theorems speak about *)
Definition ex_events : list event :=
  [ EConfigure 1 3 PLifo; EConfigure 2 2 PNone;
    EScheduled [(2, [10; 11; 12; 13])];
    EAdvance 1;   EEval [];                              (* app 1: create 3; app 2: delete [10; 11] (fifo) *)
    EScheduled [(1, [20; 21; 22; 23; 24]); (2, [12; 13])];
    EAdvance 1;   EEval [];                              (* app 1: delete [23; 24] (lifo) *)
    EScheduled [(2, [12; 13])];
    EAdvance 1;   EEval [(1, RNotFound)];                (* app 1: create 3 asked, not found: suspended, no deduction *)
    EAdvance 10;  EEval [];                              (* app 1 suspended: nothing *)
    EAdvance 300; EEval [];                              (* app 1 active again: create 3, tokens 0 and a bit *)
    EAdvance 1;   EEval [];                              (* app 1: rate limited *)
    EAdvance 600; EEval [];                              (* one token accrued: create 1 *)
    ERemove 1;
    EAdvance 5;   EEval [] ].                            (* no monitor: nothing *)

Definition ex_acts := map eo_actions (snd (run (P20 1) (init_state 1000 []) ex_events)).

Example C20_nonvacuous :
  ex_acts =
    [ [(1, ACreate 3 RSuccess); (2, ADelete [10; 11] true)];
      [(1, ADelete [23; 24] true)];
      [(1, ACreate 3 RNotFound)];
      [];
      [(1, ACreate 3 RSuccess)];
      [];
      [(1, ACreate 1 RSuccess)];
      [] ] /\
  created 1 (snd (run (P20 1) (init_state 1000 []) ex_events)) = 7 /\
  (* the hypotheses of C20_budget hold for monitor 2 from the state reached after the two configurations *)
  forallb (no_reconf 2) (skipn 2 ex_events) = true /\
  lookup (st_monitors (fst (run (P20 1) (init_state 1000 []) (firstn 2 ex_events)))) 2
    = Some {| m_count := 2; m_tok := 14400; m_last := 1000; m_policy := PNone |} /\
  Forall event_ok ex_events.
Proof. split; [vm_compute; reflexivity|]. split; [vm_compute; reflexivity|]. split; [vm_compute; reflexivity|].
  split; [vm_compute; reflexivity|]. repeat constructor; cbn; discriminate. Qed.

(** the hypothesis [no_reconf] of C20_budget is needed: rewriting the monitor node (even with the same count)
    installs a full bucket, so a history with reconfigurations is bounded per configuration only *)
Definition ex_reset : list event :=
  [ EConfigure 1 3 PNone; EAdvance 1; EEval []; EEval []; EConfigure 1 3 PNone; EEval []; EEval []; EEval [] ].
Example C20_reconfigure_refills :
  let r := run (P20 1) (init_state 1000 []) ex_reset in
  created 1 (snd r) = 12 /\ st_clock (fst r) = 1001.
Proof. vm_compute. split; reflexivity. Qed.

(** the functions named by this property's anchors still have the statement skeleton the model was written from
    (re-extracted from the Python AST on every run, harness/tables_shape.py + harness/shape_pins.json; kept last so that
    a difference does not stop the theorems above from being checked) *)
Theorem C20_source_shape : shapes_ok_C20 = true.
Proof. vm_compute. reflexivity. Qed.
Print Assumptions C20_source_shape.
