(** C18  Archiving trace history never loses or prematurely archives events.

    Model: [TM.Trace.Archive] (cleanup_trace / cleanup_finished / cleanup_server_trace /
    _zk.upload_batch / _zk.cleanup / _zk.download_batch as ordered lists of ZooKeeper writes).
    [trace_cut b now expires sched s k] is the store after cleanup_trace stopped after k writes
    (k >= number of writes: the complete run).  All statements are for ALL stores (any shard
    population), ALL batch sizes / clocks and EVERY cut k. *)
From Coq Require Import ZArith List Bool.
From TM Require Import Trace.Archive Trace.ArchiveP.
From TM Require Import Base.ShapeCanon.
Import ListNotations.
Open Scope Z_scope.

(** every event live beforehand is, after any number of writes, still live or in some snapshot *)
Theorem C18_lossless : forall (s : tstore) b now expires sched k e,
  keys_unique e_key s = true -> In e (live s) ->
  In e (live (trace_cut b now expires sched s k)) \/ archived trow_of (trace_cut b now expires sched s k) e.
Proof. intros s b now expires sched k e Hk He. exact (thm_trace_lossless s b now expires sched k e Hk He). Qed.
Print Assumptions C18_lossless.

(** ... and an event that is no longer live is returned by download_batch for its instance *)
Theorem C18_retrievable : forall (s : tstore) b now expires sched k e,
  keys_unique e_key s = true -> In e (live s) ->
  In e (live (trace_cut b now expires sched s k)) \/
  exists n rows, In (n, rows) (hist (trace_cut b now expires sched s k)) /\ In (e_key e) (download rows (e_inst e)).
Proof. intros s b now expires sched k e Hk He. exact (thm_trace_retrievable s b now expires sched k e Hk He). Qed.
Print Assumptions C18_retrievable.

(** events of scheduled instances and events not older than the expiry stay live at every cut; every
    snapshot that appears is new (sequence number >= the old counter), holds exactly batch_size rows, each
    the row of an event that was live, unscheduled and older than the expiry; old snapshots are unchanged;
    no live node appears *)
Theorem C18_selection : forall (s : tstore) b now expires sched k,
  keys_unique e_key s = true ->
  (forall e, In e (live s) -> is_scheduled sched e = true \/ now - expires <= e_ts e ->
             In e (live (trace_cut b now expires sched s k))) /\
  (forall h, In h (hist (trace_cut b now expires sched s k)) ->
     In h (hist s) \/
     (seq s <= fst h /\ length (snd h) = b /\
      forall r, In r (snd h) -> exists e, In e (live s) /\ r = trow_of e /\
                                          is_scheduled sched e = false /\ e_ts e < now - expires)) /\
  (forall h, In h (hist s) -> In h (hist (trace_cut b now expires sched s k))) /\
  (forall e, In e (live (trace_cut b now expires sched s k)) -> In e (live s)).
Proof. intros s b now expires sched k Hk. exact (thm_trace_selection s b now expires sched k Hk). Qed.
Print Assumptions C18_selection.

(** partial batches are untouched: of the expired unscheduled events sorted by (timestamp, shard, name)
    the first (n / b) * b are archived by the complete run, the remaining n mod b < b -- the newest --
    stay live at every cut *)
Theorem C18_partial_batch : forall (s : tstore) b now expires sched,
  (0 < b)%nat -> keys_unique e_key s = true ->
  (length (leftover b (trace_candidates now expires sched s)) < b)%nat /\
  length (archived_part b (trace_candidates now expires sched s))
    = (length (trace_candidates now expires sched s) / b * b)%nat /\
  (forall k e, In e (leftover b (trace_candidates now expires sched s)) ->
               In e (live (trace_cut b now expires sched s k))) /\
  (forall a c, In a (archived_part b (trace_candidates now expires sched s)) ->
               In c (leftover b (trace_candidates now expires sched s)) -> ev_leb a c = true) /\
  (forall e, In e (live (trace_done b now expires sched s)) <->
             In e (live s) /\ ~ In e (archived_part b (trace_candidates now expires sched s))) /\
  (forall e, In e (archived_part b (trace_candidates now expires sched s)) ->
             archived trow_of (trace_done b now expires sched s) e).
Proof. intros s b now expires sched Hb Hk. exact (thm_trace_partial s b now expires sched Hb Hk). Qed.
Print Assumptions C18_partial_batch.

(** finished records: lossless at every cut *)
Theorem C18_lossless_finished : forall (s : fstore) b now expires k f,
  keys_unique f_inst s = true -> In f (live s) ->
  In f (live (fin_cut b now expires s k)) \/ archived fin_row (fin_cut b now expires s k) f.
Proof. intros s b now expires k f Hk Hf. exact (thm_fin_lossless s b now expires k f Hk Hf). Qed.
Print Assumptions C18_lossless_finished.

(** finished records: young records and the partial batch stay; new snapshots hold batch_size expired records
    (with their data); old snapshots unchanged *)
Theorem C18_selection_finished : forall (s : fstore) b now expires k,
  keys_unique f_inst s = true ->
  (forall f, In f (live s) -> now - expires <= f_mtime f -> In f (live (fin_cut b now expires s k))) /\
  (forall h, In h (hist (fin_cut b now expires s k)) ->
     In h (hist s) \/
     (seq s <= fst h /\ length (snd h) = b /\ forall r, In r (snd h) -> In r (live s) /\ f_mtime r < now - expires)) /\
  (forall h, In h (hist s) -> In h (hist (fin_cut b now expires s k))) /\
  (forall f, In f (leftover b (fin_candidates now expires s)) -> In f (live (fin_cut b now expires s k))) /\
  ((0 < b)%nat -> (length (leftover b (fin_candidates now expires s)) < b)%nat).
Proof. intros s b now expires k Hk. exact (thm_fin_selection s b now expires k Hk). Qed.
Print Assumptions C18_selection_finished.

(** pruning (any directory, any cut): live nodes and the sequence counter are untouched, no snapshot appears,
    and every snapshot with fewer than max_count greater names -- the newest -- is kept *)
Theorem C18_prune : forall (A R : Type) (key : A -> Z) (row_of : A -> R) (s : store A R) maxc k,
  live (cut key row_of s (prune_writes maxc s) k) = live s /\
  seq (cut key row_of s (prune_writes maxc s) k) = seq s /\
  (forall h, In h (hist (cut key row_of s (prune_writes maxc s) k)) -> In h (hist s)) /\
  (nodupb (map fst (hist s)) = true -> forall h, In h (hist s) ->
     Z.of_nat (count_gt (fst h) (map fst (hist s))) < maxc ->
     In h (hist (cut key row_of s (prune_writes maxc s) k))).
Proof. intros A R key row_of s maxc k. exact (thm_prune_cut key row_of s maxc k). Qed.
Print Assumptions C18_prune.

(** the complete pruning run keeps exactly the max_count greatest names *)
Theorem C18_prune_complete : forall (A R : Type) (key : A -> Z) (row_of : A -> R) (s : store A R) maxc h,
  nodupb (map fst (hist s)) = true ->
  (In h (hist (apply_writes key row_of s (prune_writes maxc s))) <->
   In h (hist s) /\ Z.of_nat (count_gt (fst h) (map fst (hist s))) < maxc).
Proof. intros A R key row_of s maxc h Hnd. exact (thm_prune_complete key row_of s maxc h Hnd). Qed.
Print Assumptions C18_prune_complete.

(** download_batch returns an archived event for its instance, and only rows of the requested instance *)
Theorem C18_download : forall (s : tstore) e,
  archived trow_of s e ->
  exists n rows, In (n, rows) (hist s) /\ In (e_key e) (download rows (e_inst e)) /\
                 forall i k, In k (download rows i) -> exists r, In r rows /\ r_inst r = i /\ r_key r = k.
Proof. intros s e H. exact (thm_download s e H). Qed.
Print Assumptions C18_download.

(** server trace: the loop terminates (batch_size >= 1), is lossless at every cut, uploads full batches only
    and leaves fewer than batch_size events *)
Theorem C18_server : forall (s : tstore) b W,
  keys_unique e_key s = true -> cleanup_server_trace_writes b s = Some W ->
  (forall k e, In e (live s) ->
     In e (live (cut e_key trow_of s W k)) \/ archived trow_of (cut e_key trow_of s W k) e) /\
  (forall k h, In h (hist (cut e_key trow_of s W k)) -> In h (hist s) \/ (seq s <= fst h /\ length (snd h) = b)) /\
  (length (live (apply_writes e_key trow_of s W)) < b)%nat.
Proof. intros s b W Hk HW. exact (thm_server s b W Hk HW). Qed.
Print Assumptions C18_server.

Theorem C18_server_terminates : forall (s : tstore) b,
  (0 < b)%nat -> cleanup_server_trace_writes b s <> None.
Proof. intros s b Hb. exact (thm_server_terminates s b Hb). Qed.
Print Assumptions C18_server_terminates.

(** observation: the archived trace row never carries the node's payload (data = None); finished rows do *)
Theorem C18_payload_not_archived : forall e : event, r_data (trow_of e) = None.
Proof. intros e. exact eq_refl. Qed.
Print Assumptions C18_payload_not_archived.

(** non-vacuity: two instances (7 scheduled, 8 finished), events around the boundary now - expires = 100,
    batch size 2: events 1,2 of instance 8 are archived, event 3 (partial batch) and the boundary event 4 stay,
    the expired event 5 of the scheduled instance stays; a stop after 2 writes leaves event 1 in the snapshot
    only and event 2 both live and archived. *)
Definition ex_ev (inst ts key : Z) : event := {| e_shard := 12; e_inst := inst; e_ts := ts; e_key := key; e_data := 5 |}.
Definition ex_s : tstore :=
  {| live := [ex_ev 8 90 1; ex_ev 8 95 2; ex_ev 8 99 3; ex_ev 8 100 4; ex_ev 7 50 5]; hist := []; seq := 3 |}.
Example C18_nonvacuous :
  keys_unique e_key ex_s = true /\
  map e_key (live (trace_done 2 160 60 [7] ex_s)) = [3; 4; 5] /\
  hist (trace_done 2 160 60 [7] ex_s) = [(3, [trow_of (ex_ev 8 90 1); trow_of (ex_ev 8 95 2)])] /\
  map e_key (live (trace_cut 2 160 60 [7] ex_s 2)) = [2; 3; 4; 5] /\
  length (cleanup_trace_writes 2 160 60 [7] ex_s) = 3%nat /\
  download [trow_of (ex_ev 8 90 1); trow_of (ex_ev 8 95 2)] 8 = [1; 2] /\
  map fst (hist (apply_writes e_key trow_of {| live := []; hist := [(4, []); (9, []); (5, [])]; seq := 10 |}
                              (prune_writes 2 {| live := @nil event; hist := [(4, @nil trow); (9, []); (5, [])]; seq := 10 |})))
    = [9; 5] /\
  cleanup_server_trace_writes 2 ex_s <> None.
Proof. vm_compute. repeat split; discriminate. Qed.

(** the functions named by this property's anchors still have the statement skeleton the model was written from
    (re-extracted from the Python AST on every run, harness/tables_shape.py + harness/shape_pins.json; kept last so that
    a difference does not stop the theorems above from being checked) *)
Theorem C18_source_shape : shapes_ok_C18 = true.
Proof. vm_compute. reflexivity. Qed.
Print Assumptions C18_source_shape.
