(** C03  Placements honour partition, traits, server state and lease lifetime.

    Proved on the model:
      C03_new_assignment        for every reachable state (any history of the operation alphabet) and the cycle run from
                                it: if an instance ends the cycle on a server other than the one it started on, that
                                server is up and - measured on the state before the cycle - carries the partition label
                                of the instance's allocation, offers every trait of the instance and of its allocation,
                                and (non-zero lease) is not due for reboot before now + lease
                                (Sched/TurnP.v per-turn specification of the placement loop incl. the eviction scan,
                                the restore of an eviction and the renewal paths; Sched/CycleP.v; Sched/Reach.v);
      C03_cycle_spec            the same for one cycle from any state satisfying the invariants;
      C03_every_put_is_guarded / C03_put_guard   whatever puts an instance on a server goes through Server.put, whose
                                guard establishes label, traits, lifetime, room and server-level affinity head-room;
      C03_fresh_put_only_up / C03_eviction_only_up   a fresh placement walk and the eviction scan leave every server
                                that is not up exactly as it was;
      C03_cycle_is_guarded_steps   a whole cycle is a sequence of primitive transitions whose only placing one is the
                                guarded put.
    Refuted for the "after every cycle" half on the code as it is (known finding, kept because repairing it would
    contradict C07/C08 as stated):
      C03_after_refuted         an instance re-assigned to an allocation of another partition keeps its old server. *)
From Coq Require Import ZArith QArith List Bool Relations.
From TM Require Import Sched.Vec Sched.Types Sched.Queue Sched.Tree Sched.Cycle Sched.Events Sched.MapsP Sched.Steps Sched.FrameP
                       Sched.InvAcct Sched.InvIdent Sched.TurnP Sched.CycleP Sched.Reach.
From TM Require Import Base.ShapeCanon.
Import ListNotations.
Open Scope Z_scope.

Theorem C03_put_guard : forall c s a lease, put_guard c s a lease = true ->
  (forall l, app_label a = Some l -> l = s_label s) /\
  (app_traits c a = 0 \/ has_traits (s_traits s) (app_traits c a) = true) /\
  (lease = 0 \/ c_now c + lease < s_valid_until s) /\
  under_limit (cget (a_aff a) (s_counters s)) (aff_limit a LEVEL_SERVER) = true /\
  any_gt (a_demand a) (s_free s) = false /\
  a_server a = None /\ ~ In (a_name a) (s_apps s).
Proof. exact put_guard_spec. Qed.
Print Assumptions C03_put_guard.

Theorem C03_fresh_put_only_up : forall fuel c b an n s,
  get_srv n (c_servers c) = Some s -> s_state s <> Up ->
  get_srv n (c_servers (fst (bucket_put fuel c b an))) = Some s.
Proof. intros fuel c b an n s H1 H2. exact (bucket_put_nonup fuel c b an n s H1 H2). Qed.
Print Assumptions C03_fresh_put_only_up.

Theorem C03_eviction_only_up : forall victims placer c ev n s,
  get_srv n (c_servers c) = Some s -> s_state s <> Up ->
  get_srv n (c_servers (fst (evict_scan victims placer c ev))) = Some s.
Proof. intros victims placer c ev n s H1 H2. exact (evict_scan_nonup victims placer c ev n s H1 H2). Qed.
Print Assumptions C03_eviction_only_up.

Theorem C03_cycle_is_guarded_steps : forall c choices, psteps c (fst (fst (schedule c choices))).
Proof. exact schedule_ps. Qed.
Print Assumptions C03_cycle_is_guarded_steps.

Theorem C03_new_assignment : forall c ch x a a' n, reachable c ->
  get_app x (c_apps c) = Some a -> get_app x (c_apps (step c (OSchedule ch))) = Some a' ->
  a_server a' = Some n -> a_server a <> Some n ->
  exists s, get_srv n (c_servers c) = Some s /\ s_state s = Up /\
            (forall l, app_label a = Some l -> l = s_label s) /\
            (app_traits c a = 0 \/ has_traits (s_traits s) (app_traits c a) = true) /\
            (a_lease a = 0 \/ c_now c + a_lease a < s_valid_until s).
Proof. intros c ch x a a' n Hr. exact (new_assignment c ch (reachable_Good c Hr) x a a' n). Qed.
Print Assumptions C03_new_assignment.

Theorem C03_cycle_spec : forall c ch, Acct c -> Ident c -> parts_wf c ->
  forall x a, In x (part_apps (c_parts c)) -> get_app x (c_apps c) = Some a -> (a_server a <> None -> has_id a) ->
  exists a', get_app x (c_apps (fst (fst (schedule c ch)))) = Some a' /\
    forall n, a_server a' = Some n -> a_server a <> Some n ->
      exists s, get_srv n (c_servers c) = Some s /\ s_state s = Up /\ guard_facts c s a.
Proof.
  intros c ch HA HI Hwf x a Hin Ha Hid.
  destruct (schedule_final c ch HA HI Hwf x a Hin Ha Hid) as (a' & Ha' & (_ & _ & _ & H4)).
  exists a'. split; [exact Ha'|exact H4].
Qed.
Print Assumptions C03_cycle_spec.

(** the code as it is: instance 1 is placed in partition 4000, then assigned to an allocation of partition 4001 *)
Definition ex_a (n o : Z) : app :=
  mkApp n 1 [10;10;10] 3000 [] 0 0 None None false o None None None None false false false false (-1).
Definition ex_ops : list op :=
  [ OAddBucket 2001 3 2000; OAddServer 1000 2001 [100;100;100] 4000 0 0; OAddServer 1001 2001 [100;100;100] 4001 0 0;
    OAddApp 4000 [] (ex_a 1 1); OSchedule []; OAddApp 4001 [] (ex_a 1 1); OSchedule [] ].
Theorem C03_after_refuted :
  let c := run (init_cell 3 2000 1) ex_ops in
  exists a s, get_app 1 (c_apps c) = Some a /\ a_server a = Some 1000 /\ get_srv 1000 (c_servers c) = Some s /\
              app_label a = Some 4001 /\ s_label s = 4000.
Proof. vm_compute. eexists. eexists. repeat split; reflexivity. Qed.
Print Assumptions C03_after_refuted.

Example C03_nonvacuous :
  exists s a, get_srv 1000 (c_servers (run (init_cell 3 2000 1) (firstn 4 ex_ops))) = Some s /\
              get_app 1 (c_apps (run (init_cell 3 2000 1) (firstn 4 ex_ops))) = Some a /\
              put_guard (run (init_cell 3 2000 1) (firstn 4 ex_ops)) s a 0 = true.
Proof. vm_compute. eexists. eexists. repeat split; reflexivity. Qed.

(** non-vacuity of C03_new_assignment: in the refutation history the first cycle assigns instance 1 (pending before)
    to server 1000 from a reachable state *)
Example C03_new_assignment_nonvacuous :
  let c := run (init_cell 3 2000 1) (firstn 4 ex_ops) in
  reachable c /\ option_map a_server (get_app 1 (c_apps c)) = Some None /\
  option_map a_server (get_app 1 (c_apps (step c (OSchedule [])))) = Some (Some 1000).
Proof.
  split; [exists 3%nat, 2000, 1, (firstn 4 ex_ops); split; [apply wf_ops_allb_sound; vm_compute; reflexivity|reflexivity]|].
  vm_compute. split; reflexivity.
Qed.

(** the functions of treadmill/scheduler/__init__.py these theorems were proved about still have the statement
    skeleton the model was written from (re-extracted from the Python AST on every run, harness/tables_shape.py;
    kept last so that a difference does not stop the theorems above from being checked) *)
Theorem C03_source_shape : shapes_ok_C03 = true.
Proof. vm_compute. reflexivity. Qed.
Print Assumptions C03_source_shape.
