(** C03  Placements honour partition, traits, server state and lease lifetime.

    Proved on the model (Sched/FrameP.v, Sched/Steps.v), for every cell state:
      C03_every_put_is_guarded  whatever puts an instance on a server (fresh placement, eviction path, restore) goes
                                through Server.put, whose guard establishes: same partition label, all traits of the
                                instance and of its allocation offered, (for a non-zero lease) now + lease < reboot
                                time, room in every dimension and server-level affinity head-room (C03_put_guard);
      C03_fresh_put_only_up / C03_eviction_only_up   a fresh placement walk and the eviction scan leave every server
                                that is not up exactly as it was (so an assignment to a new server is to an up server);
      C03_cycle_is_guarded_steps   a whole cycle is a sequence of primitive transitions whose only placing one is the
                                guarded put.
    Refuted for the "after every cycle" half on the code as it is (known finding, kept because repairing it would
    contradict C07/C08 as stated):
      C03_after_refuted         an instance re-assigned to an allocation of another partition keeps its old server.
    Partial: the link "server after <> server before => that put was a fresh or eviction put" is decided by the
    correspondence (placement tuples are in every cycle digest) and the C03 oracle on (instance, before, after). *)
From Coq Require Import ZArith QArith List Bool Relations.
From TM Require Import Sched.Vec Sched.Types Sched.Tree Sched.Cycle Sched.Events Sched.MapsP Sched.Steps Sched.FrameP.
Import ListNotations.
Open Scope Z_scope.

Theorem C03_put_guard : forall c s a lease, put_guard c s a lease = true ->
  (forall l, app_label a = Some l -> l = s_label s) /\
  (app_traits c a = 0 \/ has_traits (s_traits s) (app_traits c a) = true) /\
  (lease = 0 \/ c_now c + lease < s_valid_until s) /\
  under_limit (cget (a_aff a) (s_counters s)) (aff_limit a LEVEL_SERVER) = true /\
  any_gt (a_demand a) (s_free s) = false /\
  a_server a = None /\ ~ In (a_name a) (s_apps s).
Proof. exact put_guard_spec. Qed.
Print Assumptions C03_put_guard.

Theorem C03_fresh_put_only_up : forall fuel c b an n s,
  get_srv n (c_servers c) = Some s -> s_state s <> Up ->
  get_srv n (c_servers (fst (bucket_put fuel c b an))) = Some s.
Proof. intros fuel c b an n s H1 H2. exact (bucket_put_nonup fuel c b an n s H1 H2). Qed.
Print Assumptions C03_fresh_put_only_up.

Theorem C03_eviction_only_up : forall victims placer c ev n s,
  get_srv n (c_servers c) = Some s -> s_state s <> Up ->
  get_srv n (c_servers (fst (evict_scan victims placer c ev))) = Some s.
Proof. intros victims placer c ev n s H1 H2. exact (evict_scan_nonup victims placer c ev n s H1 H2). Qed.
Print Assumptions C03_eviction_only_up.

Theorem C03_cycle_is_guarded_steps : forall c choices, psteps c (fst (fst (schedule c choices))).
Proof. exact schedule_ps. Qed.
Print Assumptions C03_cycle_is_guarded_steps.

(** the code as it is: instance 1 is placed in partition 4000, then assigned to an allocation of partition 4001 *)
Definition ex_a (n o : Z) : app :=
  mkApp n 1 [10;10;10] 3000 [] 0 0 None None false o None None None None false false false false (-1).
Definition ex_ops : list op :=
  [ OAddBucket 2001 3 2000; OAddServer 1000 2001 [100;100;100] 4000 0 0; OAddServer 1001 2001 [100;100;100] 4001 0 0;
    OAddApp 4000 [] (ex_a 1 1); OSchedule []; OAddApp 4001 [] (ex_a 1 1); OSchedule [] ].
Theorem C03_after_refuted :
  let c := run (init_cell 3 2000 1) ex_ops in
  exists a s, get_app 1 (c_apps c) = Some a /\ a_server a = Some 1000 /\ get_srv 1000 (c_servers c) = Some s /\
              app_label a = Some 4001 /\ s_label s = 4000.
Proof. vm_compute. eexists. eexists. repeat split; reflexivity. Qed.
Print Assumptions C03_after_refuted.

Example C03_nonvacuous :
  exists s a, get_srv 1000 (c_servers (run (init_cell 3 2000 1) (firstn 4 ex_ops))) = Some s /\
              get_app 1 (c_apps (run (init_cell 3 2000 1) (firstn 4 ex_ops))) = Some a /\
              put_guard (run (init_cell 3 2000 1) (firstn 4 ex_ops)) s a 0 = true.
Proof. vm_compute. eexists. eexists. repeat split; reflexivity. Qed.
