(** C19  Accepted reservations never exceed partition capacity or trait limits.

    The dataflow of _calc_free / _calc_free_traits / _check_limit is the table
    [TM.Gen.Tables.c19_tables], regenerated from the Python AST on every run. *)
From Coq Require Import ZArith List Bool.
From TM Require Import Api.Capacity Api.CapacityP Gen.Tables.
From TM Require Import Base.ShapeCanon.
Import ListNotations.
Open Scope Z_scope.

(** the source's dataflow is the one the property requires *)
Theorem C19_table_is_canonical : table_is_canonical c19_tables = true.
Proof. vm_compute. reflexivity. Qed.
Print Assumptions C19_table_is_canonical.

(** accepted <-> fits overall and every limited trait; rejected <-> does not fit; never a service failure *)
Theorem C19_sound_complete : forall p allocs old rq,
  wf_inputs p allocs rq ->
  (check_capacity c19_tables p allocs old rq = Accept <-> fits p allocs old rq) /\
  (check_capacity c19_tables p allocs old rq = Reject <-> ~ fits p allocs old rq) /\
  check_capacity c19_tables p allocs old rq <> Crash.
Proof. intros p allocs old rq H. exact (check_capacity_sound_complete c19_tables p allocs old rq C19_table_is_canonical H). Qed.
Print Assumptions C19_sound_complete.

(** any sequence of create/update requests keeps the partition within its capacity and trait limits *)
Theorem C19_sequences : forall p rqs allocs,
  wf_res (p_res p) = true -> Forall (fun l => wf_res (l_res l) = true) (p_limits p) ->
  NoDup (map l_trait (p_limits p)) ->
  Forall (fun '(_, rq) => wf_res (q_res rq) = true /\ NoDup (q_traits rq) /\ nonneg_res (q_res rq)) rqs ->
  store_wf allocs -> within p allocs ->
  within p (api_run c19_tables p allocs rqs).
Proof. intros p rqs allocs H1 H2 H3 H4 H5 H6. exact (api_run_within c19_tables p rqs allocs C19_table_is_canonical H1 H2 H3 H4 H5 H6). Qed.
Print Assumptions C19_sequences.

(** non-vacuity: a partition with a limited trait, two reservations sharing it, a request that fits and one that does not *)
Definition ex_r (c m d : Z) : res3 :=
  {| f_cpu := {| r_num := c; r_suf := SPct |};
     f_disk := {| r_num := d; r_suf := SUnit 3 false |};
     f_mem := {| r_num := m; r_suf := SUnit 3 false |} |}.
Definition ex_p := {| p_res := ex_r 1000 100 100; p_limits := [{| l_trait := 7; l_res := ex_r 300 10 10 |}] |}.
Definition ex_allocs := [ {| a_id := 1; a_res := ex_r 100 5 5; a_traits := [7] |};
                          {| a_id := 2; a_res := ex_r 100 20 20; a_traits := [] |} ].
Example C19_nonvacuous :
  wf_res (p_res ex_p) = true /\
  check_capacity c19_tables ex_p ex_allocs 3 {| q_res := ex_r 100 5 5; q_traits := [7] |} = Accept /\
  check_capacity c19_tables ex_p ex_allocs 3 {| q_res := ex_r 100 6 5; q_traits := [7] |} = Reject /\
  check_capacity c19_tables ex_p ex_allocs 1 {| q_res := ex_r 100 10 10; q_traits := [7] |} = Accept.
Proof. vm_compute. repeat split. Qed.

(** the functions named by this property's anchors still have the statement skeleton the model was written from
    (re-extracted from the Python AST on every run, harness/tables_shape.py + harness/shape_pins.json; kept last so that
    a difference does not stop the theorems above from being checked) *)
Theorem C19_source_shape : shapes_ok_C19 = true.
Proof. vm_compute. reflexivity. Qed.
Print Assumptions C19_source_shape.
