(** C19  Accepted reservations never exceed partition capacity or trait limits.

    The dataflow of _calc_free / _calc_free_traits / _check_limit is the table
    [TM.Gen.Tables.c19_tables], regenerated from the Python AST on every run. *)
From Coq Require Import ZArith List Bool.
From Coq Require Import Permutation.
From TM Require Import Api.Capacity Api.CapacityP Api.CapacityMore Gen.Tables.
From TM Require Import Base.ShapeCanon.
Import ListNotations.
Open Scope Z_scope.

(** the source's dataflow is the one the property requires *)
Theorem C19_table_is_canonical : table_is_canonical c19_tables = true.
Proof. vm_compute. reflexivity. Qed.
Print Assumptions C19_table_is_canonical.

(** accepted <-> fits overall and every limited trait; rejected <-> does not fit; never a service failure *)
Theorem C19_sound_complete : forall p allocs old rq,
  wf_inputs p allocs rq ->
  (check_capacity c19_tables p allocs old rq = Accept <-> fits p allocs old rq) /\
  (check_capacity c19_tables p allocs old rq = Reject <-> ~ fits p allocs old rq) /\
  check_capacity c19_tables p allocs old rq <> Crash.
Proof. intros p allocs old rq H. exact (check_capacity_sound_complete c19_tables p allocs old rq C19_table_is_canonical H). Qed.
Print Assumptions C19_sound_complete.

(** any sequence of create/update requests keeps the partition within its capacity and trait limits *)
Theorem C19_sequences : forall p rqs allocs,
  wf_res (p_res p) = true -> Forall (fun l => wf_res (l_res l) = true) (p_limits p) ->
  NoDup (map l_trait (p_limits p)) ->
  Forall (fun '(_, rq) => wf_res (q_res rq) = true /\ NoDup (q_traits rq) /\ nonneg_res (q_res rq)) rqs ->
  store_wf allocs -> within p allocs ->
  within p (api_run c19_tables p allocs rqs).
Proof. intros p rqs allocs H1 H2 H3 H4 H5 H6. exact (api_run_within c19_tables p rqs allocs C19_table_is_canonical H1 H2 H3 H4 H5 H6). Qed.
Print Assumptions C19_sequences.

(** non-vacuity: a partition with a limited trait, two reservations sharing it, a request that fits and one that does not *)
Definition ex_r (c m d : Z) : res3 :=
  {| f_cpu := {| r_num := c; r_suf := SPct |};
     f_disk := {| r_num := d; r_suf := SUnit 3 false |};
     f_mem := {| r_num := m; r_suf := SUnit 3 false |} |}.
Definition ex_p := {| p_res := ex_r 1000 100 100; p_limits := [{| l_trait := 7; l_res := ex_r 300 10 10 |}] |}.
Definition ex_allocs := [ {| a_id := 1; a_res := ex_r 100 5 5; a_traits := [7] |};
                          {| a_id := 2; a_res := ex_r 100 20 20; a_traits := [] |} ].
Example C19_nonvacuous :
  wf_res (p_res ex_p) = true /\
  check_capacity c19_tables ex_p ex_allocs 3 {| q_res := ex_r 100 5 5; q_traits := [7] |} = Accept /\
  check_capacity c19_tables ex_p ex_allocs 3 {| q_res := ex_r 100 6 5; q_traits := [7] |} = Reject /\
  check_capacity c19_tables ex_p ex_allocs 1 {| q_res := ex_r 100 10 10; q_traits := [7] |} = Accept.
Proof. vm_compute. repeat split. Qed.

(** the decision does not depend on the order in which the admin backend lists the other reservations *)
Theorem C19_order_irrelevant : forall p allocs allocs' old rq,
  wf_inputs p allocs rq -> Permutation allocs allocs' ->
  check_capacity c19_tables p allocs old rq = check_capacity c19_tables p allocs' old rq.
Proof. intros p allocs allocs' old rq H1 H2. exact (check_capacity_order_irrelevant c19_tables p allocs allocs' old rq C19_table_is_canonical H1 H2). Qed.
Print Assumptions C19_order_irrelevant.

(** "any unit spellings": the same quantities, however spelled, in partition, limits, reservations and request give the same decision *)
Theorem C19_spelling_irrelevant : forall p p' allocs allocs' old rq rq',
  wf_inputs p allocs rq -> wf_inputs p' allocs' rq' ->
  same_quantity (p_res p) (p_res p') ->
  Forall2 (fun l l' => l_trait l = l_trait l' /\ same_quantity (l_res l) (l_res l')) (p_limits p) (p_limits p') ->
  same_store allocs allocs' ->
  same_quantity (q_res rq) (q_res rq') -> q_traits rq = q_traits rq' ->
  check_capacity c19_tables p allocs old rq = check_capacity c19_tables p' allocs' old rq'.
Proof. intros p p' allocs allocs' old rq rq' H1 H2 H3 H4 H5 H6 H7. exact (check_capacity_spelling_irrelevant c19_tables p p' allocs allocs' old rq rq' C19_table_is_canonical H1 H2 H3 H4 H5 H6 H7). Qed.
Print Assumptions C19_spelling_irrelevant.

(** "the one being replaced excluded": whatever the replaced reservation held, the decision about its replacement is the same *)
Theorem C19_replaced_ignored : forall p a a' allocs rq,
  wf_inputs p (a :: allocs) rq -> wf_inputs p (a' :: allocs) rq -> a_id a' = a_id a ->
  check_capacity c19_tables p (a :: allocs) (a_id a) rq = check_capacity c19_tables p (a' :: allocs) (a_id a) rq.
Proof. intros p a a' allocs rq H1 H2 H3. exact (check_capacity_ignores_replaced c19_tables p a a' allocs rq C19_table_is_canonical H1 H2 H3). Qed.
Print Assumptions C19_replaced_ignored.

(** withdrawing a (non-negative) reservation never turns an acceptance into a rejection *)
Theorem C19_fewer_promises_keep_accept : forall p a allocs old rq,
  wf_inputs p (a :: allocs) rq -> nonneg_res (a_res a) ->
  check_capacity c19_tables p (a :: allocs) old rq = Accept -> check_capacity c19_tables p allocs old rq = Accept.
Proof. intros p a allocs old rq H1 H2 H3. exact (check_capacity_drop_keeps_accept c19_tables p a allocs old rq C19_table_is_canonical H1 H2 H3). Qed.
Print Assumptions C19_fewer_promises_keep_accept.

(** a request that is not accepted writes nothing; an accepted one stores exactly what was asked, replacing its own id only *)
Theorem C19_request_effect : forall p allocs id rq,
  let '(allocs', o) := api_request c19_tables p allocs id rq in
  (o <> Accept -> allocs' = allocs) /\
  (o = Accept -> allocs' = {| a_id := id; a_res := q_res rq; a_traits := q_traits rq |} :: others allocs id).
Proof. intros p allocs id rq. exact (api_request_effect c19_tables p allocs id rq). Qed.
Print Assumptions C19_request_effect.

(** non-vacuity of the metamorphic statements: a re-ordered, re-spelled store ("20G" = "20480M") is decided alike, both ways *)
Definition ex_allocs' := [ {| a_id := 2; a_res := ex_r 100 20 20; a_traits := [] |};
                           {| a_id := 1; a_res := ex_r 100 5 5; a_traits := [7] |} ].
Definition ex_rM (c m d : Z) : res3 :=
  {| f_cpu := {| r_num := c; r_suf := SNone |};
     f_disk := {| r_num := d * 1024; r_suf := SUnit 2 false |};
     f_mem := {| r_num := m * 1024 * 1024 * 1024; r_suf := SNone |} |}.
Example C19_metamorphic_nonvacuous :
  Permutation ex_allocs ex_allocs' /\
  same_quantity (ex_r 100 6 5) (ex_rM 100 6 5) /\
  check_capacity c19_tables ex_p ex_allocs' 3 {| q_res := ex_rM 100 5 5; q_traits := [7] |} = Accept /\
  check_capacity c19_tables ex_p ex_allocs' 3 {| q_res := ex_rM 100 6 5; q_traits := [7] |} = Reject.
Proof. split; [apply perm_swap|]. vm_compute. repeat split. Qed.

(** the functions named by this property's anchors still have the statement skeleton the model was written from
    (re-extracted from the Python AST on every run, harness/tables_shape.py + harness/shape_pins.json; kept last so that
    a difference does not stop the theorems above from being checked) *)
Theorem C19_source_shape : shapes_ok_C19 = true.
Proof. vm_compute. reflexivity. Qed.
Print Assumptions C19_source_shape.
