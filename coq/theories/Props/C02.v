(** C02  An instance that fits an eligible up server is not left pending.

    Proved on the model (Sched/PutComplete.v, Sched/InvAgg.v - built by a sub-agent -, Sched/PutTurn.v):
      C02_aggregates_never_hide in EVERY reachable state (any history of the operation alphabet: servers and buckets added,
                                moved, removed, going down / frozen / up, every path of a cycle) the tree is well formed
                                and no stored aggregate hides an up server: every bucket above an up server stores a
                                free vector >= the server's, contains its partition label and its traits;
      C02_walk_complete         in every reachable state: if some up server passes Server.put's guard for a pending
                                instance and the affinity counters leave head-room at every bucket on the way down, the
                                placement walk from the cell root places the instance (the spread cursor visits every
                                live child whatever its value; a failed attempt in a sibling subtree only moves cursors);
      C02_turn_places           a pending instance whose turn it is in the placement loop - not blacklisted, not over
                                the cap, an identity available if it needs one, not held back by the feasibility
                                tracker - ends its turn placed whenever such a server exists at that moment;
      C02_attempt_is_local / C02_attempt_steps.
    Refuted on the code as it is (known finding), which is why C02_turn_places carries the tracker premise:
      C02_tracker_refuted       the PlacementFeasibilityTracker keys its record of failed placements on a shape that
                                omits the instance's own traits: a pending instance that needs an unavailable trait
                                makes a later trait-less instance of the same affinity, which fits an empty up server,
                                be skipped as "not feasible".
    Left to the correspondence and the quiescent-probe oracle: that in a quiescent cell the turns ahead of the probe
    leave the fitting server as it is (the statement's "a cycle changes nothing"). *)
From Coq Require Import ZArith QArith List Bool Relations.
From TM Require Import Sched.Vec Sched.Types Sched.Queue Sched.Tree Sched.Cycle Sched.Events Sched.MapsP Sched.Steps Sched.FrameP
                       Sched.InvAcct Sched.TurnP Sched.PutComplete Sched.InvAgg Sched.PutTurn.
From TM Require Import Base.ShapeCanon.
Import ListNotations.
Open Scope Z_scope.

Definition ex_a (n p o traits : Z) : app :=
  mkApp n p [10;10;10] 3000 [] traits 0 None None false o None None None None false false false false (-1).
Definition ex_ops : list op :=
  [ OAddBucket 2001 3 2000; OAddServer 1000 2001 [100;100;100] 4000 0 0;
    OAddApp 4000 [] (ex_a 1 5 1 1); OSchedule []; OSchedule [];       (* quiescent: 1 needs trait 1, stays pending *)
    OAddApp 4000 [] (ex_a 2 1 2 0); OSchedule [] ].                    (* the probe needs nothing and fits server 1000 *)
Theorem C02_tracker_refuted :
  let c := run (init_cell 3 2000 1) ex_ops in
  exists probe s, get_app 2 (c_apps c) = Some probe /\ a_server probe = None /\ a_traits probe = 0 /\
                  get_srv 1000 (c_servers c) = Some s /\ s_state s = Up /\ s_label s = 4000 /\
                  any_gt (a_demand probe) (s_free s) = false /\ s_apps s = [].
Proof. vm_compute. eexists. eexists. repeat split; reflexivity. Qed.
Print Assumptions C02_tracker_refuted.

Theorem C02_attempt_is_local : forall fuel c b an,
  (forall m, m <> an -> get_app m (c_apps (fst (bucket_put fuel c b an))) = get_app m (c_apps c)) /\
  (forall n s, get_srv n (c_servers c) = Some s -> s_state s <> Up ->
               get_srv n (c_servers (fst (bucket_put fuel c b an))) = Some s).
Proof. intros fuel c b an. exact (conj (bucket_put_others fuel c b an) (bucket_put_nonup fuel c b an)). Qed.
Print Assumptions C02_attempt_is_local.

Theorem C02_attempt_steps : forall c an, psteps c (fst (cell_put c an)).
Proof. exact cell_put_ps. Qed.
Print Assumptions C02_attempt_steps.

Theorem C02_aggregates_never_hide : forall dim root level ops,
  wf_ops (init_cell dim root level) ops -> wf_ops_agg (init_cell dim root level) ops ->
  let c := run (init_cell dim root level) ops in
  TreeWf c /\
  forall n s b, get_srv n (c_servers c) = Some s -> s_state s = Up -> anc c (s_parent s) b ->
    Forall2 Z.le (s_free s) (b_free b) /\ In (s_label s) (b_labels b) /\ has_traits (bkt_traits b) (s_traits s) = true.
Proof. intros dim root level ops H1 H2. exact (reachable_TreeWf_AggSound dim root level ops H1 H2). Qed.
Print Assumptions C02_aggregates_never_hide.

Theorem C02_walk_complete : forall dim root level ops x a s rest,
  let c := run (init_cell dim root level) ops in
  wf_ops (init_cell dim root level) ops -> wf_ops_agg (init_cell dim root level) ops ->
  get_app x (c_apps c) = Some a ->
  get_srv (s_name s) (c_servers c) = Some s -> s_state s = Up ->
  put_guard c s a (a_lease a) = true ->
  down_path c (c_root c) rest (s_name s) ->
  (forall m b, In m (c_root c :: rest) -> get_bkt m (c_buckets c) = Some b ->
               under_limit (cget (a_aff a) (b_counters b)) (aff_limit a (b_level b)) = true) ->
  snd (cell_put c x) = true.
Proof. exact reachable_put_complete. Qed.
Print Assumptions C02_walk_complete.

Theorem C02_turn_places : forall rq st x a s rest,
  TreeWf (l_cell st) -> AggSound (l_cell st) ->
  get_app x (c_apps (l_cell st)) = Some a -> a_server a = None -> a_blacklisted a = false -> a_rank a <> UNPLACED_RANK ->
  snd (acquire_identity (c_upd_app x (fun z => RecordSet.set a_renew (fun _ => false) z) (l_cell st)) x (aget x (l_choices st))) = true ->
  aget x (l_evicted st) = None -> a_once a && a_evicted a = false ->
  (forall a', stat_eq a a' -> tr_feasible (l_tracker st) a' = true) ->
  get_srv (s_name s) (c_servers (l_cell st)) = Some s -> s_state s = Up ->
  put_guard (l_cell st) s a (a_lease a) = true ->
  down_path (l_cell st) (c_root (l_cell st)) rest (s_name s) ->
  (forall m b, In m (c_root (l_cell st) :: rest) -> get_bkt m (c_buckets (l_cell st)) = Some b ->
               under_limit (cget (a_aff a) (b_counters b)) (aff_limit a (b_level b)) = true) ->
  exists a', get_app x (c_apps (l_cell (place_one rq st x))) = Some a' /\ a_server a' <> None.
Proof. exact place_one_places. Qed.
Print Assumptions C02_turn_places.

(** non-vacuity: the sub-agent's three-level example (cell > two racks > three servers; a server goes down and comes up
    again; a probe that only server 1002 under rack 2002 fits) satisfies the premises and the walk places the probe *)
Example C02_walk_complete_nonvacuous :
  wf_ops_aggb (init_cell 2 2000 3) nv_ops = true /\ fits_serverb nv_cell 3 1002 [2002] = true /\ snd (cell_put nv_cell 3) = true.
Proof. vm_compute. repeat split; reflexivity. Qed.

(** the functions of treadmill/scheduler/__init__.py these theorems were proved about still have the statement
    skeleton the model was written from (re-extracted from the Python AST on every run, harness/tables_shape.py;
    kept last so that a difference does not stop the theorems above from being checked) *)
Theorem C02_source_shape : shapes_ok_C02 = true.
Proof. vm_compute. reflexivity. Qed.
Print Assumptions C02_source_shape.
