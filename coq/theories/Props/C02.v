(** C02  An instance that fits an eligible up server is not left pending.

    Refuted on the code as it is (known finding):
      C02_tracker_refuted       the PlacementFeasibilityTracker keys its record of failed placements on a shape that
                                omits the instance's own traits: a pending instance that needs an unavailable trait
                                makes a later trait-less instance of the same affinity, which fits an empty up server,
                                be skipped as "not feasible".
    Proved on the model (Sched/FrameP.v), for every cell state:
      C02_attempt_is_local      a fresh placement attempt changes no other instance and no server that is not up;
      C02_attempt_steps         an attempt is a sequence of primitive transitions (only bucket cursors move when it fails).
    Partial: completeness of Bucket.put (the stored aggregates of racks and pods never hide a fitting server, the
    spread cursor visits every live child) is decided by the per-operation correspondence (stored free vectors, labels,
    traits, counters and cursors of every bucket are in the digest) and the C02 oracle (quiescent cell + probe, leaf
    scan of all servers). *)
From Coq Require Import ZArith QArith List Bool Relations.
From TM Require Import Sched.Vec Sched.Types Sched.Tree Sched.Cycle Sched.Events Sched.MapsP Sched.Steps Sched.FrameP.
Import ListNotations.
Open Scope Z_scope.

Definition ex_a (n p o traits : Z) : app :=
  mkApp n p [10;10;10] 3000 [] traits 0 None None false o None None None None false false false false (-1).
Definition ex_ops : list op :=
  [ OAddBucket 2001 3 2000; OAddServer 1000 2001 [100;100;100] 4000 0 0;
    OAddApp 4000 [] (ex_a 1 5 1 1); OSchedule []; OSchedule [];       (* quiescent: 1 needs trait 1, stays pending *)
    OAddApp 4000 [] (ex_a 2 1 2 0); OSchedule [] ].                    (* the probe needs nothing and fits server 1000 *)
Theorem C02_tracker_refuted :
  let c := run (init_cell 3 2000 1) ex_ops in
  exists probe s, get_app 2 (c_apps c) = Some probe /\ a_server probe = None /\ a_traits probe = 0 /\
                  get_srv 1000 (c_servers c) = Some s /\ s_state s = Up /\ s_label s = 4000 /\
                  any_gt (a_demand probe) (s_free s) = false /\ s_apps s = [].
Proof. vm_compute. eexists. eexists. repeat split; reflexivity. Qed.
Print Assumptions C02_tracker_refuted.

Theorem C02_attempt_is_local : forall fuel c b an,
  (forall m, m <> an -> get_app m (c_apps (fst (bucket_put fuel c b an))) = get_app m (c_apps c)) /\
  (forall n s, get_srv n (c_servers c) = Some s -> s_state s <> Up ->
               get_srv n (c_servers (fst (bucket_put fuel c b an))) = Some s).
Proof. intros fuel c b an. exact (conj (bucket_put_others fuel c b an) (bucket_put_nonup fuel c b an)). Qed.
Print Assumptions C02_attempt_is_local.

Theorem C02_attempt_steps : forall c an, psteps c (fst (cell_put c an)).
Proof. exact cell_put_ps. Qed.
Print Assumptions C02_attempt_steps.
