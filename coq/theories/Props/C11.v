(** C11  A restarted master reloads exactly the placement that was published.

    Models.  Master/Restore.v: the per-node decision of Loader.restore_placement, with the answer of Server.restore /
    Server.put as the input [re_fits] (tied to the real load_model() by the correspondence: every restore_placement
    call of every generated history).  Master/RestoreSched.v (+ RestoreSchedP.v): the same function on top of the scheduler model, where
    Server.restore / Server.put ARE Sched/Tree.v [srv_restore] / [srv_put] (tied by E-cell) evaluated on the cell as it
    is when the node's turn comes - and, as in Python, without looking at app.server ([clear_server]: an instance already
    restored under an earlier server is restored under this one as well).  Master/RestoreAll.v (+ RestoreAllP.v,
    RestoreDupP.v): Loader.restore_placements - the loop of restore_placement over Loader.servers with what [integrity]
    collects, and the duplicate pass, in memory ([dedup_cell]: Server.remove) and in the store (Master/Publish.v
    [dedup_writes]).

    PROVED (all cells, all server lists, all node contents, all creation times, no bound):
      C11_reload_one_server           after ALL nodes of a server have been processed, every node that was healthy when
                                      its turn came (instance scheduled, presence node not younger than the placement
                                      node, Server.restore accepts it on the cell as it then is: capacity left,
                                      partition label, traits, affinity limit) is placed on THAT server with the
                                      RECORDED expiry and the RECORDED identity
      C11_reload_one_server_again     the same for an instance that already names a server
      C11_reload_touches_nothing_else an instance without a node under the server is exactly as before: in particular
                                      nothing unrecorded gets placed
      C11_reload_all_servers          the composition over Loader.servers: (a) a healthy node whose instance is recorded
                                      under no other server is, after ALL servers, on its server with the recorded expiry
                                      and identity, and the only server integrity lists for it; (b) an instance recorded
                                      nowhere is untouched; (c) integrity lists exactly the restored nodes
      C11_reload_all_servers_later, C11_restore_all_is_fold, C11_restored_names_companion
      C11_restore_placements_healthy, C11_restore_placements_nothing_unrecorded   (a), (b) through the duplicate pass
      C11_duplicate_removed_from_both, C11_duplicate_healthy_removed_from_both
                                      an instance recorded under two servers and restored under both: integrity lists
                                      both, afterwards it is on NO server, neither server lists it, both nodes deleted
      C11_reload_accounting           after restore_placements every server's free capacity = capacity - demands of the
                                      instances it still lists, and its affinity counters are the true counts
      C11_remove_all_idle             the remove_all() opening restore_placement is idle during load_model
      C11_healthy_restored_verbatim, C11_restore_never_invents, C11_nothing_unrecorded,
      C11_rebooted_server_not_verbatim   the decision table
      C11_duplicates_dropped, C11_reload_all_then_dedup   the store after the duplicate pass
    ORACLE + CORRESPONDENCE ONLY:
      - load_model's earlier steps (load_servers, load_apps, load_identity_groups, ...) are exercised on the real Master
        by harness/props/c11.py, not modelled: the theorems start from the cell those steps built;
      - "healthy" in the theorems is evaluated at the node's turn; the oracle uses the order-independent reading
        (all recorded instances of the server fit together) and skips over-committed servers. *)
From Coq Require Import ZArith List Bool.
From Coq Require Import QArith.
From TM Require Import Sched.Vec Sched.Types Sched.Queue Sched.Tree Sched.Cycle Sched.Events.
From TM Require Import Sched.MapsP Sched.InvAcct Sched.InvAff.
From TM Require Import Master.Publish Master.PublishP Master.Restore Master.RestoreP Master.RestoreSched Master.RestoreSchedP.
From TM Require Import Master.RestoreAll Master.RestoreAllP Master.RestoreDupP Master.RestoreBridge.
From TM Require Import Sched.InvIdent Sched.TurnP Sched.KeepP Sched.Reach.
From TM Require Import Base.ShapeCanon.
Import ListNotations.
Open Scope Z_scope.

Theorem C11_healthy_restored_verbatim : forall s presence entries e,
  In e entries -> healthy presence e = true ->
  restore_action presence true e = RRestore (re_expires e) (re_identity e) /\
  In (re_app e) (fst (restore_server s presence true entries)) /\
  restore_writes s e (restore_action presence true e) = [].
Proof.
  intros s presence entries e He H. split; [exact (healthy_restored_verbatim presence e H)|].
  split; [exact (healthy_in_restored s presence entries e He H)|exact (healthy_no_writes s presence e H)].
Qed.
Print Assumptions C11_healthy_restored_verbatim.

Theorem C11_restore_never_invents : forall presence ri e x id,
  restore_action presence ri e = RRestore x id -> x = re_expires e /\ (id = re_identity e \/ id = None).
Proof. intros presence ri e x id H. exact (restore_never_invents presence ri e x id H). Qed.
Print Assumptions C11_restore_never_invents.

Theorem C11_nothing_unrecorded : forall s presence ri entries a,
  In a (fst (restore_server s presence ri entries)) -> In a (map re_app entries).
Proof. intros s presence ri entries a H. exact (restored_names_recorded s presence ri entries a H). Qed.
Print Assumptions C11_nothing_unrecorded.

Theorem C11_rebooted_server_not_verbatim : forall pt e x id ri,
  re_ctime e < pt -> restore_action (Some pt) ri e <> RRestore x id.
Proof. intros pt e x id ri H. exact (rebooted_not_verbatim pt e x id ri H). Qed.
Print Assumptions C11_rebooted_server_not_verbatim.

Theorem C11_duplicates_dropped : forall restored st,
  (forall s a, has st s a = true -> exists l, In (s, l) restored /\ zmem a l = true) ->
  let final := apply_writes st (dedup_writes restored) in
  no_double final /\
  (forall s a, restored_on restored a = [s] -> lookup final s a = lookup st s a).
Proof. intros restored st H. exact (dedup_no_double restored st H). Qed.
Print Assumptions C11_duplicates_dropped.

(** on the scheduler model *)
Theorem C11_reload_one_server : forall s presence pre n post c x0 c1,
  NoDup (map sn_app (pre ++ n :: post)) ->
  let cpre := restore_nodes s presence true c pre in
  get_app (sn_app n) (c_apps cpre) = Some x0 ->
  sched_verbatim presence n = true ->
  srv_restore cpre s (sn_app n) (Some (sn_expires n)) = (c1, true) ->
  exists x, get_app (sn_app n) (c_apps (restore_nodes s presence true c (pre ++ n :: post))) = Some x /\
            a_server x = Some s /\ a_expiry x = Some (sn_expires n) /\
            a_identity x = match sn_identity n with Some i => Some i | None => a_identity x0 end.
Proof.
  intros s presence pre n post c x0 c1 H1 cpre H2 H3 H4.
  exact (restore_nodes_healthy s presence pre n post c x0 c1 H1 H2 H3 H4).
Qed.
Print Assumptions C11_reload_one_server.

Theorem C11_reload_touches_nothing_else : forall s presence ri ns c b,
  ~ In b (map sn_app ns) -> get_app b (c_apps (restore_nodes s presence ri c ns)) = get_app b (c_apps c).
Proof. intros s presence ri ns c b H. exact (frame_restore_nodes s presence ri ns c b H). Qed.
Print Assumptions C11_reload_touches_nothing_else.

(** non-vacuity on the scheduler model: one server (capacity 150), identity group of 3, two instances of demand 100.
    Node of instance 1 (identity 2, expires 777) is restored verbatim; instance 2 then no longer fits and is dropped;
    with a presence younger than the node, instance 1 is put afresh (expiry = now + lease) *)
Definition sx_app (n : Z) (g : option Z) :=
  mkApp n 50 [100; 100; 100] 3000 [] 0 0 None g false n None None None None false false false false (-1).
Definition sx_cell := run (init_cell 3 2000 1)
  [OAddServer 1000 2000 [150; 150; 150] 4000 0 100000; OConfigGroup 5000 3; OAddApp 4000 [] (sx_app 1 (Some 5000));
   OAddApp 4000 [] (sx_app 2 None); OTick 50].
Definition sx_view (c : cell) (n : Z) := option_map (fun a => (a_server a, a_expiry a, a_identity a)) (get_app n (c_apps c)).
Example C11_nonvacuous_sched :
  let c2 := restore_nodes 1000 (Some 5) true sx_cell [mkSN 1 (Some 2) 777 9; mkSN 2 None 888 9] in
  snd (srv_restore sx_cell 1000 1 (Some 777)) = true /\
  sx_view c2 1 = Some (Some 1000, Some 777, Some 2) /\
  sx_view c2 2 = Some (None, Some 888, None) /\
  snd (restore_node 1000 (Some 15) true sx_cell (mkSN 1 (Some 2) 777 9)) = RPutFresh (Some 2) /\
  sx_view (fst (restore_node 1000 (Some 15) true sx_cell (mkSN 1 (Some 2) 777 9))) 1 = Some (Some 1000, Some 50, Some 2).
Proof. vm_compute. repeat split. Qed.

(** non-vacuity: a healthy node, a node of a rebooted server, a stale node, a schedule-once node of a server that is
    down *)
Definition ex_h := mkRE 1 true true (Some 2) 500 120 false true.
Definition ex_reb := mkRE 2 true true None 500 90 false true.
Definition ex_stale := mkRE 3 false true None 0 120 false true.
Definition ex_once := mkRE 4 true true None 500 120 true true.
Example C11_nonvacuous :
  healthy (Some 100) ex_h = true /\
  restore_server 9 (Some 100) true [ex_h; ex_reb; ex_stale] = ([1; 2], [WDel 9 3]) /\
  restore_action (Some 100) true ex_reb = RPutFresh None /\
  restore_server 9 None true [ex_once] = ([], [WDel 9 4; WFinished 4; WUnsched 4]).
Proof. vm_compute. repeat split. Qed.

(** the same when the instance may already name a server - it was restored under an earlier server of the same load:
    Python's Server.restore does not look at app.server ([clear_server]: the identity when it names none, so
    C11_reload_one_server is the special case) *)
Theorem C11_reload_one_server_again s presence pre n post c x0 c1 :
  NoDup (map sn_app (pre ++ n :: post)) ->
  let cpre := restore_nodes s presence true c pre in
  get_app (sn_app n) (c_apps cpre) = Some x0 ->
  sched_verbatim presence n = true ->
  srv_restore (clear_server cpre (sn_app n)) s (sn_app n) (Some (sn_expires n)) = (c1, true) ->
  exists x, get_app (sn_app n) (c_apps (restore_nodes s presence true c (pre ++ n :: post))) = Some x /\
            a_server x = Some s /\ a_expiry x = Some (sn_expires n) /\
            a_identity x = match sn_identity n with Some i => Some i | None => a_identity x0 end.
Proof. exact (restore_nodes_restore s presence pre n post c x0 c1). Qed.
Print Assumptions C11_reload_one_server_again.

(** * the composition over Loader.servers (Master/RestoreAll.v [restore_all] = the first loop of restore_placements,
    [restore_placements] = both loops)
    (a) a node healthy at its turn whose instance has no node under another server: on its server with the recorded
    expiry and identity after ALL servers, and the only server [integrity] lists for it; (b) an instance without a node
    is as before and listed nowhere; (c) [integrity] has one entry per server and lists exactly the restored nodes *)
Theorem C11_reload_all_servers : forall c servers,
  let r := restore_all true c servers in
  (forall spre sr spost pre n post x0 c1,
     servers = spre ++ sr :: spost ->
     sr_nodes sr = pre ++ n :: post ->
     NoDup (map sn_app (sr_nodes sr)) ->
     (forall sr', In sr' (spre ++ spost) -> ~ In (sn_app n) (map sn_app (sr_nodes sr'))) ->
     let cpre := restore_nodes (sr_name sr) (sr_presence sr) true (fst (restore_all true c spre)) pre in
     get_app (sn_app n) (c_apps cpre) = Some x0 ->
     sched_verbatim (sr_presence sr) n = true ->
     srv_restore (clear_server cpre (sn_app n)) (sr_name sr) (sn_app n) (Some (sn_expires n)) = (c1, true) ->
     (exists x, get_app (sn_app n) (c_apps (fst r)) = Some x /\
                a_server x = Some (sr_name sr) /\ a_expiry x = Some (sn_expires n) /\
                a_identity x = match sn_identity n with Some i => Some i | None => a_identity x0 end) /\
     restored_on (snd r) (sn_app n) = [sr_name sr] /\
     get_app (sn_app n) (c_apps c) = Some x0) /\
  (forall b, (forall sr, In sr servers -> ~ In b (map sn_app (sr_nodes sr))) ->
     get_app b (c_apps (fst r)) = get_app b (c_apps c) /\ restored_on (snd r) b = []) /\
  (map fst (snd r) = map sr_name servers /\
   forall a s, In s (restored_on (snd r) a) <->
     exists spre sr spost pre n post,
       servers = spre ++ sr :: spost /\ sr_nodes sr = pre ++ n :: post /\ s = sr_name sr /\ a = sn_app n /\
       restored (snd (restore_node s (sr_presence sr) true
                        (restore_nodes s (sr_presence sr) true (fst (restore_all true c spre)) pre) n)) = true).
Proof. exact (reload_all_servers). Qed.
Print Assumptions C11_reload_all_servers.

(** (a) needs only that no LATER server records the instance *)
Theorem C11_reload_all_servers_later : forall c spre sr spost pre n post x0 c1,
  sr_nodes sr = pre ++ n :: post ->
  NoDup (map sn_app (sr_nodes sr)) ->
  (forall sr', In sr' spost -> ~ In (sn_app n) (map sn_app (sr_nodes sr'))) ->
  let cpre := restore_nodes (sr_name sr) (sr_presence sr) true (fst (restore_all true c spre)) pre in
  get_app (sn_app n) (c_apps cpre) = Some x0 ->
  sched_verbatim (sr_presence sr) n = true ->
  srv_restore (clear_server cpre (sn_app n)) (sr_name sr) (sn_app n) (Some (sn_expires n)) = (c1, true) ->
  let r := restore_all true c (spre ++ sr :: spost) in
  (exists x, get_app (sn_app n) (c_apps (fst r)) = Some x /\
             a_server x = Some (sr_name sr) /\ a_expiry x = Some (sn_expires n) /\
             a_identity x = match sn_identity n with Some i => Some i | None => a_identity x0 end) /\
  In (sr_name sr) (restored_on (snd r) (sn_app n)).
Proof. exact (reload_all_servers_later). Qed.
Print Assumptions C11_reload_all_servers_later.

(** restore_all is the fold of restore_nodes; the collected names are a companion of restore_nodes *)
Theorem C11_restore_all_is_fold ri servers : forall c,
  fst (restore_all ri c servers) =
  fold_left (fun acc sr => restore_nodes (sr_name sr) (sr_presence sr) ri acc (sr_nodes sr)) servers c.
Proof. exact (restore_all_is_fold ri servers). Qed.
Print Assumptions C11_restore_all_is_fold.

Theorem C11_restored_names_companion : forall s p ri ns c,
  fst (restore_nodes_names s p ri c ns) = restore_nodes s p ri c ns /\
  forall a, In a (snd (restore_nodes_names s p ri c ns)) <->
            exists pre n post, ns = pre ++ n :: post /\ a = sn_app n /\
                               restored (snd (restore_node s p ri (restore_nodes s p ri c pre) n)) = true.
Proof. exact (restored_names_companion). Qed.
Print Assumptions C11_restored_names_companion.

(** through the duplicate pass as well (in-memory Server.remove and the deletions) *)
Theorem C11_restore_placements_healthy c spre sr spost pre n post x0 c1 :
  sr_nodes sr = pre ++ n :: post ->
  NoDup (map sn_app (sr_nodes sr)) ->
  (forall sr', In sr' (spre ++ spost) -> ~ In (sn_app n) (map sn_app (sr_nodes sr'))) ->
  let s := sr_name sr in
  let p := sr_presence sr in
  let cpre := restore_nodes s p true (fst (restore_all true c spre)) pre in
  get_app (sn_app n) (c_apps cpre) = Some x0 ->
  sched_verbatim p n = true ->
  srv_restore (clear_server cpre (sn_app n)) s (sn_app n) (Some (sn_expires n)) = (c1, true) ->
  forall cf rs ws, restore_placements true c (spre ++ sr :: spost) = (cf, rs, ws) ->
  (exists x, get_app (sn_app n) (c_apps cf) = Some x /\
             a_server x = Some s /\ a_expiry x = Some (sn_expires n) /\
             a_identity x = match sn_identity n with Some i => Some i | None => a_identity x0 end) /\
  restored_on rs (sn_app n) = [s] /\
  (forall s', ~ In (WDel s' (sn_app n)) ws).
Proof. exact (restore_placements_healthy_eq c spre sr spost pre n post x0 c1). Qed.
Print Assumptions C11_restore_placements_healthy.

Theorem C11_restore_placements_nothing_unrecorded ri c servers b :
  (forall sr, In sr servers -> ~ In b (map sn_app (sr_nodes sr))) ->
  forall cf rs ws, restore_placements ri c servers = (cf, rs, ws) ->
  get_app b (c_apps cf) = get_app b (c_apps c) /\ restored_on rs b = [] /\ (forall s, ~ In (WDel s b) ws).
Proof. exact (restore_placements_frame_eq ri c servers b). Qed.
Print Assumptions C11_restore_placements_nothing_unrecorded.

(** C11_duplicates_dropped applied to what the loop collected *)
Theorem C11_reload_all_then_dedup : forall ri c servers st,
  let restored := snd (restore_all ri c servers) in
  (forall s a, has st s a = true -> exists l, In (s, l) restored /\ zmem a l = true) ->
  let final := apply_writes st (dedup_writes restored) in
  no_double final /\
  (forall s a, restored_on restored a = [s] -> lookup final s a = lookup st s a).
Proof. exact (reload_all_then_dedup). Qed.
Print Assumptions C11_reload_all_then_dedup.

(** the remove_all() that opens every restore_placement changes nothing during load_model (server names are dict keys;
    load_servers has just created the servers empty) *)
Theorem C11_remove_all_idle ri servers : forall c,
  NoDup (map sr_name servers) -> (forall sr, In sr servers -> srv_empty c (sr_name sr)) ->
  restore_all_ra ri c servers = restore_all ri c servers.
Proof. exact (restore_all_ra_eq ri servers). Qed.
Print Assumptions C11_remove_all_idle.

(** * part (c): an instance recorded under TWO servers, restored under both at its turns (RRestore or RPutFresh):
    [integrity] lists both; after restore_placements it names no server (expiry cleared, marked evicted), neither server
    lists it - no server does that did not list it before -, and both of its nodes are deleted.
    Side conditions: node names under one server distinct (children of one ZooKeeper node), the two server names differ
    (dict keys), no server lists an instance twice at the start (Server.apps is a dict; Sched/InvAcct.v ac_nodup) *)
Theorem C11_duplicate_removed_from_both ri c s1 srA s2 srB s3 preA nA postA preB nB postB :
  let A := sr_name srA in
  let B := sr_name srB in
  let a := sn_app nA in
  sr_nodes srA = preA ++ nA :: postA -> sr_nodes srB = preB ++ nB :: postB -> sn_app nB = a ->
  NoDup (map sn_app (sr_nodes srA)) -> NoDup (map sn_app (sr_nodes srB)) ->
  A <> B ->
  (forall sr, In sr (s1 ++ s2 ++ s3) -> ~ In a (map sn_app (sr_nodes sr))) ->
  apps_nodup c ->
  let cA := restore_nodes A (sr_presence srA) ri (fst (restore_all ri c s1)) preA in
  let cB := restore_nodes B (sr_presence srB) ri (fst (restore_all ri c (s1 ++ srA :: s2))) preB in
  restored (snd (restore_node A (sr_presence srA) ri cA nA)) = true ->
  restored (snd (restore_node B (sr_presence srB) ri cB nB)) = true ->
  forall cf rs ws, restore_placements ri c (s1 ++ srA :: s2 ++ srB :: s3) = (cf, rs, ws) ->
  restored_on rs a = [A; B] /\
  (exists x, get_app a (c_apps cf) = Some x /\ a_server x = None /\ a_expiry x = None /\ a_evicted x = true) /\
  ~ listed cf A a /\ ~ listed cf B a /\
  (forall s, listed cf s a -> listed c s a) /\
  In (WDel A a) ws /\ In (WDel B a) ws.
Proof. exact (restore_placements_duplicate ri c s1 srA s2 srB s3 preA nA postA preB nB postB). Qed.
Print Assumptions C11_duplicate_removed_from_both.

(** the same for two healthy nodes (the hypothesis of C11_reload_one_server_again at both turns) *)
Theorem C11_duplicate_healthy_removed_from_both c s1 srA s2 srB s3 preA nA postA preB nB postB xA cA1 xB cB1 :
  let A := sr_name srA in
  let B := sr_name srB in
  let a := sn_app nA in
  sr_nodes srA = preA ++ nA :: postA -> sr_nodes srB = preB ++ nB :: postB -> sn_app nB = a ->
  NoDup (map sn_app (sr_nodes srA)) -> NoDup (map sn_app (sr_nodes srB)) ->
  A <> B ->
  (forall sr, In sr (s1 ++ s2 ++ s3) -> ~ In a (map sn_app (sr_nodes sr))) ->
  apps_nodup c ->
  let cA := restore_nodes A (sr_presence srA) true (fst (restore_all true c s1)) preA in
  let cB := restore_nodes B (sr_presence srB) true (fst (restore_all true c (s1 ++ srA :: s2))) preB in
  get_app a (c_apps cA) = Some xA -> sched_verbatim (sr_presence srA) nA = true ->
  srv_restore (clear_server cA a) A a (Some (sn_expires nA)) = (cA1, true) ->
  get_app a (c_apps cB) = Some xB -> sched_verbatim (sr_presence srB) nB = true ->
  srv_restore (clear_server cB a) B a (Some (sn_expires nB)) = (cB1, true) ->
  forall cf rs ws, restore_placements true c (s1 ++ srA :: s2 ++ srB :: s3) = (cf, rs, ws) ->
  restored_on rs a = [A; B] /\
  (exists x, get_app a (c_apps cf) = Some x /\ a_server x = None /\ a_expiry x = None /\ a_evicted x = true) /\
  ~ listed cf A a /\ ~ listed cf B a /\
  (forall s, listed cf s a -> listed c s a) /\
  In (WDel A a) ws /\ In (WDel B a) ws.
Proof. exact (restore_placements_duplicate_healthy c s1 srA s2 srB s3 preA nA postA preB nB postB xA cA1 xB cB1). Qed.
Print Assumptions C11_duplicate_healthy_removed_from_both.

(** accounting after restore_placements, however many instances were recorded under several servers: every server's
    free capacity is its capacity minus the demands of the instances it still lists (so nothing stays deducted for an
    instance removed by the duplicate pass), it is non-negative, and the server-level affinity counters are the counts
    over the instances it still lists.  Hypotheses: the invariants of every reachable cell (C01_accounting, C04) and no
    recorded instance is schedule_once (see Master/RestoreDupP.v: with a schedule-once instance recorded under three
    servers and refused by the third, Python itself leaves the first server's books wrong and then fails an assertion) *)
Theorem C11_reload_accounting ri c servers :
  Acct c -> Aff c -> once_free_on (recorded servers) c ->
  forall cf rs ws, restore_placements ri c servers = (cf, rs, ws) ->
  forall s sv, get_srv s (c_servers cf) = Some sv ->
    vadd (s_free sv) (total (c_apps cf) (c_dim cf) (s_apps sv)) = s_cap sv /\
    nonneg (s_free sv) /\
    forall aff, cget aff (s_counters sv) = count_aff (c_apps cf) aff (s_apps sv).
Proof. exact (restore_placements_accounting ri c servers). Qed.
Print Assumptions C11_reload_accounting.

(** the two-server data of Master/RestoreAllP.v (servers 1000, 1001; instance 2 recorded under both): after the first
    loop both servers list instance 2 and have its demand deducted; the duplicate pass deletes both nodes and leaves
    servers and buckets exactly as the same load without the two nodes does *)
Example C11_duplicate_on_data :
  let c0 := fst (restore_all true ax_cell [ax_s0]) in
  let r := restore_all true ax_cell [ax_s0; ax_s1] in
  let '(cf, rs, ws) := restore_placements true ax_cell [ax_s0; ax_s1] in
  let '(cf', _, ws') := restore_placements true ax_cell [mkSR 1000 (Some 5) [mkSN 1 (Some 2) 777 9];
                                                         mkSR 1001 (Some 5) [mkSN 3 None 555 9]] in
  snd (restore_node 1000 (Some 5) true (restore_nodes 1000 (Some 5) true ax_cell [mkSN 1 (Some 2) 777 9])
                    (mkSN 2 None 888 9)) = RRestore 888 None /\
  ax_view c0 2 = Some (Some 1000, Some 888, None, false) /\
  snd (restore_node 1001 (Some 5) true c0 (mkSN 2 None 999 9)) = RRestore 999 None /\
  ax_view (fst r) 2 = Some (Some 1001, Some 999, None, false) /\
  ax_on (fst r) 1000 = Some ([1; 2], [100; 100; 100], [(3000, 2)]) /\
  ax_on (fst r) 1001 = Some ([2; 3], [100; 100; 100], [(3000, 2)]) /\
  map (fun b => (b_name b, b_free b, b_counters b)) (c_buckets (fst r)) = [(2000, [100; 100; 100], [(3000, 4)])] /\
  rs = snd r /\ restored_on rs 2 = [1000; 1001] /\
  ws = [WDel 1000 2; WDel 1001 2] /\
  ax_view cf 2 = Some (None, None, None, true) /\
  ax_on cf 1000 = Some ([1], [200; 200; 200], [(3000, 1)]) /\
  ax_on cf 1001 = Some ([3], [200; 200; 200], [(3000, 1)]) /\
  map (fun b => (b_name b, b_free b, b_counters b)) (c_buckets cf) = [(2000, [200; 200; 200], [(3000, 2)])] /\
  c_servers cf = c_servers cf' /\ c_buckets cf = c_buckets cf' /\ ws' = [] /\
  ax_view cf 1 = ax_view cf' 1 /\ ax_view cf 3 = ax_view cf' 3.
Proof. exact ax_duplicate_on_data. Qed.

(** ** the restore in terms of the scheduler's operation alphabet (Master/RestoreBridge.v)
    For a store that records no instance under two servers, the first loop of restore_placements is a run of
    [ORestore] operations (one per placement node, in listing order); the rebuilt cell is therefore a reachable state
    of the scheduler model when the cell before the restore is, and everything proved of a cycle run from a reachable
    state holds of the first cycle after a fail-over.  The side conditions [wf_ops_all] are the loader's call-site
    facts: the server is attached, the instance is on no server when its node's turn comes, a recorded identity is
    held by no other instance of the group, and a group instance has or is given an identity. *)
Theorem C11_restore_is_a_run : forall ri servers c,
  Good c -> wf_ops_all c (ops_of_store ri servers) ->
  fst (restore_all ri c servers) = run c (ops_of_store ri servers).
Proof. exact restore_all_is_run. Qed.
Print Assumptions C11_restore_is_a_run.

Theorem C11_rebuilt_cell_reachable : forall ri servers c,
  reachable c -> wf_ops_all c (ops_of_store ri servers) -> reachable (fst (restore_all ri c servers)).
Proof. exact restore_all_reachable. Qed.
Print Assumptions C11_rebuilt_cell_reachable.

Theorem C11_first_cycle_after_failover : forall ri servers c ch,
  reachable c -> wf_ops_all c (ops_of_store ri servers) ->
  let c1 := fst (restore_all ri c servers) in
  forall x a', app_of (step c1 (OSchedule ch)) x = Some a' ->
    (a_server a' = None -> no_id a') /\ (a_server a' <> None -> has_id a') /\
    (forall g i k, holds a' g i -> gcount (step c1 (OSchedule ch)) g = Some k -> 0 <= i < k).
Proof.
  intros ri servers c ch HR Hwf c1. apply end_of_cycle_identities. apply reachable_Good.
  apply restore_all_reachable; assumption.
Qed.
Print Assumptions C11_first_cycle_after_failover.

Example C11_bridge_nonvacuous :
  let store := [mkSR 1000 (Some 5) [mkSN 1 (Some 2) 777 9; mkSN 2 None 888 9]] in
  wf_ops_allb (init_cell 3 2000 1)
    ([OAddServer 1000 2000 [150; 150; 150] 4000 0 100000; OConfigGroup 5000 3; OAddApp 4000 [] (sx_app 1 (Some 5000));
      OAddApp 4000 [] (sx_app 2 None); OTick 50] ++ ops_of_store true store) = true /\
  sx_view (fst (restore_all true sx_cell store)) 1 = Some (Some 1000, Some 777, Some 2) /\
  sx_view (run sx_cell (ops_of_store true store)) 1 = Some (Some 1000, Some 777, Some 2).
Proof. vm_compute. repeat split. Qed.

(** the functions named by this property's anchors still have the statement skeleton the model was written from
    (re-extracted from the Python AST on every run, harness/tables_shape.py + harness/shape_pins.json; kept last so that
    a difference does not stop the theorems above from being checked) *)
Theorem C11_source_shape : shapes_ok_C11 = true.
Proof. vm_compute. reflexivity. Qed.
Print Assumptions C11_source_shape.
