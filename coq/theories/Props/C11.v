(** C11  A restarted master reloads exactly the placement that was published.

    Models.  Master/Restore.v: the per-node decision of Loader.restore_placement, with the answer of Server.restore /
    Server.put as the input [re_fits] (tied to the real load_model() by the correspondence: every restore_placement
    call of every generated history).  Master/RestoreSched.v (+ RestoreSchedP.v): the same function on top of the scheduler model, where
    Server.restore / Server.put ARE Sched/Tree.v [srv_restore] / [srv_put] (tied by E-cell) evaluated on the cell as it
    is when the node's turn comes.  Master/Publish.v [dedup_writes]: the duplicate pass of restore_placements.

    PROVED (all cells, all node contents, all creation times, no bound):
      C11_reload_one_server           after ALL nodes of a server have been processed, every node that was healthy when
                                      its turn came (instance scheduled, presence node not younger than the placement
                                      node, Server.restore accepts it on the cell as it then is: capacity left,
                                      partition label, traits, affinity limit) is placed on THAT server with the
                                      RECORDED expiry and the RECORDED identity
      C11_reload_touches_nothing_else an instance without a node under the server is exactly as before: in particular
                                      nothing unrecorded gets placed
      C11_healthy_restored_verbatim, C11_restore_never_invents, C11_nothing_unrecorded,
      C11_rebooted_server_not_verbatim   the decision table
      C11_duplicates_dropped          an instance restored under two servers is removed from both
    PARTIAL / ORACLE + CORRESPONDENCE ONLY:
      - the composition over Loader.servers (restore_placements calls restore_placement per server; by
        C11_reload_touches_nothing_else servers only interact through instances recorded under two of them, which the
        duplicate pass removes) and load_model's earlier steps (load_servers, load_apps, load_identity_groups) are
        exercised on the real Master by harness/props/c11.py, not modelled;
      - "healthy" in the theorem is evaluated at the node's turn; the oracle uses the order-independent reading
        (all recorded instances of the server fit together) and skips over-committed servers. *)
From Coq Require Import ZArith List Bool.
From Coq Require Import QArith.
From TM Require Import Sched.Vec Sched.Types Sched.Queue Sched.Tree Sched.Cycle Sched.Events.
From TM Require Import Master.Publish Master.PublishP Master.Restore Master.RestoreP Master.RestoreSched Master.RestoreSchedP.
From TM Require Import Base.ShapeCanon.
Import ListNotations.
Open Scope Z_scope.

Theorem C11_healthy_restored_verbatim : forall s presence entries e,
  In e entries -> healthy presence e = true ->
  restore_action presence true e = RRestore (re_expires e) (re_identity e) /\
  In (re_app e) (fst (restore_server s presence true entries)) /\
  restore_writes s e (restore_action presence true e) = [].
Proof.
  intros s presence entries e He H. split; [exact (healthy_restored_verbatim presence e H)|].
  split; [exact (healthy_in_restored s presence entries e He H)|exact (healthy_no_writes s presence e H)].
Qed.
Print Assumptions C11_healthy_restored_verbatim.

Theorem C11_restore_never_invents : forall presence ri e x id,
  restore_action presence ri e = RRestore x id -> x = re_expires e /\ (id = re_identity e \/ id = None).
Proof. intros presence ri e x id H. exact (restore_never_invents presence ri e x id H). Qed.
Print Assumptions C11_restore_never_invents.

Theorem C11_nothing_unrecorded : forall s presence ri entries a,
  In a (fst (restore_server s presence ri entries)) -> In a (map re_app entries).
Proof. intros s presence ri entries a H. exact (restored_names_recorded s presence ri entries a H). Qed.
Print Assumptions C11_nothing_unrecorded.

Theorem C11_rebooted_server_not_verbatim : forall pt e x id ri,
  re_ctime e < pt -> restore_action (Some pt) ri e <> RRestore x id.
Proof. intros pt e x id ri H. exact (rebooted_not_verbatim pt e x id ri H). Qed.
Print Assumptions C11_rebooted_server_not_verbatim.

Theorem C11_duplicates_dropped : forall restored st,
  (forall s a, has st s a = true -> exists l, In (s, l) restored /\ zmem a l = true) ->
  let final := apply_writes st (dedup_writes restored) in
  no_double final /\
  (forall s a, restored_on restored a = [s] -> lookup final s a = lookup st s a).
Proof. intros restored st H. exact (dedup_no_double restored st H). Qed.
Print Assumptions C11_duplicates_dropped.

(** on the scheduler model *)
Theorem C11_reload_one_server : forall s presence pre n post c x0 c1,
  NoDup (map sn_app (pre ++ n :: post)) ->
  let cpre := restore_nodes s presence true c pre in
  get_app (sn_app n) (c_apps cpre) = Some x0 ->
  sched_verbatim presence n = true ->
  srv_restore cpre s (sn_app n) (Some (sn_expires n)) = (c1, true) ->
  exists x, get_app (sn_app n) (c_apps (restore_nodes s presence true c (pre ++ n :: post))) = Some x /\
            a_server x = Some s /\ a_expiry x = Some (sn_expires n) /\
            a_identity x = match sn_identity n with Some i => Some i | None => a_identity x0 end.
Proof.
  intros s presence pre n post c x0 c1 H1 cpre H2 H3 H4.
  exact (restore_nodes_healthy s presence pre n post c x0 c1 H1 H2 H3 H4).
Qed.
Print Assumptions C11_reload_one_server.

Theorem C11_reload_touches_nothing_else : forall s presence ri ns c b,
  ~ In b (map sn_app ns) -> get_app b (c_apps (restore_nodes s presence ri c ns)) = get_app b (c_apps c).
Proof. intros s presence ri ns c b H. exact (frame_restore_nodes s presence ri ns c b H). Qed.
Print Assumptions C11_reload_touches_nothing_else.

(** non-vacuity on the scheduler model: one server (capacity 150), identity group of 3, two instances of demand 100.
    Node of instance 1 (identity 2, expires 777) is restored verbatim; instance 2 then no longer fits and is dropped;
    with a presence younger than the node, instance 1 is put afresh (expiry = now + lease) *)
Definition sx_app (n : Z) (g : option Z) :=
  mkApp n 50 [100; 100; 100] 3000 [] 0 0 None g false n None None None None false false false false (-1).
Definition sx_cell := run (init_cell 3 2000 1)
  [OAddServer 1000 2000 [150; 150; 150] 4000 0 100000; OConfigGroup 5000 3; OAddApp 4000 [] (sx_app 1 (Some 5000));
   OAddApp 4000 [] (sx_app 2 None); OTick 50].
Definition sx_view (c : cell) (n : Z) := option_map (fun a => (a_server a, a_expiry a, a_identity a)) (get_app n (c_apps c)).
Example C11_nonvacuous_sched :
  let c2 := restore_nodes 1000 (Some 5) true sx_cell [mkSN 1 (Some 2) 777 9; mkSN 2 None 888 9] in
  snd (srv_restore sx_cell 1000 1 (Some 777)) = true /\
  sx_view c2 1 = Some (Some 1000, Some 777, Some 2) /\
  sx_view c2 2 = Some (None, Some 888, None) /\
  snd (restore_node 1000 (Some 15) true sx_cell (mkSN 1 (Some 2) 777 9)) = RPutFresh (Some 2) /\
  sx_view (fst (restore_node 1000 (Some 15) true sx_cell (mkSN 1 (Some 2) 777 9))) 1 = Some (Some 1000, Some 50, Some 2).
Proof. vm_compute. repeat split. Qed.

(** non-vacuity: a healthy node, a node of a rebooted server, a stale node, a schedule-once node of a server that is
    down *)
Definition ex_h := mkRE 1 true true (Some 2) 500 120 false true.
Definition ex_reb := mkRE 2 true true None 500 90 false true.
Definition ex_stale := mkRE 3 false true None 0 120 false true.
Definition ex_once := mkRE 4 true true None 500 120 true true.
Example C11_nonvacuous :
  healthy (Some 100) ex_h = true /\
  restore_server 9 (Some 100) true [ex_h; ex_reb; ex_stale] = ([1; 2], [WDel 9 3]) /\
  restore_action (Some 100) true ex_reb = RPutFresh None /\
  restore_server 9 None true [ex_once] = ([], [WDel 9 4; WFinished 4; WUnsched 4]).
Proof. vm_compute. repeat split. Qed.

(** the functions named by this property's anchors still have the statement skeleton the model was written from
    (re-extracted from the Python AST on every run, harness/tables_shape.py + harness/shape_pins.json; kept last so that
    a difference does not stop the theorems above from being checked) *)
Theorem C11_source_shape : shapes_ok_C11 = true.
Proof. vm_compute. reflexivity. Qed.
Print Assumptions C11_source_shape.
