(** C06  The scheduling queue orders instances by rank, reservation and priority.

    Model: Sched/Queue.v (Allocation.priv_utilization_queue / utilization_queue / heapq.merge), tied to the
    source by the E-cell correspondence (the queue handed to _find_placements is part of every cycle's digest).

    Proved for every allocation tree (any depth) and every population:
      C06_perm, C06_each_once   every instance of the partition is considered exactly once;
      C06_rank_mono             ranks are non-decreasing along the queue (lower-ranked allocations first),
                                given rank_adjustment >= 0, priorities >= 0, non-negative demands/reservations;
      C06_alloc_order           inside an allocation: priority, then running before pending, then first-come;
      C06_boost / C06_cap       boosted rank <=> utilisation before the instance is negative (all dimensions of the
                                preceding cumulative demand below the reservation) and within the cap;
                                unplaced rank <=> utilisation after exceeds cap - 1.
      C06_merge_keeps_order     for EVERY allocation of the tree, at any depth: its own instances appear in the final
                                queue of the partition in exactly the order of its private queue, i.e. in app-key
                                order (priority, running before pending, first-come) - the parent merges never reorder
                                them (Sched/MergeOrderP.v, built by a sub-agent);
      C06_alloc_order_before    two instances of one allocation: strictly smaller key => earlier in the final queue;
      C06_zero_last             priority-0 instances come after all others of the same rank, at every depth.
    Found on the way (mo_ub_none_nonzero_prio): "utilisation-before is infinite iff priority 0" does NOT survive the
    re-scoring of a parent allocation (a non-zero-priority entry following a priority-0 entry of a lower rank inherits
    +inf); the order is still right because the comparison falls through to utilisation-after. *)
From Coq Require Import ZArith QArith List Bool Permutation Sorted.
From TM Require Import Sched.Vec Sched.Types Sched.Queue Sched.QueueP Sched.MergeOrderP Gen.Tables.
From TM Require Import Base.ShapeCanon.
Import ListNotations.
Open Scope Z_scope.

(** the model's constants are the source's (regenerated on every run) *)
Theorem C06_constants :
  sched_unplaced_rank = UNPLACED_RANK /\ sched_default_rank = al_rank (empty_alloc 3) /\
  sched_max_utilization_is_inf = true.
Proof. vm_compute. repeat split. Qed.
Print Assumptions C06_constants.

Theorem C06_perm : forall dim free keps apps al,
  Permutation (map e_app (util_queue dim free keps apps al)) (map a_name (lookup_apps (all_apps al) apps)).
Proof. exact util_queue_perm. Qed.
Print Assumptions C06_perm.

(** exactly once: no instance twice when the allocation tree lists no instance twice *)
Theorem C06_each_once : forall dim free keps apps al,
  NoDup (map a_name (lookup_apps (all_apps al) apps)) -> NoDup (map e_app (util_queue dim free keps apps al)).
Proof.
  intros dim free keps apps al H.
  exact (Permutation_NoDup (Permutation_sym (util_queue_perm dim free keps apps al)) H).
Qed.
Print Assumptions C06_each_once.

Theorem C06_rank_mono : forall dim free keps apps al,
  apps_ok dim apps -> alloc_ok al -> Sorted Z.le (map e_rank (util_queue dim free keps apps al)).
Proof. exact util_queue_rank_sorted_wf. Qed.
Print Assumptions C06_rank_mono.

Theorem C06_alloc_order : forall dim al apps,
  map e_app (priv_queue dim al apps) = map a_name (sort_apps (lookup_apps (al_apps al) apps)) /\
  StronglySorted key_le (sort_apps (lookup_apps (al_apps al) apps)).
Proof. exact priv_queue_order. Qed.
Print Assumptions C06_alloc_order.

Theorem C06_rank_decision : forall rank adj maxu res av l acc ub,
  Forall (fun e => e_rank e = rank_of rank adj maxu (e_ub e) (e_ua e)) (priv_loop rank adj maxu res av l acc ub).
Proof. exact priv_loop_rank_of. Qed.
Print Assumptions C06_rank_decision.

Theorem C06_boost : forall rank adj maxu ub ua, 0 < adj -> rank < UNPLACED_RANK ->
  (rank_of rank adj maxu ub ua = rank - adj <->
   util_ltb ub (Some 0%Q) = true /\ (match maxu with None => true | Some m => util_leb ua (Some (m - 1)%Q) end) = true).
Proof. exact rank_of_boost. Qed.
Print Assumptions C06_boost.

Theorem C06_cap : forall rank adj maxu ub ua, 0 <= adj -> rank < UNPLACED_RANK ->
  (rank_of rank adj maxu ub ua = UNPLACED_RANK <-> exists m, maxu = Some m /\ util_leb ua (Some (m - 1)%Q) = false).
Proof. exact rank_of_cap. Qed.
Print Assumptions C06_cap.

Theorem C06_merge_keeps_order : forall dim free keps apps al sub,
  NoDup (all_apps al) -> sub_of al sub ->
  filter (fun n => zmem n (al_apps sub)) (map e_app (util_queue dim free keps apps al))
  = map a_name (sort_apps (lookup_apps (al_apps sub) apps)).
Proof. exact merge_keeps_alloc_order. Qed.
Print Assumptions C06_merge_keeps_order.

Theorem C06_alloc_order_before : forall dim free keps apps al sub x y,
  NoDup (all_apps al) -> sub_of al sub ->
  In x (lookup_apps (al_apps sub) apps) -> In y (lookup_apps (al_apps sub) apps) -> ~ key_le y x ->
  let names := map e_app (util_queue dim free keps apps al) in
  (exists l1 l2 l3, names = l1 ++ a_name x :: l2 ++ a_name y :: l3) /\
  (forall l1 l2 l3, names <> l1 ++ a_name y :: l2 ++ a_name x :: l3).
Proof. exact alloc_order_before. Qed.
Print Assumptions C06_alloc_order_before.

Theorem C06_zero_last : forall dim free keps apps al, apps_ok dim apps -> alloc_ok al ->
  let q := util_queue dim free keps apps al in
  forall e1 e2, In e1 q -> In e2 q -> e_prio e1 = 0 -> e_prio e2 <> 0 -> e_rank e1 = e_rank e2 ->
    (exists l1 l2 l3, q = l1 ++ e2 :: l2 ++ e1 :: l3) /\ (forall l1 l2 l3, q <> l1 ++ e1 :: l2 ++ e2 :: l3).
Proof. exact util_queue_zero_last. Qed.
Print Assumptions C06_zero_last.

(** non-vacuity: a two-level tree; boosted, normal, capped and priority-0 entries all occur *)
Definition ex_app (n p o : Z) (d : vec) (srv : option Z) : app :=
  mkApp n p d 3000 [] 0 0 None None false o None srv None None false false false false (-1).
Definition ex_apps := [ ex_app 1 5 1 [100;100;100] (Some 7); ex_app 2 5 2 [100;100;100] None;
                        ex_app 3 9 3 [50;50;50] None; ex_app 4 0 4 [10;10;10] None; ex_app 5 1 5 [400;400;400] None ].
Definition ex_alloc : alloc :=
  Alloc [0;0;0] 100 0 0 None [4]
        [(6000, Alloc [150;150;150] 100 10 0 (Some (3 # 1)%Q) [1; 2; 5] []); (6001, Alloc [64;64;64] 50 0 0 None [3] [])].
Example C06_nonvacuous :
  apps_ok 3 ex_apps /\ alloc_ok ex_alloc /\
  map (fun e => (e_app e, e_rank e)) (util_queue 3 [1000;1000;1000] 0 ex_apps ex_alloc)
  = [(3, 50); (1, 90); (2, 90); (4, 100); (5, UNPLACED_RANK)].
Proof.
  split; [|split].
  - unfold apps_ok, ex_apps. repeat constructor; cbn; try discriminate.
  - cbn. repeat split; try discriminate; repeat constructor; try discriminate.
  - vm_compute. reflexivity.
Qed.

(** the functions of treadmill/scheduler/__init__.py these theorems were proved about still have the statement
    skeleton the model was written from (re-extracted from the Python AST on every run, harness/tables_shape.py;
    kept last so that a difference does not stop the theorems above from being checked) *)
Theorem C06_source_shape : shapes_ok_C06 = true.
Proof. vm_compute. reflexivity. Qed.
Print Assumptions C06_source_shape.
