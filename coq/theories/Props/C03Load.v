(** The Loader glue: what a ZooKeeper record DECLARES is what the scheduler object carries
    (C03 partition label / traits / lease, C04 affinity and limits, C01 demand and capacity vectors, C05 identity
    group, C06 priority rule and what a reload of an existing instance refreshes).

    Model: Master/LoadApp.v (scheduler/loader.py Loader.load_app - new and existing instance -, _get_lease,
    _get_data_retention, create_server, load_server; scheduler/__init__.py Application / Affinity / Server
    constructors; utils.to_seconds; traits.create_code / encode).  The manifest keys, getter defaults and constants
    are [TM.Master.LoadAppRun.loadapp_tables], assembled from definitions harness/tables_loadapp.py regenerates from
    the Python AST on every run; every theorem carries the premise [ltables_ok T = true], discharged for the
    generated tables by [C03L_tables_ok].  Size / cpu spellings: Codec/Units.v ([utables], Props/C01Units.v).

    Strings are lists of code points.  83 'S' 77 'M' 72 'H' 68 'D' (115 109 104 100 in lower case). *)
From Coq Require Import ZArith List Bool.
From RecordUpdate Require Import RecordSet.
From TM Require Import Codec.BaseN Codec.Dec Codec.Units Codec.UnitsP Codec.UnitsRun
     Sched.Vec Sched.Types Sched.Events Master.LoadApp Master.LoadAppP Master.LoadAppRun Gen.Tables.
Import ListNotations.
Open Scope Z_scope.

(** the keys, defaults and constants of the source are the ones the statements need *)
Theorem C03L_tables_ok : ltables_ok loadapp_tables = true.
Proof. vm_compute. reflexivity. Qed.
Print Assumptions C03L_tables_ok.

(** * Intervals (lease, data_retention_timeout): <n>s|m|h|d in any letter case, between blanks *)
Theorem C03L_to_seconds : forall T s n, ltables_ok T = true ->
  (spells s (str_of_Z n ++ [83]) = true -> to_seconds T (VStr s) = UOk n) /\
  (spells s (str_of_Z n ++ [77]) = true -> to_seconds T (VStr s) = UOk (n * 60)) /\
  (spells s (str_of_Z n ++ [72]) = true -> to_seconds T (VStr s) = UOk (n * 3600)) /\
  (spells s (str_of_Z n ++ [68]) = true -> to_seconds T (VStr s) = UOk (n * 86400)).
Proof. intros T s n H. exact (ok_seconds T H s n). Qed.
Print Assumptions C03L_to_seconds.

Theorem C03L_to_seconds_lower : forall T n, ltables_ok T = true ->
  to_seconds T (VStr (str_of_Z n ++ [115])) = UOk n /\ to_seconds T (VStr (str_of_Z n ++ [109])) = UOk (n * 60) /\
  to_seconds T (VStr (str_of_Z n ++ [104])) = UOk (n * 3600) /\
  to_seconds T (VStr (str_of_Z n ++ [100])) = UOk (n * 86400).
Proof. intros T n H. exact (ok_seconds_canonical T H n). Qed.
Print Assumptions C03L_to_seconds_lower.

(** a unit-less interval - the int n or the numeral, 0 included - is refused (the generic Exception) *)
Theorem C03L_to_seconds_unitless : forall T n, ltables_ok T = true ->
  to_seconds T (VInt n) = UException /\ to_seconds T (VStr (str_of_Z n)) = UException.
Proof. intros T n H. exact (ok_seconds_unitless T H n). Qed.
Print Assumptions C03L_to_seconds_unitless.

Theorem C03L_to_seconds_case_blanks : forall T l r s1 s2, ltables_ok T = true ->
  blank l = true -> blank r = true -> upper s1 = upper s2 ->
  to_seconds T (VStr (l ++ s1 ++ r)) = to_seconds T (VStr s2).
Proof. intros T l r s1 s2 H. exact (ok_seconds_case_blanks T H l r s1 s2). Qed.
Print Assumptions C03L_to_seconds_case_blanks.

(** * A new instance: every declared attribute reaches the scheduler.Application unchanged *)
(** lease: to_seconds of the declared spelling; '0s' = 0 when the key is absent *)
Theorem C03L_lease : forall T U codes name m asg bl o, ltables_ok T = true ->
  load_new_app T U codes name m asg bl = UOk o ->
  to_seconds T (match m_lease m with Some v => v | None => lease_default end) = UOk (ao_lease o) /\
  (m_lease m = None -> ao_lease o = 0).
Proof. intros T U codes name m asg bl o H. exact (ok_new_lease T H U codes name m asg bl o). Qed.
Print Assumptions C03L_lease.

(** data_retention_timeout: None when absent (NOT the constructor's default 0), else to_seconds *)
Theorem C03L_data_retention : forall T U codes name m asg bl o, ltables_ok T = true ->
  load_new_app T U codes name m asg bl = UOk o ->
  match m_drt m with
  | None => ao_drt o = None
  | Some v => exists s, to_seconds T v = UOk s /\ ao_drt o = Some s
  end.
Proof. intros T U codes name m asg bl o H. exact (ok_new_retention T H U codes name m asg bl o). Qed.
Print Assumptions C03L_data_retention.

(** traits: the OR of the declared traits' codes; a trait the cell does not know sets the INVALID trait's bit (so
    the instance fits no server), never nothing; no traits declared: 0 *)
Theorem C03L_app_traits : forall T U codes name m asg bl o iv, ltables_ok T = true ->
  load_new_app T U codes name m asg bl = UOk o -> tfind invalid_trait codes = Some iv ->
  ao_traits o = fold_left (fun acc t => Z.lor acc (app_bit iv codes t)) (declared_traits m) 0 /\
  (forall t, In t (declared_traits m) -> sub (app_bit iv codes t) (ao_traits o)) /\
  (declared_traits m = [] -> ao_traits o = 0).
Proof. intros T U codes name m asg bl o iv H. exact (ok_new_traits T H U codes name m asg bl o iv). Qed.
Print Assumptions C03L_app_traits.

Theorem C03L_codes_have_invalid : forall T ts, ltables_ok T = true ->
  exists iv, tfind invalid_trait (create_code T ts) = Some iv.
Proof. intros T ts H. exact (ok_codes_invalid T H ts). Qed.
Print Assumptions C03L_codes_have_invalid.

(** schedule_once: the RAW manifest value is stored (None when absent); the scheduler tests its truthiness *)
Theorem C03L_schedule_once : forall T U codes name m asg bl o, ltables_ok T = true ->
  load_new_app T U codes name m asg bl = UOk o ->
  ao_once o = match m_once m with Some v => v | None => TNone end.
Proof. intros T U codes name m asg bl o H. exact (ok_new_once T H U codes name m asg bl o). Qed.
Print Assumptions C03L_schedule_once.

Theorem C03L_new_instance_flags : forall T U codes name m asg bl o, ltables_ok T = true ->
  load_new_app T U codes name m asg bl = UOk o ->
  ao_name o = name /\ ao_blacklisted o = bl /\ ao_evicted o = false /\ ao_unschedule o = false /\
  ao_renew o = false /\ ao_server o = None /\ ao_expiry o = None.
Proof. intros T U codes name m asg bl o H. exact (ok_new_flags T H U codes name m asg bl o). Qed.
Print Assumptions C03L_new_instance_flags.

(** affinity: the declared name, None when the manifest has none (the scheduler does NOT derive it from the
    instance name); limits: the declared level -> limit entries, every other level unlimited (None = inf) *)
Theorem C04L_affinity : forall T U codes name m asg bl o, ltables_ok T = true ->
  load_new_app T U codes name m asg bl = UOk o ->
  ao_aff o = m_affinity m /\ ao_limits o = aff_limits (m_limits m) /\
  (forall lv, limit_at o lv = match m_limits m with Some l => sfind lv l | None => None end).
Proof. intros T U codes name m asg bl o H. exact (ok_new_affinity T H U codes name m asg bl o). Qed.
Print Assumptions C04L_affinity.

(** demand: resources(manifest) = [megabytes memory; cpu_units cpu; megabytes disk], in that order *)
Theorem C01L_demand : forall T U codes name m asg bl o, ltables_ok T = true ->
  load_new_app T U codes name m asg bl = UOk o ->
  resources U (m_res m) = UOk (ao_demand o) /\
  (units_tables_ok U = true ->
   exists mm c k, ao_demand o = [mm; c; k] /\ megabytes U (fval (r_memory (m_res m))) = UOk mm /\
                  cpu_units U (fval (r_cpu (m_res m))) = UOk c /\ megabytes U (fval (r_disk (m_res m))) = UOk k).
Proof. intros T U codes name m asg bl o H. exact (ok_new_demand T H U codes name m asg bl o). Qed.
Print Assumptions C01L_demand.

(** identity_group: the declared name; no identity yet *)
Theorem C05L_identity_group : forall T U codes name m asg bl o, ltables_ok T = true ->
  load_new_app T U codes name m asg bl = UOk o -> ao_group o = m_group m /\ ao_identity o = None.
Proof. intros T U codes name m asg bl o H. exact (ok_new_group T H U codes name m asg bl o). Qed.
Print Assumptions C05L_identity_group.

(** priority: the manifest's unless absent or -1; then the matching assignment's, 1 without one *)
Theorem C06L_priority_rule : forall T m asg, ltables_ok T = true ->
  prio_of T m asg =
  match m_priority m with
  | None => UOk (base asg)
  | Some v => ubind (intv v) (fun p => if p =? -1 then UOk (base asg) else UOk p)
  end.
Proof. intros T m asg H. exact (ok_prio_rule T H m asg). Qed.
Print Assumptions C06L_priority_rule.

Theorem C06L_new_priority : forall T U codes name m asg bl o, ltables_ok T = true ->
  load_new_app T U codes name m asg bl = UOk o ->
  (m_priority m = None -> ao_prio o = base asg) /\
  (forall v p, m_priority m = Some v -> intv v = UOk p -> ao_prio o = if p =? -1 then base asg else p).
Proof. intros T U codes name m asg bl o H. exact (ok_new_priority T H U codes name m asg bl o). Qed.
Print Assumptions C06L_new_priority.

(** non-vacuity of the hypothesis [load_new_app ... = UOk o]: a manifest whose fields parse is loaded *)
Theorem C03L_new_total : forall T U codes name m asg bl p d l dem iv, ltables_ok T = true ->
  prio_of T m asg = UOk p -> drt_of T m = UOk d -> lease_of T m = UOk l -> resources U (m_res m) = UOk dem ->
  tfind invalid_trait codes = Some iv ->
  exists o, load_new_app T U codes name m asg bl = UOk o.
Proof. intros T U codes name m asg bl p d l dem iv H. exact (ok_new_total T H U codes name m asg bl p d l dem iv). Qed.
Print Assumptions C03L_new_total.

(** * An EXISTING instance (the manifest changed, or a reload): only priority, data_retention_timeout and the
      blacklist flag are refreshed.  Demand, affinity, limits, identity group, schedule_once, traits and lease stay
      what the FIRST manifest declared, whatever the new manifest says (as built; stated as it is). *)
Theorem C06L_refresh_frame : forall T m asg bl o o', ltables_ok T = true ->
  refresh_app T m asg bl o = UOk o' ->
  same_rest o o' /\ prio_of T m asg = UOk (ao_prio o') /\ drt_of T m = UOk (ao_drt o') /\ ao_blacklisted o' = bl.
Proof. intros T m asg bl o o' H. exact (ok_refresh_frame T H m asg bl o o'). Qed.
Print Assumptions C06L_refresh_frame.

(** ... and the outcome depends on the new manifest only through priority, data_retention_timeout and lease *)
Theorem C06L_refresh_depends : forall T m1 m2 asg bl o, ltables_ok T = true ->
  m_priority m1 = m_priority m2 -> m_drt m1 = m_drt m2 -> m_lease m1 = m_lease m2 ->
  refresh_app T m1 asg bl o = refresh_app T m2 asg bl o.
Proof. intros T m1 m2 asg bl o H. exact (ok_refresh_depends T H m1 m2 asg bl o). Qed.
Print Assumptions C06L_refresh_depends.

(** the lease IS evaluated (and a malformed one fails the reload) although it is never assigned *)
Theorem C03L_refresh_lease_evaluated : forall T m asg bl o p d, ltables_ok T = true ->
  prio_of T m asg = UOk p -> drt_of T m = UOk d -> lease_of T m = UException ->
  refresh_app T m asg bl o = UException.
Proof. intros T m asg bl o p d H. exact (ok_refresh_lease_evaluated T H m asg bl o p d). Qed.
Print Assumptions C03L_refresh_lease_evaluated.

Theorem C03L_load_app_dispatch : forall T U codes existing name mo asg bl, ltables_ok T = true ->
  load_app T U codes existing name mo asg bl =
  match mo, existing with
  | None, _ => UOk LRemove
  | Some m, Some o => ubind (refresh_app T m asg bl o) (fun o' => UOk (LLoaded o'))
  | Some m, None => ubind (load_new_app T U codes name m asg bl) (fun o' => UOk (LLoaded o'))
  end.
Proof. intros T U codes existing name mo asg bl H. exact (ok_load_app_dispatch T U codes existing name mo asg bl). Qed.
Print Assumptions C03L_load_app_dispatch.

(** * A server record *)
(** partition -> label; absent, null or empty: '_default' *)
Theorem C03L_server_label : forall T U codes now name r s codes', ltables_ok T = true ->
  create_server T U codes now name r = (UOk s, codes') ->
  so_label s = match sr_partition r with Some (c :: x) => c :: x | _ => default_label end.
Proof. intros T U codes now name r s codes' H. exact (ok_srv_label T H U codes now name r s codes'). Qed.
Print Assumptions C03L_server_label.

(** traits: the cell's codes only grow; every declared trait has a code afterwards and its bit is in the server's
    mask; when all are known already the codes are untouched *)
Theorem C03L_server_traits : forall T U codes now name r s codes', ltables_ok T = true ->
  create_server T U codes now name r = (UOk s, codes') ->
  (forall t v, tfind t codes = Some v -> tfind t codes' = Some v) /\
  (forall t, In t (declared_srv_traits r) -> exists v, tfind t codes' = Some v /\ sub v (so_traits s)) /\
  (Forall (fun t => tfind t codes <> None) (declared_srv_traits r) ->
   codes' = codes /\
   so_traits s = fold_left (fun acc t => Z.lor acc (app_bit 0 codes t)) (declared_srv_traits r) 0).
Proof. intros T U codes now name r s codes' H. exact (ok_srv_traits T H U codes now name r s codes'). Qed.
Print Assumptions C03L_server_traits.

(** the new trait codes are kept even when the record's capacity cannot be parsed (the dict is mutated first) *)
Theorem C03L_server_codes_survive : forall T U codes now name r, ltables_ok T = true ->
  exists tz, encode T [0; 1] codes (declared_srv_traits r) = UOk (tz, snd (create_server T U codes now name r)).
Proof. intros T U codes now name r H. exact (ok_srv_codes_survive T H U codes now name r). Qed.
Print Assumptions C03L_server_codes_survive.

(** capacity: resources(record) = [megabytes memory; cpu_units cpu; megabytes disk]; all of it free *)
Theorem C01L_capacity : forall T U codes now name r s codes', ltables_ok T = true ->
  create_server T U codes now name r = (UOk s, codes') ->
  resources U (sr_res r) = UOk (so_cap s) /\ so_free s = so_cap s /\
  (units_tables_ok U = true ->
   exists mm c k, so_cap s = [mm; c; k] /\ megabytes U (fval (r_memory (sr_res r))) = UOk mm /\
                  cpu_units U (fval (r_cpu (sr_res r))) = UOk c /\ megabytes U (fval (r_disk (sr_res r))) = UOk k).
Proof. intros T U codes now name r s codes' H. exact (ok_srv_capacity T H U codes now name r s codes'). Qed.
Print Assumptions C01L_capacity.

Theorem C03L_server_rest : forall T U codes now name r s codes', ltables_ok T = true ->
  create_server T U codes now name r = (UOk s, codes') ->
  so_name s = name /\ so_up_since s = match sr_up_since r with Some t => t | None => now end /\
  so_valid_until s = 0 /\ so_parent s = None.
Proof. intros T U codes now name r s codes' H. exact (ok_srv_rest T H U codes now name r s codes'). Qed.
Print Assumptions C03L_server_rest.

(** load_server attaches exactly the created server under the declared parent, when that bucket exists *)
Theorem C03L_server_attached : forall T U codes now buckets name ro s codes', ltables_ok T = true ->
  load_server T U codes now buckets name ro = (LSAttached s, codes') ->
  exists r p s0, ro = Some r /\ sr_parent r = Some p /\ existsb (str_eqb p) buckets = true /\
                 create_server T U codes now name r = (UOk s0, codes') /\
                 so_parent s = Some p /\ so_label s = so_label s0 /\ so_cap s = so_cap s0 /\
                 so_free s = so_free s0 /\ so_traits s = so_traits s0 /\ so_up_since s = so_up_since s0 /\
                 so_valid_until s = so_valid_until s0 /\ so_name s = so_name s0.
Proof. intros T U codes now buckets name ro s codes' H. exact (ok_srv_attached T H U codes now buckets name ro s codes'). Qed.
Print Assumptions C03L_server_attached.

Theorem C03L_server_not_attached : forall T U codes now buckets name r, ltables_ok T = true ->
  (load_server T U codes now buckets name None = (LSNoData, codes)) /\
  (sr_parent r = None -> forall s c', create_server T U codes now name r = (UOk s, c') ->
     load_server T U codes now buckets name (Some r) = (LSAssertion, c')) /\
  (forall p, sr_parent r = Some p -> existsb (str_eqb p) buckets = false ->
     forall s c', create_server T U codes now name r = (UOk s, c') ->
     load_server T U codes now buckets name (Some r) = (LSNoParent, c')).
Proof. intros T U codes now buckets name r H. exact (ok_srv_not_attached T U codes now buckets name r). Qed.
Print Assumptions C03L_server_not_attached.

(** * The scheduler model's view (Sched/Events.v): the record handed to OAddApp carries the object's attributes;
      with an injective naming its limit lookup is the object's; a reload of an existing instance, as a run of the
      model, changes priority, data retention, blacklist flag and allocation of that instance and nothing else *)
Theorem C03L_sched_view : forall (id : str -> Z) none_aff order o,
  let a := sched_app id none_aff order o in
  a_name a = id (ao_name o) /\ a_prio a = ao_prio o /\ a_demand a = ao_demand o /\
  a_traits a = ao_traits o /\ a_lease a = ao_lease o /\ a_drt a = ao_drt o /\
  a_group a = option_map id (ao_group o) /\ a_once a = truthy (ao_once o) /\
  a_blacklisted a = ao_blacklisted o /\ a_identity a = ao_identity o /\ a_order a = order /\
  (forall lv, aff_limit a (id lv) = aget (id lv) (map (fun kv => (id (fst kv), snd kv)) (ao_limits o))).
Proof. intros id none_aff order o. exact (sched_app_fields id none_aff order o). Qed.
Print Assumptions C03L_sched_view.

Theorem C04L_sched_limits : forall (id : str -> Z) none_aff order o lv,
  (forall a b, id a = id b -> a = b) ->
  aff_limit (sched_app id none_aff order o) (id lv) = limit_at o lv.
Proof. intros id none_aff order o lv Hinj. exact (aget_map_id id Hinj lv (ao_limits o)). Qed.
Print Assumptions C04L_sched_limits.

Theorem C06L_reload_existing_cell : forall (id : str -> Z) none_aff c label path order o old,
  get_app (id (ao_name o)) (c_apps c) = Some old ->
  let c' := run c (load_app_ops id none_aff label path order true o) in
  get_app (id (ao_name o)) (c_apps c') =
    Some (old <| a_prio := ao_prio o |> <| a_drt := ao_drt o |> <| a_blacklisted := ao_blacklisted o |>
              <| a_alloc := Some (label, path) |>) /\
  (forall n, n <> id (ao_name o) -> get_app n (c_apps c') = get_app n (c_apps c)).
Proof. intros id none_aff c label path order o old H. exact (load_existing_cell id none_aff c label path order o old H). Qed.
Print Assumptions C06L_reload_existing_cell.

(** * Non-vacuity, on the GENERATED tables *)
Definition LT := loadapp_tables.
Definition UT := units_tables.
Definition cell_codes : tcodes := create_code LT [[115; 115; 100]; [103; 112; 117]].     (* ["ssd"; "gpu"] *)
Example C03L_ex_codes : cell_codes = [(invalid_trait, 1); ([115; 115; 100], 2); ([103; 112; 117], 4)].
Proof. vm_compute. reflexivity. Qed.

(* {memory: "2G", cpu: "50%", disk: "512M", priority: "7", affinity: "foo.web", affinity_limits: {rack: 1},
    identity_group: "foo.grp", schedule_once: 1, data_retention_timeout: " 2H ", lease: "30m",
    traits: ["gpu"; "nvme"]} *)
Definition ex_full : manifest := {|
  m_priority := Some (VStr [55]);
  m_res := {| r_memory := Some (VStr [50; 71]); r_cpu := Some (VStr [53; 48; 37]);
              r_disk := Some (VStr [53; 49; 50; 77]) |};
  m_affinity := Some [102; 111; 111; 46; 119; 101; 98];
  m_limits := Some [([114; 97; 99; 107], 1)];
  m_group := Some [102; 111; 111; 46; 103; 114; 112];
  m_once := Some (TInt 1);
  m_drt := Some (VStr [32; 50; 72; 32]);
  m_lease := Some (VStr [51; 48; 109]);
  m_traits := Some [[103; 112; 117]; [110; 118; 109; 101]] |}.
Definition ex_name : str := [102; 111; 111; 46; 119; 101; 98; 35; 49].
Example C03L_ex_full :
  load_new_app LT UT cell_codes ex_name ex_full (Some 3) true =
  UOk (mkAO ex_name 7 [2048; 50; 512] (Some [102; 111; 111; 46; 119; 101; 98]) [([114; 97; 99; 107], 1)]
            (Some 7200) 1800 (Some [102; 111; 111; 46; 103; 114; 112]) None 5 (TInt 1) true false false false
            None None).
Proof. vm_compute. reflexivity. Qed.

(* {} apart from other keys: every default *)
Definition ex_empty : manifest := {|
  m_priority := None; m_res := {| r_memory := None; r_cpu := None; r_disk := None |}; m_affinity := None;
  m_limits := None; m_group := None; m_once := None; m_drt := None; m_lease := None; m_traits := None |}.
Example C03L_ex_defaults :
  load_new_app LT UT cell_codes ex_name ex_empty None false =
  UOk (mkAO ex_name 1 [0; 0; 0] None [] None 0 None None 0 TNone false false false false None None).
Proof. vm_compute. reflexivity. Qed.
Example C06L_ex_assignment_priority :
  prio_of LT ex_empty (Some 42) = UOk 42 /\
  prio_of LT {| m_priority := Some (VInt (-1)); m_res := m_res ex_empty; m_affinity := None; m_limits := None;
                m_group := None; m_once := None; m_drt := None; m_lease := None; m_traits := None |} (Some 42)
  = UOk 42 /\
  prio_of LT ex_full (Some 42) = UOk 7 /\ prio_of LT ex_empty None = UOk 1.
Proof. vm_compute. repeat split; reflexivity. Qed.
Example C04L_ex_limit_default :
  limit_at (mkAO ex_name 7 [] None [([114; 97; 99; 107], 1)] None 0 None None 0 TNone false false false false
                 None None) [99; 101; 108; 108] = None.
Proof. vm_compute. reflexivity. Qed.

(* a reload of the instance of ex_full with the empty manifest: priority back to the assignment's, data retention
   gone, blacklist flag cleared - and demand, affinity, limits, group, once, lease, traits as before *)
Example C06L_ex_refresh :
  match load_new_app LT UT cell_codes ex_name ex_full (Some 3) true with
  | UOk o => refresh_app LT ex_empty (Some 3) false o
  | _ => UException
  end =
  UOk (mkAO ex_name 3 [2048; 50; 512] (Some [102; 111; 111; 46; 119; 101; 98]) [([114; 97; 99; 107], 1)]
            None 1800 (Some [102; 111; 111; 46; 103; 114; 112]) None 5 (TInt 1) false false false false None None).
Proof. vm_compute. reflexivity. Qed.
(* lease: "5" (no unit) in the new manifest: the reload raises although the lease would not be assigned *)
Example C03L_ex_refresh_bad_lease :
  forall o, refresh_app LT {| m_priority := None; m_res := m_res ex_empty; m_affinity := None; m_limits := None;
                              m_group := None; m_once := None; m_drt := None; m_lease := Some (VStr [53]);
                              m_traits := None |} None false o = UException.
Proof. intros o. vm_compute. reflexivity. Qed.
Example C03L_ex_unknown_trait_without_codes :
  load_new_app LT UT [] ex_name ex_full None false = UException.
Proof. vm_compute. reflexivity. Qed.

(* servers: {memory: "16G", cpu: "400%", disk: "100G", traits: ["ssd"; "nvme"], parent: "rack0"} *)
Definition ex_srv : srv_rec := {|
  sr_partition := None;
  sr_res := {| r_memory := Some (VStr [49; 54; 71]); r_cpu := Some (VStr [52; 48; 48; 37]);
               r_disk := Some (VStr [49; 48; 48; 71]) |};
  sr_traits := Some [[115; 115; 100]; [110; 118; 109; 101]];
  sr_up_since := None;
  sr_parent := Some [114; 97; 99; 107; 48] |}.
Example C03L_ex_server :
  load_server LT UT cell_codes 1000 [[114; 97; 99; 107; 48]] [115; 49] (Some ex_srv) =
  (LSAttached (mkSO [115; 49] default_label [16384; 400; 102400] [16384; 400; 102400] 10 1000 0
                    (Some [114; 97; 99; 107; 48])),
   cell_codes ++ [([110; 118; 109; 101], 8)]).
Proof. vm_compute. reflexivity. Qed.
Example C03L_ex_server_empty_partition :
  fst (create_server LT UT cell_codes 1000 [115; 49]
         {| sr_partition := Some []; sr_res := sr_res ex_srv; sr_traits := None; sr_up_since := Some 5;
            sr_parent := None |}) =
  UOk (mkSO [115; 49] default_label [16384; 400; 102400] [16384; 400; 102400] 0 5 0 None).
Proof. vm_compute. reflexivity. Qed.
Example C03L_ex_server_named_partition :
  fst (create_server LT UT cell_codes 1000 [115; 49]
         {| sr_partition := Some [112; 49]; sr_res := sr_res ex_srv; sr_traits := None; sr_up_since := Some 5;
            sr_parent := None |}) =
  UOk (mkSO [115; 49] [112; 49] [16384; 400; 102400] [16384; 400; 102400] 0 5 0 None).
Proof. vm_compute. reflexivity. Qed.
(* capacity "16" (no unit): the record is refused, the new trait code stays *)
Example C03L_ex_server_codes_survive :
  create_server LT UT cell_codes 1000 [115; 49]
    {| sr_partition := None; sr_res := {| r_memory := Some (VStr [49; 54]); r_cpu := None; r_disk := None |};
       sr_traits := Some [[110; 118; 109; 101]]; sr_up_since := None; sr_parent := None |} =
  (UException, cell_codes ++ [([110; 118; 109; 101], 8)]).
Proof. vm_compute. reflexivity. Qed.
Example C03L_ex_server_unknown_parent :
  fst (load_server LT UT cell_codes 1000 [[114; 97; 99; 107; 49]] [115; 49] (Some ex_srv)) = LSNoParent.
Proof. vm_compute. reflexivity. Qed.
Example C03L_ex_seconds :
  to_seconds LT (VStr [49; 100]) = UOk 86400 /\ to_seconds LT (VStr [32; 57; 48; 77; 10]) = UOk 5400 /\
  to_seconds LT (VStr [53]) = UException /\ to_seconds LT (VInt 0) = UException /\
  to_seconds LT (VStr []) = UIndexError /\ to_seconds LT (VStr [104]) = UValueError.
Proof. vm_compute. repeat split; reflexivity. Qed.
(* the hypotheses of C03L_to_seconds hold for " 90m\n" *)
Example C03L_ex_spells : spells [32; 57; 48; 109; 10] (str_of_Z 90 ++ [77]) = true.
Proof. vm_compute. reflexivity. Qed.
