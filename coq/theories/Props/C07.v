(** C07  A running instance is displaced only for an instance ahead of it in the queue.

    Proved on the model (Sched/FrameP.v), for every cell state, queue and placer:
      C07_victims_behind        the eviction scan run for a placer changes no instance other than the placer and the
                                instances strictly behind it (scanning from the end of the queue up to the placer);
      C07_attempt_touches_nobody_else   a fresh placement attempt for an instance changes no other instance;
      C07_victims_on_up_servers / C07_blacklisted_inert   the scan never evicts from a server that is not up; a
                                blacklisted instance causes no change at its turn.
    Refuted on the code as it is (known finding, consequence of the stale-placement finding of C03):
      C07_stale_refuted         an instance whose placement no longer satisfies its allocation's traits is evicted for
                                an instance ahead of it that then fails to place, and cannot be restored.
    Partial: the full statement (still on its server unless an instance strictly ahead gained a placement) needs the
    loop invariant over queue positions of DESIGN.md section 7; it is decided by the correspondence (the queue and the
    placement tuples are in every cycle digest) and the C07 oracle on the captured queue. *)
From Coq Require Import ZArith QArith List Bool.
From TM Require Import Sched.Vec Sched.Types Sched.Tree Sched.Cycle Sched.Events Sched.MapsP Sched.Steps Sched.FrameP.
Import ListNotations.
Open Scope Z_scope.

Theorem C07_victims_behind : forall victims placer c ev m,
  m <> placer -> ~ In m (before_placer victims placer) ->
  get_app m (c_apps (fst (evict_scan victims placer c ev))) = get_app m (c_apps c).
Proof. exact evict_scan_victims_behind. Qed.
Print Assumptions C07_victims_behind.

Theorem C07_attempt_touches_nobody_else : forall fuel c b an m,
  m <> an -> get_app m (c_apps (fst (bucket_put fuel c b an))) = get_app m (c_apps c).
Proof. intros fuel c b an m H. exact (bucket_put_others fuel c b an m H). Qed.
Print Assumptions C07_attempt_touches_nobody_else.

Theorem C07_victims_on_up_servers : forall victims placer c ev n s,
  get_srv n (c_servers c) = Some s -> s_state s <> Up ->
  get_srv n (c_servers (fst (evict_scan victims placer c ev))) = Some s.
Proof. intros victims placer c ev n s H1 H2. exact (evict_scan_nonup victims placer c ev n s H1 H2). Qed.
Print Assumptions C07_victims_on_up_servers.

Theorem C07_blacklisted_inert : forall rq st an a,
  get_app an (c_apps (l_cell st)) = Some a -> a_blacklisted a = true -> place_one rq st an = st.
Proof. exact place_one_blacklisted. Qed.
Print Assumptions C07_blacklisted_inert.

(** the code as it is: instance 1 runs on server 1000 (no traits); its allocation then requires trait 1;
    instance 2 (higher priority, too big for the free room) evicts it, still does not fit, and 1 cannot be restored *)
Definition ex_a (n p o : Z) (d : vec) : app :=
  mkApp n p d 3000 [] 0 0 None None false o None None None None false false false false (-1).
Definition ex_ops : list op :=
  [ OAddBucket 2001 3 2000; OAddServer 1000 2001 [100;100;100] 4000 0 0;
    OAddApp 4000 [6000] (ex_a 1 1 1 [60;60;60]); OSchedule [];
    OUpdateAlloc 4000 [6000] [0;0;0] 100 0 None 1;
    OAddApp 4000 [6000] (ex_a 2 9 2 [200;200;200]); OSchedule [] ].
Theorem C07_stale_refuted :
  let c0 := run (init_cell 3 2000 1) (firstn 6 ex_ops) in
  let c := run (init_cell 3 2000 1) ex_ops in
  exists a0 s a b, get_app 1 (c_apps c0) = Some a0 /\ a_server a0 = Some 1000 /\ a_blacklisted a0 = false /\
                   get_srv 1000 (c_servers c0) = Some s /\ s_state s = Up /\
                   get_app 1 (c_apps c) = Some a /\ a_server a = None /\
                   get_app 2 (c_apps c) = Some b /\ a_server b = None.
Proof. vm_compute. do 4 eexists. repeat split; reflexivity. Qed.
Print Assumptions C07_stale_refuted.
