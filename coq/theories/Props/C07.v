(** C07  A running instance is displaced only for an instance ahead of it in the queue.

    Proved on the model:
      C07_displaced_only_for_one_ahead   for every reachable state and the cycle run from it: an instance that sits on
                                a server, is not blacklisted, not flagged for renewal, holds an identity valid for the
                                current group size, is not ranked beyond the utilisation cap in this cycle's queue, is
                                not due to be moved off an inactive server, and whose placement is still admissible for
                                its allocation (partition label and traits of the server - the proviso that the known
                                finding below shows to be necessary) EITHER is on the same server after the cycle OR
                                some other instance that was NOT on that server before the cycle IS on it afterwards and
                                had its turn strictly before it in the cycle's turn order (the concatenation of the
                                partition queues).  The proof is a resource-accounting argument over the loop: the only
                                way the restore of an evicted instance can be refused is that somebody new took the
                                room or the affinity head-room on its server (Sched/DisplaceP.v restore_guard,
                                find_placements_displaced; Sched/DisplaceC.v schedule_displaced; Sched/Reach.v);
      C07_victims_behind        the eviction scan run for a placer changes no instance other than the placer and the
                                instances strictly behind it;
      C07_attempt_touches_nobody_else   a fresh placement attempt for an instance changes no other instance;
      C07_victims_on_up_servers / C07_blacklisted_inert.
    Refuted without the admissibility proviso, on the code as it is (known finding, consequence of the stale-placement
    finding of C03):
      C07_stale_refuted         an instance whose placement no longer satisfies its allocation's traits is evicted for
                                an instance ahead of it that then fails to place, and cannot be restored.
    Side conditions of reachability (reachableA): those of C03/C05/C08 plus "instances of one affinity declare the same
    limits" (the proviso of C04). *)
From Coq Require Import ZArith QArith List Bool.
From TM Require Import Sched.Vec Sched.Types Sched.Queue Sched.Tree Sched.Cycle Sched.Events Sched.MapsP Sched.Steps Sched.FrameP
                       Sched.InvAcct Sched.InvAff Sched.InvIdent Sched.TurnP Sched.CycleP Sched.KeepP Sched.DisplaceC Sched.Reach.
From TM Require Import Base.ShapeCanon.
Import ListNotations.
Open Scope Z_scope.

Theorem C07_victims_behind : forall victims placer c ev m,
  m <> placer -> ~ In m (before_placer victims placer) ->
  get_app m (c_apps (fst (evict_scan victims placer c ev))) = get_app m (c_apps c).
Proof. exact evict_scan_victims_behind. Qed.
Print Assumptions C07_victims_behind.

Theorem C07_attempt_touches_nobody_else : forall fuel c b an m,
  m <> an -> get_app m (c_apps (fst (bucket_put fuel c b an))) = get_app m (c_apps c).
Proof. intros fuel c b an m H. exact (bucket_put_others fuel c b an m H). Qed.
Print Assumptions C07_attempt_touches_nobody_else.

Theorem C07_victims_on_up_servers : forall victims placer c ev n s,
  get_srv n (c_servers c) = Some s -> s_state s <> Up ->
  get_srv n (c_servers (fst (evict_scan victims placer c ev))) = Some s.
Proof. intros victims placer c ev n s H1 H2. exact (evict_scan_nonup victims placer c ev n s H1 H2). Qed.
Print Assumptions C07_victims_on_up_servers.

Theorem C07_blacklisted_inert : forall rq st an a,
  get_app an (c_apps (l_cell st)) = Some a -> a_blacklisted a = true -> place_one rq st an = st.
Proof. exact place_one_blacklisted. Qed.
Print Assumptions C07_blacklisted_inert.

Theorem C07_displaced_only_for_one_ahead : forall c ch x a n s, reachableA c ->
  get_app x (c_apps c) = Some a -> a_server a = Some n -> get_srv n (c_servers c) = Some s ->
  a_blacklisted a = false -> a_renew a = false ->
  (s_state s = Down -> expired c (s_since s) a = false) -> (s_state s = Frozen -> a_unschedule a = false) ->
  (forall i g grp, a_identity a = Some i -> a_group a = Some g -> aget g (c_groups c) = Some grp -> i < g_count grp) ->
  (forall l, app_label a = Some l -> l = s_label s) ->
  (app_traits c a = 0 \/ has_traits (s_traits s) (app_traits c a) = true) ->
  (forall label q e, In (label, q) (snd (fst (schedule c ch))) -> In e q -> e_app e = x -> e_rank e <> UNPLACED_RANK) ->
  (exists a', get_app x (c_apps (step c (OSchedule ch))) = Some a' /\ a_server a' = Some n) \/
  (exists z az bz l1 l2 l3,
      turns (snd (fst (schedule c ch))) = l1 ++ z :: l2 ++ x :: l3 /\
      get_app z (c_apps c) = Some az /\ a_server az <> Some n /\
      get_app z (c_apps (step c (OSchedule ch))) = Some bz /\ a_server bz = Some n).
Proof.
  intros c ch x a n s Hr Ha Hsv Hs Hbl Hren Hd Hf Hid Hlab Htr Hrank.
  apply (reachable_displaced c ch x a n s Hr); try assumption.
  constructor; try assumption. intros i g k Hi Hg Hk. unfold gcount in Hk.
  destruct (aget g (c_groups c)) as [grp|] eqn:E; [|discriminate]. inversion Hk; subst k. exact (Hid i g grp Hi Hg E).
Qed.
Print Assumptions C07_displaced_only_for_one_ahead.

(** the code as it is: instance 1 runs on server 1000 (no traits); its allocation then requires trait 1;
    instance 2 (higher priority, too big for the free room) evicts it, still does not fit, and 1 cannot be restored *)
Definition ex_a (n p o : Z) (d : vec) : app :=
  mkApp n p d 3000 [] 0 0 None None false o None None None None false false false false (-1).
Definition ex_ops : list op :=
  [ OAddBucket 2001 3 2000; OAddServer 1000 2001 [100;100;100] 4000 0 0;
    OAddApp 4000 [6000] (ex_a 1 1 1 [60;60;60]); OSchedule [];
    OUpdateAlloc 4000 [6000] [0;0;0] 100 0 None 1;
    OAddApp 4000 [6000] (ex_a 2 9 2 [200;200;200]); OSchedule [] ].
Theorem C07_stale_refuted :
  let c0 := run (init_cell 3 2000 1) (firstn 6 ex_ops) in
  let c := run (init_cell 3 2000 1) ex_ops in
  exists a0 s a b, get_app 1 (c_apps c0) = Some a0 /\ a_server a0 = Some 1000 /\ a_blacklisted a0 = false /\
                   get_srv 1000 (c_servers c0) = Some s /\ s_state s = Up /\
                   get_app 1 (c_apps c) = Some a /\ a_server a = None /\
                   get_app 2 (c_apps c) = Some b /\ a_server b = None.
Proof. vm_compute. do 4 eexists. repeat split; reflexivity. Qed.
Print Assumptions C07_stale_refuted.

(** non-vacuity of C07_displaced_only_for_one_ahead: both outcomes occur from reachable states.
    [ex_ops_stay]: instance 1 (60) runs on the only server (100); instance 2 (priority 9, 200) is ahead, evicts it, does
    not fit; 1 is restored.  [ex_ops_move]: instance 3 (priority 9, 90) is ahead, evicts 1 and fits; 1 is displaced and
    3 - not on the server before - is on it afterwards. *)
Definition ex_ops_stay : list op :=
  [ OAddBucket 2001 3 2000; OAddServer 1000 2001 [100;100;100] 4000 0 0;
    OAddApp 4000 [6000] (ex_a 1 1 1 [60;60;60]); OSchedule [];
    OAddApp 4000 [6000] (ex_a 2 9 2 [200;200;200]) ].
Definition ex_ops_move : list op :=
  [ OAddBucket 2001 3 2000; OAddServer 1000 2001 [100;100;100] 4000 0 0;
    OAddApp 4000 [6000] (ex_a 1 1 1 [60;60;60]); OSchedule [];
    OAddApp 4000 [6000] (ex_a 3 9 3 [90;90;90]) ].
Example C07_nonvacuous_reachable :
  reachableA (run (init_cell 3 2000 1) ex_ops_stay) /\ reachableA (run (init_cell 3 2000 1) ex_ops_move).
Proof.
  split; [exists 3%nat, 2000, 1, ex_ops_stay|exists 3%nat, 2000, 1, ex_ops_move];
    (split; [apply wf_ops_allb_sound; vm_compute; reflexivity|split; [apply wf_ops_affb_sound; vm_compute; reflexivity|reflexivity]]).
Qed.
Example C07_nonvacuous_outcomes :
  let c1 := run (init_cell 3 2000 1) ex_ops_stay in
  let c2 := run (init_cell 3 2000 1) ex_ops_move in
  (option_map a_server (get_app 1 (c_apps c1)) = Some (Some 1000) /\
   turns (snd (fst (schedule c1 []))) = [2; 1] /\
   option_map a_server (get_app 1 (c_apps (step c1 (OSchedule [])))) = Some (Some 1000)) /\
  (option_map a_server (get_app 1 (c_apps c2)) = Some (Some 1000) /\
   turns (snd (fst (schedule c2 []))) = [3; 1] /\
   option_map a_server (get_app 1 (c_apps (step c2 (OSchedule [])))) = Some None /\
   option_map a_server (get_app 3 (c_apps c2)) = Some None /\
   option_map a_server (get_app 3 (c_apps (step c2 (OSchedule [])))) = Some (Some 1000)).
Proof. vm_compute. repeat split; reflexivity. Qed.

(** the functions of treadmill/scheduler/__init__.py these theorems were proved about still have the statement
    skeleton the model was written from (re-extracted from the Python AST on every run, harness/tables_shape.py;
    kept last so that a difference does not stop the theorems above from being checked) *)
Theorem C07_source_shape : shapes_ok_C07 = true.
Proof. vm_compute. reflexivity. Qed.
Print Assumptions C07_source_shape.
