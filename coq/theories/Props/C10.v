(** C10  A master crash at any point never leaves an instance placed twice.

    Model: Master/Publish.v (publication = pure function to an ordered write list; store = the
    /placement/<server>/<app> nodes).  The order of the loops of Master.reschedule / Master.init_schedule, the
    changed-placement filter, the two-pass / content-reconciling form of init_schedule and the map update of
    check_placement_integrity are read from master.py / loader.py on every run (Gen.Tables c10_...).

    PROVED AT FULL STRENGTH (all inputs, every crash point, no bound):
      C10_crash_no_double       every prefix of the write list of Master.reschedule leaves no instance under
                                two servers, provided the store held nothing for a listed instance outside
                                the server the cycle read as `before` ([within_before], the exact invariant)
      C10_init_crash_no_double  every prefix of the write list of Master.init_schedule (all stale nodes of all
                                servers deleted first, then the missing ones created / differing ones rewritten)
                                leaves no instance under two servers, provided every node lies under a server of
                                the model   [repaired by "fix: init_schedule removes all stale placement before it
                                creates any"; the old failing input is C10_init_crash_regression and corpus/c10.json]
      C10_published_after_all_writes   the whole write list of reschedule produces exactly the `after` column
      C10_integrity_on_clean_store, C10_integrity_delete_only,
      C10_integrity_repair_then_pass   unless the first pass hits its own "no repair possible" assertion, the check
                                passes -- after removing the duplicates it found -- whenever every placed instance has
                                an entry under the model's server   [repaired by "fix: check_placement_integrity keeps
                                its app2server map in step with its own repair"; old failing input:
                                C10_integrity_regression]
      C10_restart_drops_duplicates
    REFUTED ON THE CURRENT TREE (known finding, model follows the code):
      C10_stale_entry_refuted   [within_before] is necessary: an entry left behind under a server whose record was
                                deleted (masterapi.delete_server racing with a cycle) becomes a double entry at the
                                next publication
    ONLY ORACLE + CORRESPONDENCE (harness/props/c10.py, E-master): that [within_before] / "every node under a server
    of the model" hold between cycles for the real handlers, and that the restarted master (load_model;
    init_schedule; check_placement_integrity) completes on every cut. *)
From Coq Require Import ZArith List Bool.
From TM Require Import Master.Publish Master.PublishP Gen.Tables.
From TM Require Import Base.ShapeCanon.
Import ListNotations.
Open Scope Z_scope.

Definition c10_cfg : cfg :=
  cfg_of_tables c10_reschedule_phases c10_changed_filter c10_init_phases c10_init_flags c10_integrity_flags.

(** the source has the shape the proofs are about: reschedule = deletions, then creations, then _unschedule_evicted,
    then _save_placement, both comparisons in the filter; init_schedule = one loop over all servers deleting, a second
    one creating and reconciling content; check_placement_integrity updates app2server after a repair *)
Theorem C10_source_shape : cfg_canonical c10_cfg = true.
Proof. vm_compute. reflexivity. Qed.
Print Assumptions C10_source_shape.
Lemma c10_cfg_is : c10_cfg = canonical_cfg.
Proof. exact (cfg_canonical_eq c10_cfg C10_source_shape). Qed.

Theorem C10_crash_no_double : forall tuples i once st k,
  NoDup (map t_name tuples) ->
  no_double st ->
  within_before tuples st ->
  no_double (apply_writes st (firstn k (reschedule_writes c10_cfg tuples i once))).
Proof.
  intros tuples i once st k H1 H2 H3.
  exact (resched_prefix_no_double c10_cfg tuples i once st k C10_source_shape H1 H2 H3).
Qed.
Print Assumptions C10_crash_no_double.

Theorem C10_published_after_all_writes : forall tuples i once st,
  NoDup (map t_name tuples) ->
  within_before tuples st ->
  unchanged_published tuples i st ->
  let final := apply_writes st (reschedule_writes c10_cfg tuples i once) in
  (forall t, In t tuples -> forall s,
     lookup final s (t_name t) = if oeqb (t_sa t) (Some s) then Some (get_info i (t_name t)) else None) /\
  (forall a, ~ In a (map t_name tuples) -> forall s, lookup final s a = lookup st s a).
Proof.
  intros tuples i once st H1 H2 H3.
  exact (resched_final c10_cfg tuples i once st C10_source_shape H1 H2 H3).
Qed.
Print Assumptions C10_published_after_all_writes.

Theorem C10_init_crash_no_double : forall st i members k,
  no_double st ->
  functional (members_target members) ->
  (forall s a, has st s a = true -> In s (map fst members)) ->
  no_double (apply_writes st (firstn k (init_writes c10_cfg st i members))).
Proof.
  intros st i members k H1 H2 H3.
  exact (init_prefix_no_double c10_cfg st i members k C10_source_shape H1 H2 H3).
Qed.
Print Assumptions C10_init_crash_no_double.

(** regression + non-vacuity: the input that used to leave a double entry (instance 7 recorded under server 2, the
    start-up cycle moved it to server 1, server 1 first in cell.members()) satisfies the hypotheses and is now free
    of double entries at every cut: [ensure 1; ensure 2; delete 2/7; put 1/7; save] *)
Definition rx_store : store := [(2, 7, mkPD None None (Some 100))].
Definition rx_info : info := [(7, mkPD None None (Some 100))].
Definition rx_members : list (Z * list Z) := [(1, [7]); (2, [])].
Example C10_init_crash_regression :
  no_double rx_store /\ functional (members_target rx_members) /\
  (forall s a, has rx_store s a = true -> In s (map fst rx_members)) /\
  flat_writes (init_writes c10_cfg rx_store rx_info rx_members) =
    [5; 3; 1; 3; 2; 1; 2; 7; 2; 1; 7; -1; -1; 1; 100; 6] /\
  doubles_at_cuts rx_store (init_writes c10_cfg rx_store rx_info rx_members) = [0; 0; 0; 0; 0; 0].
Proof.
  split; [apply no_doubleb_sound; vm_compute; reflexivity|]. split.
  - intros a s1 s2 [c1 [I1 Z1]] [c2 [I2 Z2]]. cbn in I1, I2.
    destruct I1 as [I1|[I1|[]]], I2 as [I2|[I2|[]]]; inversion I1; inversion I2; subst; try reflexivity;
      cbn in Z1, Z2; discriminate.
  - split.
    + intros s a H. unfold rx_store, has in H. cbn [existsb] in H. rewrite orb_false_r in H.
      apply key_is_true in H as [<- _]. cbn. auto.
    + split; vm_compute; reflexivity.
Qed.

(** the hypothesis of C10_crash_no_double cannot be dropped: the store still holds 1/7 while the model has
    un-placed 7 (Loader.remove_server); the next cycle places 7 on server 2 *)
Theorem C10_stale_entry_refuted : exists tuples i once st,
  NoDup (map t_name tuples) /\ no_double st /\
  ~ no_double (apply_writes st (reschedule_writes c10_cfg tuples i once)).
Proof.
  exists [(7, None, None, Some 2, Some 100)], [(7, mkPD None None (Some 100))], [],
         [(1, 7, mkPD None None (Some 50))].
  split; [repeat constructor; cbn; intuition|].
  split; [apply no_doubleb_sound; vm_compute; reflexivity|].
  intros H. specialize (H 7 1 2). vm_compute in H. specialize (H eq_refl eq_refl). discriminate.
Qed.
Print Assumptions C10_stale_entry_refuted.

(** Loader.check_placement_integrity *)
Theorem C10_integrity_on_clean_store : forall wh placed pairs,
  NoDup (map snd pairs) ->
  fst (integrity (cf_integ_update c10_cfg) wh placed pairs) = [] /\
  (snd (integrity (cf_integ_update c10_cfg) wh placed pairs) = IOk <-> forall a s, In (a, s) placed -> In (s, a) pairs) /\
  (snd (integrity (cf_integ_update c10_cfg) wh placed pairs) = IOk \/
   snd (integrity (cf_integ_update c10_cfg) wh placed pairs) = IAssertFailed).
Proof. intros wh placed pairs H. exact (integrity_nodup (cf_integ_update c10_cfg) wh placed pairs H). Qed.
Print Assumptions C10_integrity_on_clean_store.

Theorem C10_integrity_delete_only : forall wh placed pairs,
  Forall (fun w => is_put w = false) (fst (integrity (cf_integ_update c10_cfg) wh placed pairs)).
Proof. intros wh placed pairs. exact (integrity_writes_delete_only (cf_integ_update c10_cfg) wh placed pairs). Qed.
Print Assumptions C10_integrity_delete_only.

(** repair, then pass *)
Theorem C10_integrity_repair_then_pass : forall wh placed pairs,
  (forall a s, In (a, s) placed -> wh a = Some (Some s) /\ In (s, a) pairs) ->
  snd (integrity (cf_integ_update c10_cfg) wh placed pairs) <> IKeyError ->
  snd (integrity (cf_integ_update c10_cfg) wh placed pairs) <> IAssertNeither ->
  snd (integrity (cf_integ_update c10_cfg) wh placed pairs) = IOk.
Proof.
  rewrite c10_cfg_is. intros wh placed pairs H1 H2 H3. exact (integrity_repair_then_pass wh placed pairs H1 H2 H3).
Qed.
Print Assumptions C10_integrity_repair_then_pass.

(** regression: instance 7 under servers 1 and 2, the model has it on 2 (the entry listed second).  The check deletes
    1/7, after which the store is exactly the model, and -- this used to be 'Placement integrity failed.' -- passes *)
Example C10_integrity_regression :
  let st := [(1, 7, no_pdata); (2, 7, no_pdata)] in
  let r := integrity (cf_integ_update c10_cfg) (where_of [(7, 2)] [7]) [(7, 2)] (store_pairs st [1; 2]) in
  fst r = [WDel 1 7] /\ snd r = IOk /\ flat_store (apply_writes st (fst r)) = [1; 2; 7; -1; -1; -1].
Proof. vm_compute. repeat split. Qed.

(** Loader.restore_placements: after the duplicate pass no instance is left under two servers, and an instance
    restored under exactly one server keeps its node *)
Theorem C10_restart_drops_duplicates : forall restored st,
  (forall s a, has st s a = true -> exists l, In (s, l) restored /\ zmem a l = true) ->
  let final := apply_writes st (dedup_writes restored) in
  no_double final /\
  (forall s a, restored_on restored a = [s] -> lookup final s a = lookup st s a).
Proof. intros restored st H. exact (dedup_no_double restored st H). Qed.
Print Assumptions C10_restart_drops_duplicates.

(** non-vacuity: a cycle that moves 1 (srv 10 -> 11), renews 2 on 10, places 3 on 11, evicts 4 from 11 and
    leaves 5 alone; the store agrees with the `before` column; crash point 3 lies between the two passes *)
Definition ex_d (e : Z) : pdata := mkPD None None (Some e).
Definition ex_tuples : list ptuple :=
  [(1, Some 10, Some 100, Some 11, Some 200); (2, Some 10, Some 100, Some 10, Some 300);
   (3, None, None, Some 11, Some 200); (4, Some 11, Some 100, None, None); (5, Some 10, Some 100, Some 10, Some 100)].
Definition ex_info : info := [(1, ex_d 200); (2, ex_d 300); (3, ex_d 200); (4, mkPD None None None); (5, ex_d 100)].
Definition ex_store : store := [(10, 1, ex_d 100); (10, 2, ex_d 100); (11, 4, ex_d 100); (10, 5, ex_d 100)].
Example C10_nonvacuous :
  nodupb (map t_name ex_tuples) = true /\ no_doubleb ex_store = true /\ within_beforeb ex_tuples ex_store = true /\
  unchanged_publishedb canonical_cfg ex_tuples ex_info ex_store = true /\
  flat_writes (reschedule_writes c10_cfg ex_tuples ex_info [4]) =
    [8; 1; 10; 1;  1; 11; 4;  2; 11; 1; -1; -1; 1; 200;  2; 10; 2; -1; -1; 1; 300;  2; 11; 3; -1; -1; 1; 200;
     4; 4;  5; 4;  6] /\
  doubles_at_cuts ex_store (reschedule_writes c10_cfg ex_tuples ex_info [4]) = [0; 0; 0; 0; 0; 0; 0; 0; 0] /\
  flat_store (apply_writes ex_store (reschedule_writes c10_cfg ex_tuples ex_info [4])) =
    flat_store (model_entries ex_info ex_tuples).
Proof. vm_compute. repeat split. Qed.

(** the functions named by this property's anchors still have the statement skeleton the model was written from
    (re-extracted from the Python AST on every run, harness/tables_shape.py + harness/shape_pins.json; kept last so that
    a difference does not stop the theorems above from being checked) *)
Theorem C10_anchor_shape : shapes_ok_C10 = true.
Proof. vm_compute. reflexivity. Qed.
Print Assumptions C10_anchor_shape.
