(** C10  A master crash at any point never leaves an instance placed twice.

    Model: Master/Publish.v (publication = pure function to an ordered write list; store = the
    /placement/<server>/<app> nodes).  The order of the loops of Master.reschedule / Master.init_schedule
    and the changed-placement filter are read from master.py on every run (Gen.Tables c10_...).

    PROVED AT FULL STRENGTH (all inputs, every crash point, no bound):
      C10_crash_no_double       every prefix of the write list of Master.reschedule leaves no instance under
                                two servers, provided the store held nothing for a listed instance outside
                                the server the cycle read as `before` ([within_before], the exact invariant)
      C10_published_after_all_writes   the whole write list produces exactly the `after` column (C09's
                                publication half) and touches nothing else
      C10_integrity_on_clean_store, C10_integrity_sound, C10_integrity_delete_only,
      C10_restart_drops_duplicates
    REFUTED ON THE UNCHANGED TREE (model follows the code; vm_compute witnesses):
      C10_init_crash_refuted        Master.init_schedule creates under one server before it deletes under
                                    the next: a crash in between leaves a double entry
      C10_integrity_refuted / C10_integrity_stale_map   check_placement_integrity repairs a double entry and
                                    then fails its own assert (stale app2server)
      C10_stale_entry_refuted       [within_before] is necessary: an entry left behind by a handler that
                                    un-places an instance without touching the store (Loader.remove_server)
                                    becomes a double entry at the next publication
    PARTIAL:
      C10_init_crash_partial        init_schedule is crash safe when the start-up cycle moved nothing
    ONLY ORACLE + CORRESPONDENCE (harness/props/c10.py, E-master): that [within_before] holds between cycles
    for the real handlers, and that the restarted master (load_model; init_schedule;
    check_placement_integrity) completes on every cut. *)
From Coq Require Import ZArith List Bool.
From TM Require Import Master.Publish Master.PublishP Gen.Tables.
Import ListNotations.
Open Scope Z_scope.

Definition c10_cfg : cfg := cfg_of_tables c10_reschedule_phases c10_changed_filter c10_init_phases.

(** the source has the shape the proofs are about: deletions, then creations, then _unschedule_evicted, then
    _save_placement; both comparisons in the filter; init_schedule deletes then creates per server *)
Theorem C10_source_shape : cfg_canonical c10_cfg = true.
Proof. vm_compute. reflexivity. Qed.
Print Assumptions C10_source_shape.

Theorem C10_crash_no_double : forall tuples i once st k,
  NoDup (map t_name tuples) ->
  no_double st ->
  within_before tuples st ->
  no_double (apply_writes st (firstn k (reschedule_writes c10_cfg tuples i once))).
Proof.
  intros tuples i once st k H1 H2 H3.
  exact (resched_prefix_no_double c10_cfg tuples i once st k C10_source_shape H1 H2 H3).
Qed.
Print Assumptions C10_crash_no_double.

Theorem C10_published_after_all_writes : forall tuples i once st,
  NoDup (map t_name tuples) ->
  within_before tuples st ->
  unchanged_published tuples i st ->
  let final := apply_writes st (reschedule_writes c10_cfg tuples i once) in
  (forall t, In t tuples -> forall s,
     lookup final s (t_name t) = if oeqb (t_sa t) (Some s) then Some (get_info i (t_name t)) else None) /\
  (forall a, ~ In a (map t_name tuples) -> forall s, lookup final s a = lookup st s a).
Proof.
  intros tuples i once st H1 H2 H3.
  exact (resched_final c10_cfg tuples i once st C10_source_shape H1 H2 H3).
Qed.
Print Assumptions C10_published_after_all_writes.

Theorem C10_init_crash_partial : forall st i members k,
  no_double st ->
  functional (members_target members) ->
  pinned (members_target members) st ->
  no_double (apply_writes st (firstn k (init_writes c10_cfg st i members))).
Proof.
  intros st i members k H1 H2 H3.
  exact (init_prefix_no_double_partial c10_cfg st i members k C10_source_shape H1 H2 H3).
Qed.
Print Assumptions C10_init_crash_partial.

(** instance 7 recorded under server 2, the start-up cycle moved it to server 1, and server 1 comes first in
    cell.members(): after [ensure 1; put 1/7] and before [delete 2/7] the instance is under both *)
Theorem C10_init_crash_refuted : exists st i members k,
  no_double st /\ NoDup (map fst members) /\ functional (members_target members) /\
  ~ no_double (apply_writes st (firstn k (init_writes c10_cfg st i members))).
Proof.
  exists [(2, 7, mkPD None None (Some 100))], [(7, mkPD None None (Some 100))], [(1, [7]); (2, [])], 2%nat.
  split; [apply no_doubleb_sound; vm_compute; reflexivity|].
  split; [repeat constructor; cbn; intuition discriminate|].
  split.
  - intros a s1 s2 [c1 [I1 Z1]] [c2 [I2 Z2]]. cbn in I1, I2.
    destruct I1 as [I1|[I1|[]]], I2 as [I2|[I2|[]]]; inversion I1; inversion I2; subst; try reflexivity;
      cbn in Z1, Z2; discriminate.
  - intros H. specialize (H 7 1 2). vm_compute in H. specialize (H eq_refl eq_refl). discriminate.
Qed.
Print Assumptions C10_init_crash_refuted.

(** the hypothesis of C10_crash_no_double cannot be dropped: the store still holds 1/7 while the model has
    un-placed 7 (Loader.remove_server); the next cycle places 7 on server 2 *)
Theorem C10_stale_entry_refuted : exists tuples i once st,
  NoDup (map t_name tuples) /\ no_double st /\
  ~ no_double (apply_writes st (reschedule_writes c10_cfg tuples i once)).
Proof.
  exists [(7, None, None, Some 2, Some 100)], [(7, mkPD None None (Some 100))], [],
         [(1, 7, mkPD None None (Some 50))].
  split; [repeat constructor; cbn; intuition|].
  split; [apply no_doubleb_sound; vm_compute; reflexivity|].
  intros H. specialize (H 7 1 2). vm_compute in H. specialize (H eq_refl eq_refl). discriminate.
Qed.
Print Assumptions C10_stale_entry_refuted.

(** Loader.check_placement_integrity *)
Theorem C10_integrity_on_clean_store : forall wh placed pairs,
  NoDup (map snd pairs) ->
  fst (integrity wh placed pairs) = [] /\
  (snd (integrity wh placed pairs) = IOk <-> forall a s, In (a, s) placed -> In (s, a) pairs) /\
  (snd (integrity wh placed pairs) = IOk \/ snd (integrity wh placed pairs) = IAssertFailed).
Proof. intros wh placed pairs H. exact (integrity_nodup wh placed pairs H). Qed.
Print Assumptions C10_integrity_on_clean_store.

Theorem C10_integrity_sound : forall wh placed pairs,
  snd (integrity wh placed pairs) = IOk ->
  forall a s, In (a, s) placed -> first_server pairs a = Some s.
Proof. intros wh placed pairs H. exact (integrity_ok_sound wh placed pairs H). Qed.
Print Assumptions C10_integrity_sound.

Theorem C10_integrity_delete_only : forall wh placed pairs,
  Forall (fun w => is_put w = false) (fst (integrity wh placed pairs)).
Proof. intros wh placed pairs. exact (integrity_writes_delete_only wh placed pairs). Qed.
Print Assumptions C10_integrity_delete_only.

(** the stale app2server map, in general: if the first entry listed for an instance is not under the model's
    server the check does not pass, whatever it repaired on the way *)
Theorem C10_integrity_stale_map : forall wh placed pairs a s1 s2,
  first_server pairs a = Some s1 -> In (a, s2) placed -> s1 <> s2 ->
  snd (integrity wh placed pairs) <> IOk.
Proof. intros wh placed pairs a s1 s2 H1 H2 H3. exact (integrity_stale_first wh placed pairs a s1 s2 H1 H2 H3). Qed.
Print Assumptions C10_integrity_stale_map.

(** ... and concretely: instance 7 under servers 1 and 2, the model has it on 2.  The check deletes 1/7, after
    which the store is exactly the model, and then raises 'Placement integrity failed.' *)
Theorem C10_integrity_refuted : exists st servers placed known,
  let r := integrity (where_of placed known) placed (store_pairs st servers) in
  let repaired := apply_writes st (fst r) in
  snd r = IAssertFailed /\ no_double repaired /\
  (forall a s, In (a, s) placed -> has repaired s a = true) /\
  (forall e, In e repaired -> In (e_app e, e_server e) placed).
Proof.
  exists [(1, 7, no_pdata); (2, 7, no_pdata)], [1; 2], [(7, 2)], [7].
  cbn zeta. split; [vm_compute; reflexivity|]. split; [apply no_doubleb_sound; vm_compute; reflexivity|].
  split.
  - intros a s [H|[]]. inversion H; subst. vm_compute. reflexivity.
  - vm_compute. intros e [<-|[]]. left. reflexivity.
Qed.
Print Assumptions C10_integrity_refuted.

(** Loader.restore_placements: after the duplicate pass no instance is left under two servers, and an instance
    restored under exactly one server keeps its node *)
Theorem C10_restart_drops_duplicates : forall restored st,
  (forall s a, has st s a = true -> exists l, In (s, l) restored /\ zmem a l = true) ->
  let final := apply_writes st (dedup_writes restored) in
  no_double final /\
  (forall s a, restored_on restored a = [s] -> lookup final s a = lookup st s a).
Proof. intros restored st H. exact (dedup_no_double restored st H). Qed.
Print Assumptions C10_restart_drops_duplicates.

(** non-vacuity: a cycle that moves 1 (srv 10 -> 11), renews 2 on 10, places 3 on 11, evicts 4 from 11 and
    leaves 5 alone; the store agrees with the `before` column; crash point 3 lies between the two passes *)
Definition ex_d (e : Z) : pdata := mkPD None None (Some e).
Definition ex_tuples : list ptuple :=
  [(1, Some 10, Some 100, Some 11, Some 200); (2, Some 10, Some 100, Some 10, Some 300);
   (3, None, None, Some 11, Some 200); (4, Some 11, Some 100, None, None); (5, Some 10, Some 100, Some 10, Some 100)].
Definition ex_info : info := [(1, ex_d 200); (2, ex_d 300); (3, ex_d 200); (4, mkPD None None None); (5, ex_d 100)].
Definition ex_store : store := [(10, 1, ex_d 100); (10, 2, ex_d 100); (11, 4, ex_d 100); (10, 5, ex_d 100)].
Example C10_nonvacuous :
  nodupb (map t_name ex_tuples) = true /\ no_doubleb ex_store = true /\ within_beforeb ex_tuples ex_store = true /\
  unchanged_publishedb canonical_cfg ex_tuples ex_info ex_store = true /\
  flat_writes (reschedule_writes c10_cfg ex_tuples ex_info [4]) =
    [8; 1; 10; 1;  1; 11; 4;  2; 11; 1; -1; -1; 1; 200;  2; 10; 2; -1; -1; 1; 300;  2; 11; 3; -1; -1; 1; 200;
     4; 4;  5; 4;  6] /\
  doubles_at_cuts ex_store (reschedule_writes c10_cfg ex_tuples ex_info [4]) = [0; 0; 0; 0; 0; 0; 0; 0; 0] /\
  flat_store (apply_writes ex_store (reschedule_writes c10_cfg ex_tuples ex_info [4])) =
    flat_store (model_entries ex_info ex_tuples).
Proof. vm_compute. repeat split. Qed.
