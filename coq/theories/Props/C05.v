(** C05  Identities are unique, in range, and held only by placed instances.

    Proved (Sched/InvIdent.v, on top of the primitive-transition decomposition of Sched/Steps.v), for all
    histories of events and cycles and all identity choices (the set.pop() nondeterminism):
      C05_invariant / C05_cycle   the identity invariant holds in every reachable state / is kept by a cycle;
      C05_unique                  within a group no two instances hold the same identity;
      C05_offer_sound             every identity on offer is in [0, count) and is not held by anybody
                                  (so whatever the first instance in the queue acquires is really free);
      C05_held_nonneg             held identities are non-negative.
    Partial: "after a cycle every held identity is below the current count", "a placed instance of a group holds one"
    and "an instance that is not placed holds none" are end-of-cycle facts of the placement loop; they are decided
    by the E-cell correspondence and the C05 oracle (the unchanged tree violated the last one in three ways, repaired
    by the fix: commits 05b28ff, 892e28c, d5e1071 - see known_findings.json). *)
From Coq Require Import ZArith QArith List Bool.
From TM Require Import Sched.Vec Sched.Types Sched.Tree Sched.Cycle Sched.Events Sched.MapsP Sched.Steps Sched.InvIdent.
Import ListNotations.
Open Scope Z_scope.

Theorem C05_invariant : forall dim root level ops,
  wf_ops_id (init_cell dim root level) ops -> IdentG (run (init_cell dim root level) ops).
Proof. intros dim root level ops H. exact (IdentG_run ops _ H (IdentG_init dim root level)). Qed.
Print Assumptions C05_invariant.

Theorem C05_cycle : forall c choices, Ident c -> Ident (fst (fst (schedule c choices))).
Proof. exact Ident_schedule. Qed.
Print Assumptions C05_cycle.

Theorem C05_unique : forall c a1 a2 g i, Ident c ->
  In a1 (c_apps c) -> In a2 (c_apps c) -> holds a1 g i -> holds a2 g i -> a1 = a2.
Proof.
  intros c a1 a2 g i HI H1 H2 Hh1 Hh2.
  pose proof (In_get_app _ _ (id_names _ HI) H1) as G1. pose proof (In_get_app _ _ (id_names _ HI) H2) as G2.
  pose proof (id_unique _ HI _ _ _ _ _ _ G1 G2 Hh1 Hh2) as E. rewrite E in G1. rewrite G1 in G2. inversion G2. reflexivity.
Qed.
Print Assumptions C05_unique.

Theorem C05_offer_sound : forall c g grp i, Ident c -> aget g (c_groups c) = Some grp -> In i (g_avail grp) ->
  0 <= i < g_count grp /\ forall a, In a (c_apps c) -> ~ holds a g i.
Proof.
  intros c g grp i HI Hg Hi. split; [exact (id_avail_range _ HI _ _ _ Hg Hi)|].
  intros a Ha Hh. exact (id_disjoint _ HI _ _ _ _ _ (In_get_app _ _ (id_names _ HI) Ha) Hh Hg Hi).
Qed.
Print Assumptions C05_offer_sound.

Theorem C05_held_nonneg : forall c a g i, Ident c -> In a (c_apps c) -> holds a g i -> 0 <= i.
Proof. intros c a g i HI Ha Hh. exact (id_held_nonneg _ HI _ _ _ _ (In_get_app _ _ (id_names _ HI) Ha) Hh). Qed.
Print Assumptions C05_held_nonneg.

(** non-vacuity: a group of 2, three instances, shrink/grow between cycles, release and re-acquire *)
Definition ex_a (n o : Z) (d : vec) : app :=
  mkApp n 1 d 3000 [] 0 0 None (Some 5000) false o None None None None false false false false (-1).
Definition ex_ops : list op :=
  [ OAddBucket 2001 3 2000; OAddServer 1000 2001 [100;100;100] 4000 0 0; OConfigGroup 5000 2;
    OAddApp 4000 [] (ex_a 1 1 [10;10;10]); OAddApp 4000 [] (ex_a 2 2 [10;10;10]); OAddApp 4000 [] (ex_a 3 3 [10;10;10]);
    OSchedule [(1, 1); (2, 0)]; OConfigGroup 5000 1; OConfigGroup 5000 3; OSchedule [(3, 2)]; ORemoveApp 1; OSchedule [] ].
Example C05_nonvacuous :
  map (fun a => (a_name a, a_server a, a_identity a)) (c_apps (run (init_cell 3 2000 1) ex_ops))
  = [(2, Some 1000, Some 0); (3, Some 1000, Some 2)].
Proof. vm_compute. reflexivity. Qed.
Example C05_nonvacuous_wf : wf_ops_id (init_cell 3 2000 1) ex_ops.
Proof. cbn [wf_ops_id ex_ops wf_op_id]. repeat split; try (intros; reflexivity); try discriminate. Qed.
