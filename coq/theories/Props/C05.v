(** C05  Identities are unique, in range, and held only by placed instances.

    Proved on the model, for all histories of events and cycles and all identity choices (the set.pop()
    nondeterminism):
      C05_invariant / C05_cycle   the identity invariant holds in every reachable state / is kept by a cycle;
      C05_unique                  within a group no two instances hold the same identity;
      C05_offer_sound             every identity on offer is in [0, count) and is not held by anybody
                                  (so whatever the first instance in the queue acquires is really free);
      C05_held_nonneg             held identities are non-negative;
      C05_end_of_cycle            after EVERY cycle of EVERY history: an instance that is not placed holds no
                                  identity, a placed instance of a group holds one, and every held identity is in
                                  [0, count) of its group's current size  (Sched/TurnP.v per-turn specification,
                                  Sched/CycleP.v loop and partition composition, Sched/IdRange.v, Sched/InvAlloc.v
                                  allocation-tree invariant, Sched/InvIdRec.v, Sched/Reach.v);
      C05_cycle_spec              the same for one cycle from any state satisfying the invariants (Sched/CycleP.v);
      C05_loader_restore          Loader.restore_placement for one recorded instance (operation ORestore: Server.restore
                                  or Server.put, then Application.force_set_identity, a schedule-once instance that
                                  cannot be put back removed) keeps all of the above, provided the recorded identity
                                  is one no other instance of the group holds and a group instance ends up with one;
                                  the operation is part of the alphabet of `reachable`, so C05_end_of_cycle and the
                                  C03/C07/C08 theorems cover states reached through the loader's restore;
      C05_forced_duplicate_refuted  the proviso is needed: forcing an identity somebody else holds yields a duplicate.
    The proof attempt of C05_end_of_cycle for instances flagged for renewal is what exposed the defect repaired
    by fix: 7bb39c9 (a renewal whose restore is refused kept the identity of a pending instance); earlier defects of
    the same property: 05b28ff, 892e28c, d5e1071 (known_findings.json). *)
From Coq Require Import ZArith QArith List Bool.
From TM Require Import Sched.Vec Sched.Types Sched.Tree Sched.Cycle Sched.Events Sched.MapsP Sched.Steps Sched.InvAcct Sched.InvIdent
                       Sched.TurnP Sched.CycleP Sched.KeepP Sched.Reach.
From TM Require Import Base.ShapeCanon.
Import ListNotations.
Open Scope Z_scope.

Theorem C05_invariant : forall dim root level ops,
  wf_ops_id (init_cell dim root level) ops -> IdentG (run (init_cell dim root level) ops).
Proof. intros dim root level ops H. exact (IdentG_run ops _ H (IdentG_init dim root level)). Qed.
Print Assumptions C05_invariant.

Theorem C05_cycle : forall c choices, Ident c -> Ident (fst (fst (schedule c choices))).
Proof. exact Ident_schedule. Qed.
Print Assumptions C05_cycle.

Theorem C05_unique : forall c a1 a2 g i, Ident c ->
  In a1 (c_apps c) -> In a2 (c_apps c) -> holds a1 g i -> holds a2 g i -> a1 = a2.
Proof.
  intros c a1 a2 g i HI H1 H2 Hh1 Hh2.
  pose proof (In_get_app _ _ (id_names _ HI) H1) as G1. pose proof (In_get_app _ _ (id_names _ HI) H2) as G2.
  pose proof (id_unique _ HI _ _ _ _ _ _ G1 G2 Hh1 Hh2) as E. rewrite E in G1. rewrite G1 in G2. inversion G2. reflexivity.
Qed.
Print Assumptions C05_unique.

Theorem C05_offer_sound : forall c g grp i, Ident c -> aget g (c_groups c) = Some grp -> In i (g_avail grp) ->
  0 <= i < g_count grp /\ forall a, In a (c_apps c) -> ~ holds a g i.
Proof.
  intros c g grp i HI Hg Hi. split; [exact (id_avail_range _ HI _ _ _ Hg Hi)|].
  intros a Ha Hh. exact (id_disjoint _ HI _ _ _ _ _ (In_get_app _ _ (id_names _ HI) Ha) Hh Hg Hi).
Qed.
Print Assumptions C05_offer_sound.

Theorem C05_held_nonneg : forall c a g i, Ident c -> In a (c_apps c) -> holds a g i -> 0 <= i.
Proof. intros c a g i HI Ha Hh. exact (id_held_nonneg _ HI _ _ _ _ (In_get_app _ _ (id_names _ HI) Ha) Hh). Qed.
Print Assumptions C05_held_nonneg.

Theorem C05_end_of_cycle : forall dim root level ops ch,
  wf_ops_all (init_cell dim root level) ops ->
  let c' := step (run (init_cell dim root level) ops) (OSchedule ch) in
  forall x a', get_app x (c_apps c') = Some a' ->
    (a_server a' = None -> a_group a' = None \/ a_identity a' = None) /\
    (a_server a' <> None -> a_group a' = None \/ a_identity a' <> None) /\
    (forall g i grp, a_group a' = Some g -> a_identity a' = Some i -> aget g (c_groups c') = Some grp ->
                     0 <= i < g_count grp).
Proof.
  intros dim root level ops ch Hwf c' x a' Ha'.
  destruct (end_of_cycle_identities _ ch (Good_run ops _ Hwf (Good_init dim root level)) x a' Ha') as (H1 & H2 & H3).
  split; [exact H1|]. split; [exact H2|]. intros g i grp Hg Hi Hgrp.
  apply (H3 g i (g_count grp) (conj Hg Hi)). unfold gcount. fold c'. rewrite Hgrp. reflexivity.
Qed.
Print Assumptions C05_end_of_cycle.

Theorem C05_cycle_spec : forall c ch, Acct c -> Ident c -> parts_wf c ->
  forall x a, In x (part_apps (c_parts c)) -> get_app x (c_apps c) = Some a -> (a_server a <> None -> has_id a) ->
  exists a', get_app x (c_apps (fst (fst (schedule c ch)))) = Some a' /\
             (a_server a' = None -> no_id a') /\ (a_server a' <> None -> has_id a').
Proof.
  intros c ch HA HI Hwf x a Hin Ha Hid.
  destruct (schedule_final c ch HA HI Hwf x a Hin Ha Hid) as (a' & Ha' & (_ & H1 & H2 & _)).
  exists a'. split; [exact Ha'|]. split; assumption.
Qed.
Print Assumptions C05_cycle_spec.

(** non-vacuity: a group of 2, three instances, shrink/grow between cycles, release and re-acquire *)
Definition ex_a (n o : Z) (d : vec) : app :=
  mkApp n 1 d 3000 [] 0 0 None (Some 5000) false o None None None None false false false false (-1).
Definition ex_ops : list op :=
  [ OAddBucket 2001 3 2000; OAddServer 1000 2001 [100;100;100] 4000 0 0; OConfigGroup 5000 2;
    OAddApp 4000 [] (ex_a 1 1 [10;10;10]); OAddApp 4000 [] (ex_a 2 2 [10;10;10]); OAddApp 4000 [] (ex_a 3 3 [10;10;10]);
    OSchedule [(1, 1); (2, 0)]; OConfigGroup 5000 1; OConfigGroup 5000 3; OSchedule [(3, 2)]; ORemoveApp 1; OSchedule [] ].
Example C05_nonvacuous :
  map (fun a => (a_name a, a_server a, a_identity a)) (c_apps (run (init_cell 3 2000 1) ex_ops))
  = [(2, Some 1000, Some 0); (3, Some 1000, Some 2)].
Proof. vm_compute. reflexivity. Qed.
Example C05_nonvacuous_wf : wf_ops_id (init_cell 3 2000 1) ex_ops.
Proof. cbn [wf_ops_id ex_ops wf_op_id]. repeat split; try (intros; reflexivity); try discriminate. Qed.
Example C05_nonvacuous_wf_all : wf_ops_all (init_cell 3 2000 1) ex_ops.
Proof. apply wf_ops_allb_sound. vm_compute. reflexivity. Qed.

(** Loader.restore_placement (one recorded instance) between cycles *)
Theorem C05_loader_restore : forall c sn an vb ex ident,
  Good c -> wf_op_all c (ORestore sn an vb ex ident) -> Good (step c (ORestore sn an vb ex ident)).
Proof. intros c sn an vb ex ident H W. exact (Good_step c _ W H). Qed.
Print Assumptions C05_loader_restore.

Definition ex_ops_restore : list op :=
  [ OAddBucket 2001 3 2000; OAddServer 1000 2001 [100;100;100] 4000 0 0; OConfigGroup 5000 3;
    OAddApp 4000 [] (ex_a 1 1 [10;10;10]); OAddApp 4000 [] (ex_a 2 2 [10;10;10]);
    ORestore 1000 1 true 50 (Some 2); ORestore 1000 2 false 0 (Some 0); OSchedule [] ].
Example C05_loader_restore_nonvacuous :
  map (fun a => (a_name a, a_server a, a_identity a, a_expiry a)) (c_apps (run (init_cell 3 2000 1) ex_ops_restore))
  = [(1, Some 1000, Some 2, Some 50); (2, Some 1000, Some 0, Some 0)]
  /\ wf_ops_allb (init_cell 3 2000 1) ex_ops_restore = true.
Proof. vm_compute. split; reflexivity. Qed.

Definition ex_ops_forced_dup : list op :=
  [ OAddBucket 2001 3 2000; OAddServer 1000 2001 [100;100;100] 4000 0 0; OConfigGroup 5000 3;
    OAddApp 4000 [] (ex_a 1 1 [10;10;10]); OAddApp 4000 [] (ex_a 2 2 [10;10;10]);
    ORestore 1000 1 true 50 (Some 2); ORestore 1000 2 true 50 (Some 2) ].
Theorem C05_forced_duplicate_refuted :
  wf_ops_allb (init_cell 3 2000 1) ex_ops_forced_dup = false /\
  map (fun a => (a_name a, a_identity a)) (c_apps (run (init_cell 3 2000 1) ex_ops_forced_dup)) = [(1, Some 2); (2, Some 2)].
Proof. vm_compute. split; reflexivity. Qed.
Print Assumptions C05_forced_duplicate_refuted.

(** the functions of treadmill/scheduler/__init__.py these theorems were proved about still have the statement
    skeleton the model was written from (re-extracted from the Python AST on every run, harness/tables_shape.py;
    kept last so that a difference does not stop the theorems above from being checked) *)
Theorem C05_source_shape : shapes_ok_C05 = true.
Proof. vm_compute. reflexivity. Qed.
Print Assumptions C05_source_shape.
