(** C12  The node's manifest cache mirrors what is placed on the node.

    Model: Node/Fs.v (directory + system calls; rename(2) atomic by definition),
    Node/Cache.v (EventMgr._synchronize/_cache/_cache_notify, fs.write_safe as its
    system-call list).  The temp-file prefix, READY_FILE, the glob pattern, the dot-file
    filter and the call order of fs.write_safe are regenerated from the source into
    Gen/Tables.v on every run ([c12_cfg], [C12_source_constants]). *)
From Coq Require Import ZArith List Bool String Ascii.
From TM Require Import Node.Fs Node.Cache Node.CacheP Node.CacheCfg Gen.Tables.
From TM Require Import Base.ShapeCanon.
Import ListNotations.
Open Scope Z_scope.

(** what the proofs need from the source: the temp prefix starts with a dot, the ready file is a
    dot file, readers use glob '*' / a leading-dot filter, and write_safe is
    temp file -> func -> fchmod [-> fchown -> fsync/utime] -> replace(tmp, target) -> finally rm_safe(tmp) *)
Theorem C12_source_constants :
  dot_prefixed (c_pre c12_cfg) = true /\ dot_prefixed (c_ready c12_cfg) = true /\
  c12_glob_pattern = "*"%string /\ c12_appcfg_ignore = "."%string /\
  c12_write_safe_shape = [1; 2; 3; 4; 5; 6; 7].
Proof. vm_compute. repeat split. Qed.
Print Assumptions C12_source_constants.

Definition C12_dot : dot_prefixed (c_pre c12_cfg) = true := proj1 C12_source_constants.

(** hypotheses shared by the synchronisation theorems:
    placed names are instance names (glob '*' matches them), and tempfile picks unused names *)
Definition placed_ok (E : list name) : Prop := forall a, In a E -> glob_star a = true.

(** after a completed synchronisation the cache names no instance that is not placed *)
Theorem C12_names : forall z orc E check ord d d',
  placed_ok E -> fresh_for c12_cfg orc d E ->
  synchronize c12_cfg z d E check ord orc = (d', Done) ->
  forall x, In x (visible d') -> In x E.
Proof. intros z orc E check ord d d' H1 H2 H3. exact (sync_names c12_cfg z orc E check ord d d' C12_dot H1 H2 H3). Qed.
Print Assumptions C12_names.

(** every placed instance whose placement node and manifest exist in ZooKeeper has a cache entry *)
Theorem C12_present : forall z orc E check ord d d',
  placed_ok E -> fresh_for c12_cfg orc d E ->
  synchronize c12_cfg z d E check ord orc = (d', Done) ->
  forall a, In a E -> alookup (z_place z) a <> None -> alookup (z_sched z) a <> None -> lookup d' a <> None.
Proof.
  intros z orc E check ord d d' H1 H2 H3.
  exact (proj1 (proj2 (sync_done c12_cfg z orc E check ord C12_dot H1 d H2 d' H3))).
Qed.
Print Assumptions C12_present.

(** a missing entry, and (with check_existing) an entry older than the placement, is rewritten:
    the file is the dump of  manifest + task id + placement data  *)
Theorem C12_content : forall z orc E check ord d d',
  placed_ok E -> fresh_for c12_cfg orc d E ->
  synchronize c12_cfg z d E check ord orc = (d', Done) ->
  forall a p, In a E -> alookup (z_place z) a = Some p -> alookup (z_sched z) a <> None ->
    (lookup d a = None \/ (check = true /\ uptodate d a p = false)) ->
    exists m p' t, alookup (z_sched z) a = Some m /\ alookup (z_place z) a = Some p' /\ after_hash a = Some t /\
                   lookup d' a = Some (File (dump (merged m t p')) (w_now (orc a))).
Proof.
  intros z orc E check ord d d' H1 H2 H3 a p Ha Hp Hs Hw.
  exact (proj1 (written_explicit z orc a (lookup d' a))
           (proj1 (proj2 (proj2 (sync_done c12_cfg z orc E check ord C12_dot H1 d H2 d' H3))) a p Ha Hp Hs Hw)).
Qed.
Print Assumptions C12_content.

(** the merged manifest: placement data (identity, identity_count, expires) wins, then task, then the manifest *)
Theorem C12_merged_fields : forall m t p k,
  d_get (merged m t p) k =
  match pl_get p k with
  | Some v => Some v
  | None => if Z.eqb k K_TASK then Some (VStr t) else d_get m k
  end.
Proof. exact merged_get. Qed.
Print Assumptions C12_merged_fields.

(** what is not rewritten keeps its entry; an instance that cannot be fetched gets none *)
Theorem C12_kept : forall z orc E check ord d d',
  placed_ok E -> fresh_for c12_cfg orc d E ->
  synchronize c12_cfg z d E check ord orc = (d', Done) ->
  (forall a, In a E -> lookup d a <> None -> check = false \/ skips z true d a -> lookup d' a = lookup d a) /\
  (forall a, In a E -> lookup d a = None -> skips z false d a -> lookup d' a = None).
Proof.
  intros z orc E check ord d d' H1 H2 H3.
  exact (proj2 (proj2 (proj2 (sync_done c12_cfg z orc E check ord C12_dot H1 d H2 d' H3)))).
Qed.
Print Assumptions C12_kept.

(** write_safe, every crash point k: the target is the old entry or the complete new file, no other name
    changes, nothing but the target becomes visible, the temporary file holds a prefix of the content,
    and all system calls succeed; after the last call the target is new and the temporary file is gone *)
Theorem C12_atomic : forall d n c w k,
  glob_star n = true -> lookup d (tmp_name c12_cfg n (w_sfx w)) = None ->
  let tmp := tmp_name c12_cfg n (w_sfx w) in
  let ops := write_safe_ops tmp n c w in
  let d' := crash_at k ops d in
  snd (run_ops (firstn k ops) d) = true /\
  (lookup d' n = lookup d n \/ lookup d' n = Some (File c (w_now w))) /\
  (forall x, x <> n -> x <> tmp -> lookup d' x = lookup d x) /\
  (forall x, In x (visible d') -> x = n \/ In x (visible d)) /\
  (match lookup d' tmp with
   | None => True | Some (File c' _) => exists j, c' = firstn j c | Some (Link _) => False end) /\
  ((List.length ops <= k)%nat -> lookup d' n = Some (File c (w_now w)) /\ lookup d' tmp = None).
Proof. intros d n c w k H1 H2. exact (write_safe_crash_atomic c12_cfg d n c w k C12_dot H1 H2). Qed.
Print Assumptions C12_atomic.

(** temporary names are never matched by glob '*' nor accepted by the manager's dot-file filter *)
Theorem C12_tmp_hidden : forall a s,
  glob_star (tmp_name c12_cfg a s) = false /\ appcfg_ignores (tmp_name c12_cfg a s) = true.
Proof. intros a s. exact (tmp_name_hidden c12_cfg a s C12_dot). Qed.
Print Assumptions C12_tmp_hidden.

(** the whole synchronisation, every outcome (completed, exception at any system call of any write,
    process killed at any system call): every name glob '*' can see holds its old entry, or was an
    unplaced entry that is now removed, or is placed and holds the complete merged manifest; dot files
    (e.g. .ready) are untouched, except that a kill may leave one temporary file behind *)
Theorem C12_sync_atomic : forall z orc E check ord d d' o,
  placed_ok E -> fresh_for c12_cfg orc d E ->
  synchronize c12_cfg z d E check ord orc = (d', o) ->
  (forall x, glob_star x = true ->
     lookup d' x = lookup d x \/ (lookup d' x = None /\ ~ In x E) \/ (In x E /\ written z orc x (lookup d' x))) /\
  (forall x, glob_star x = false -> (forall a, In a E -> x <> tmp_name c12_cfg a (w_sfx (orc a))) ->
     lookup d' x = lookup d x) /\
  (o <> Killed -> forall x, glob_star x = false -> lookup d' x = lookup d x).
Proof.
  intros z orc E check ord d d' o H1 H2 H3.
  exact (sync_atomic c12_cfg z orc E check ord C12_dot H1 d H2 d' o H3).
Qed.
Print Assumptions C12_sync_atomic.

(** no injected fault and instance names of the form app#id: the synchronisation completes *)
Theorem C12_completes : forall z orc E check ord d,
  placed_ok E -> fresh_for c12_cfg orc d E ->
  (forall a, In a E -> w_fault (orc a) = None /\ after_hash a <> None) ->
  snd (synchronize c12_cfg z d E check ord orc) = Done.
Proof.
  intros z orc E check ord d H1 H2 H3.
  exact (sync_completes c12_cfg z orc E check ord C12_dot H1 d H2 H3).
Qed.
Print Assumptions C12_completes.

(** _cache_notify only creates/removes READY_FILE, which glob '*' does not match *)
Theorem C12_ready_only : forall d b now x,
  x <> c_ready c12_cfg -> lookup (cache_notify c12_cfg d b now) x = lookup d x.
Proof. intros d b now x H. exact (cache_notify_other c12_cfg d b now x H). Qed.
Print Assumptions C12_ready_only.

(** non-vacuity: a cache with a stale, an extra and an outdated entry; a missing one is fetched *)
Definition ex_m : dict := [(3, VId 30); (5, VId 50)].
Definition ex_z : zkst :=
  {| z_sched := [("a#1"%string, ex_m); ("b#2"%string, ex_m); ("c#3"%string, ex_m)];
     z_place := [("a#1"%string, {| pl_data := Some [(7, VId 1)]; pl_ctime := 2000 |});
                 ("b#2"%string, {| pl_data := None; pl_ctime := 10 |});
                 ("d#4"%string, {| pl_data := None; pl_ctime := 10 |})] |}.
Definition ex_d : dir :=
  [("a#1"%string, File [9] 1000); (".ready"%string, File [] 5); ("x#9"%string, File [1] 1000)].
Definition ex_E : list name := ["a#1"; "b#2"; "c#3"; "d#4"]%string.
Definition ex_orc (n : name) : wspec := {| w_sfx := "tmp0"; w_pre := 2; w_now := 3000; w_fault := None |}.

Example C12_nonvacuous :
  placed_ok ex_E /\ fresh_for c12_cfg ex_orc ex_d ex_E /\
  snd (synchronize c12_cfg ex_z ex_d ex_E true [] ex_orc) = Done /\
  visible (fst (synchronize c12_cfg ex_z ex_d ex_E true [] ex_orc)) = ["a#1"; "b#2"]%string /\
  lookup (fst (synchronize c12_cfg ex_z ex_d ex_E true [] ex_orc)) "a#1"%string
    = Some (File [0; 2; 1; 49; 3; 1; 30; 5; 1; 50; 7; 1; 1] 3000) /\
  (* a kill in the middle of the write of b#2 leaves a#1 complete, b#2 absent and a hidden temp file *)
  visible (fst (synchronize c12_cfg ex_z ex_d ex_E true []
      (fun n => {| w_sfx := "tmp0"; w_pre := 2; w_now := 3000;
                   w_fault := if String.eqb n "b#2" then Some (2%nat, true) else None |})))
    = ["a#1"]%string.
Proof.
  split; [|split].
  - intros a Ha. cbn in Ha. repeat (destruct Ha as [<-|Ha]; [reflexivity|]). contradiction.
  - intros a Ha. cbn in Ha. repeat (destruct Ha as [<-|Ha]; [vm_compute; reflexivity|]). contradiction.
  - vm_compute. repeat split.
Qed.

(** the functions named by this property's anchors still have the statement skeleton the model was written from
    (re-extracted from the Python AST on every run, harness/tables_shape.py + harness/shape_pins.json; kept last so that
    a difference does not stop the theorems above from being checked) *)
Theorem C12_source_shape : shapes_ok_C12 = true.
Proof. vm_compute. reflexivity. Qed.
Print Assumptions C12_source_shape.
