(** C14, the schedules of the resource-service framework (services/_base_service.py, _linux_base_service.py).

    [C14_service_consistent] (Props/C14.v) is stated for operation lists that satisfy [guarded].  Here the framework
    that produces those lists is a model of its own (Node/SvcFrame.v: client put / delete / get, _check_requests,
    _on_created, _on_deleted, the start-up sequence of LinuxResourceService._run), tied to the source by the translator
    section `svcframe` (shape pins + the file names) and by differential execution of the REAL framework with a
    recording implementation (harness/props/svcframe.py).  Proofs: Node/SvcFrameP.v. *)
From Coq Require Import ZArith List Bool.
From TM Require Import Node.Owners Node.OwnersP Node.SvcFrame Node.SvcFrameP Node.SvcFrameRun Gen.Tables.
Import ListNotations.
Open Scope Z_scope.

(** the source's file names: request.yml, reply.yml, svc_req_id are three different plain names, none a dot name *)
Theorem C14F_tables_ok : svcframe_tables_ok = true.
Proof. vm_compute. reflexivity. Qed.
Print Assumptions C14F_tables_ok.

(** (a) between SvcRestart and SvcSync the start-up hands over exactly the requests whose link resolves and whose
    request.yml passes the schema, each with its own payload, in directory (glob) order; everything else it does in
    between is bookkeeping that needs no guard *)
Theorem C14F_startup_replays_all : forall c order t s, nodup_z order = true ->
  let ops := snd (fst (startup c order t s)) in
  (exists mid, ops = SvcRestart :: mid ++ [SvcSync] /\ forallb quiet mid = true) /\
  creates ops = to_replay order t.
Proof. intros c order t s H. exact (startup_replays_all c order t s H). Qed.
Print Assumptions C14F_startup_replays_all.

Theorem C14F_startup_replays_once : forall c order t s n env,
  nodup_z order = true -> In n order -> is_dot n = false -> req_env (fget n t) = Some env ->
  filter (fun x => fst x =? n) (creates (snd (fst (startup c order t s)))) = [(n, env)].
Proof. intros c order t s n env H1 H2 H3 H4. exact (startup_replays_once c order t s n env H1 H2 H3 H4). Qed.
Print Assumptions C14F_startup_replays_once.

Theorem C14F_startup_replays_only : forall c order t s n env,
  nodup_z order = true -> In (n, env) (creates (snd (fst (startup c order t s)))) ->
  In n order /\ is_dot n = false /\ req_env (fget n t) = Some env.
Proof. intros c order t s n env H1 H2. exact (startup_replays_only c order t s n env H1 H2). Qed.
Print Assumptions C14F_startup_replays_only.

(** (b) the hypothesis of C14_service_consistent holds for what the framework does at start-up, from every
    implementation state whose resources cover the links that resolve *)
Theorem C14F_startup_guarded : forall c order t s,
  (forall n, live (fget n t) = true -> In n (s_res s)) ->
  guarded c (snd (fst (startup c order t s))) s = true.
Proof. intros c order t s H. exact (startup_guarded c order t s H). Qed.
Print Assumptions C14F_startup_guarded.

(** ... and for every history: any number of service starts and stops interleaved with client requests, repeated
    requests, releases, containers that vanish, request files that vanish, stray events.  The operation list is the one
    the implementation state of the model was computed with. *)
Theorem C14F_frame_run_guarded : forall c fs,
  guarded c (frame_ops c fs) empty_state = true /\
  f_own (fst (frame_run c fs fstate0)) = run c (frame_ops c fs) empty_state.
Proof. intros c fs. exact (frame_run_guarded c fs). Qed.
Print Assumptions C14F_frame_run_guarded.

(** so the conclusion of C14_service_consistent holds after every history of the framework, without a premise *)
Theorem C14F_service_consistent : forall c fs,
  let s := f_own (fst (frame_run c fs fstate0)) in
  (forall o a, dev_holds (s_devs s) o a = true -> lookup Z.eqb a (s_vips s) = Some o) /\
  (forall o1 o2 a, dev_holds (s_devs s) o1 a = true -> dev_holds (s_devs s) o2 a = true -> o1 = o2).
Proof. intros c fs. exact (frame_service_consistent c fs). Qed.
Print Assumptions C14F_service_consistent.

(** (c) the client *)
Theorem C14F_get_after_delete : forall e, client_get (fst (client_delete e)) = None \/ e_uid e = false.
Proof. intros e. exact (get_after_delete e). Qed.
Print Assumptions C14F_get_after_delete.

Theorem C14F_delete_twice : forall e,
  fst (client_delete (fst (client_delete e))) = fst (client_delete e) /\
  snd (client_delete (fst (client_delete e))) = CNone.
Proof. intros e. exact (conj (delete_twice e) (delete_twice_silent e)). Qed.
Print Assumptions C14F_delete_twice.

Theorem C14F_put_existing_removes_reply : forall n env e, live e = true -> e_uid e = true ->
  client_get (fst (client_put n env e)) = None /\ snd (client_put n env e) = CCreated /\
  e_req (fst (client_put n env e)) = Some env /\ live (fst (client_put n env e)) = true.
Proof. intros n env e H1 H2. exact (put_existing_removes_reply n env e H1 H2). Qed.
Print Assumptions C14F_put_existing_removes_reply.

Theorem C14F_put_answer_get : forall c n env t s up, 0 <= n -> 0 <= env ->
  let st1 := fst (fstep c (FPut n env) {| f_tbl := t; f_own := s; f_up := up |}) in
  e_uid (fget n t) = false \/ live (fget n t) = true ->
  (up = true ->
   exists r, client_get (fget n (f_tbl st1)) = Some r /\
             In (SvcCreate n env) (snd (fstep c (FPut n env) {| f_tbl := t; f_own := s; f_up := up |}))) /\
  (up = false -> client_get (fget n (f_tbl st1)) = (if e_uid (fget n t) then None else client_get (fget n t))).
Proof. intros c n env t s up H1 H2. exact (put_answer_get c n env t s up H1 H2). Qed.
Print Assumptions C14F_put_answer_get.

(** * Non-vacuity *)
Definition exf_c := {| c_base := 167772160; c_size := 8 |}.              (* 10.0.0.0/29 *)
(** two requests; the service stops; container 2 vanishes, container 3 asks; the service starts again and finds the
    directory listed as 3, 2, 1 *)
Definition exf_hist := [FBoot []; FPut 1 1; FPut 2 2; FGet 2; FStop; FGone 2; FPut 3 1; FBoot [3; 2; 1]].

Example C14F_nonvacuous :
  frame_ops exf_c exf_hist =
    [SvcRestart; SvcSync; ResUp 1; SvcCreate 1 1; ResUp 2; SvcCreate 2 2; ResDown 2; ResUp 3;
     SvcRestart; SvcCreate 3 1; SvcCreate 1 1; SvcSync; SvcDelete 2] /\
  (let st := fst (frame_run exf_c exf_hist fstate0) in
   client_get (fget 1 (f_tbl st)) = Some (RepOk 167772161) /\
   client_get (fget 3 (f_tbl st)) = Some (RepOk 167772163) /\
   fget 2 (f_tbl st) = absent /\
   s_vips (f_own st) = [(167772161, 1); (167772163, 3)]) /\
  (let st := fst (frame_run exf_c (firstn 7 exf_hist) fstate0) in
   nodup_z [3; 2; 1] = true /\
   to_replay [3; 2; 1] (f_tbl st) = [(3, 1); (1, 1)] /\
   res_covers (f_tbl st) (f_own st) = true).
Proof. vm_compute. repeat split. Qed.

(** a request whose request.yml is gone is not handed over: the framework removes its link instead, and the
    implementation is told about the deletion after synchronize; a payload the schema rejects gets the _error reply
    without a call *)
Example C14F_missing_request_file :
  frame_ops exf_c [FBoot []; FPut 1 1; FPut 2 (-1); FStop; FRmReq 1; FBoot [1; 2]; FGet 2] =
    [SvcRestart; SvcSync; ResUp 1; SvcCreate 1 1; ResUp 2; SvcRestart; ResDown 1; SvcSync; SvcDelete 1] /\
  client_get (fget 2 (f_tbl (fst (frame_run exf_c [FBoot []; FPut 1 1; FPut 2 (-1)] fstate0)))) = Some RepErr.
Proof. vm_compute. repeat split. Qed.

(** * (d) the start-up WITHOUT the replay (the seeded change: _on_created hands nothing over at start-up).
    The guard of C14_service_consistent does not notice - after SvcRestart every device is stale, so synchronize is
    "allowed" - but the live, answered owner 1 loses the address its reply.yml still names; with the replay it keeps
    it.  What excludes the change is statement (a), not the guard. *)
Definition exf_before := fst (frame_run exf_c [FBoot []; FPut 1 1; FStop] fstate0).

Theorem C14F_noreplay_loses_address_refuted :
  exists c order t s a,
    live (fget 1 t) = true /\ client_get (fget 1 t) = Some (RepOk a) /\ In (a, 1) (s_vips s) /\ In 1 (s_res s) /\
    guarded c (snd (fst (startup_noreplay c order t s))) s = true /\
    creates (snd (fst (startup_noreplay c order t s))) = [] /\ to_replay order t = [(1, 1)] /\
    s_vips (run c (snd (fst (startup_noreplay c order t s))) s) = [] /\
    s_vips (run c (snd (fst (startup c order t s))) s) = [(a, 1)].
Proof.
  exists exf_c, [1], (f_tbl exf_before), (f_own exf_before), 167772161. vm_compute.
  repeat split; left; reflexivity.
Qed.
Print Assumptions C14F_noreplay_loses_address_refuted.

(** * The content of the replay: a live, replayed owner keeps its address across a start-up.
    Side condition [sole_addr o a s]: [a] is the only entry of [o] in vips/.  After SvcRestart (initialize) the device
    of an owner carries the address listed LAST for it in vips/; SvcCreate then finds that device and re-uses its
    address without allocating (Owners.svc_create, branch [dget o = Some d], [d_ip d = Some a]); it never
    re-allocates for an owner that has a vips entry.  With two entries the kept one is listing-order dependent
    ([C14F_two_addresses_order_dependent]). *)
Theorem C14F_startup_keeps_live_address : forall c order t s o a,
  wf c s -> (forall n, live (fget n t) = true -> In n (s_res s)) ->
  nodup_z order = true -> In o order -> is_dot o = false -> replayable (fget o t) = true ->
  lookup Z.eqb a (s_vips s) = Some o -> sole_addr o a s = true ->
  let s' := run c (snd (fst (startup c order t s))) s in
  lookup Z.eqb a (s_vips s') = Some o /\ dev_holds (s_devs s') o a = true /\ dev_stale (s_devs s') o = false.
Proof. intros c order t s o a H1 H2 H3 H4 H5 H6 H7 H8. exact (startup_keeps_live_address c order t s o a H1 H2 H3 H4 H5 H6 H7 H8). Qed.
Print Assumptions C14F_startup_keeps_live_address.

(** the reclaim direction: an address the start-up takes from its holder belonged to a request that is not handed
    over - the container is gone, request.yml is gone, or the schema rejects the payload *)
Theorem C14F_startup_frees_only_gone_or_unreplayable : forall c order t s o a,
  wf c s -> (forall n, live (fget n t) = true -> In n (s_res s)) ->
  nodup_z order = true -> In o order -> is_dot o = false ->
  lookup Z.eqb a (s_vips s) = Some o -> sole_addr o a s = true ->
  lookup Z.eqb a (s_vips (run c (snd (fst (startup c order t s))) s)) <> Some o ->
  replayable (fget o t) = false.
Proof. intros c order t s o a H1 H2 H3 H4 H5 H6 H7 H8. exact (startup_frees_only_unreplayable c order t s o a H1 H2 H3 H4 H5 H6 H7 H8). Qed.
Print Assumptions C14F_startup_frees_only_gone_or_unreplayable.

(** whole histories: from the empty node, after any history [fs1], an owner that reads [a] in its reply, holds [a]
    (directory and device) and holds nothing else keeps it through every continuation [fs2] that leaves its request
    alone ([spares]: no client delete of [o], its container does not vanish, nobody removes its request.yml, its own
    puts carry a valid payload, every start lists the directory without repetition and with [o] in it) - across any
    number of restarts, other owners' requests and releases, stray events; and any reply it reads names [a].
    PARTIAL in one respect: that the owner holds what its reply names ([lookup], [dev_holds], [sole_addr] at the end of
    [fs1]) is a hypothesis here, not derived from [fs1]. *)
Theorem C14F_history_keeps_told_address_partial : forall c o a fs1 fs2,
  let st1 := fst (frame_run c fs1 fstate0) in
  0 <= o -> replayable (fget o (f_tbl st1)) = true ->
  client_get (fget o (f_tbl st1)) = Some (RepOk a) ->
  lookup Z.eqb a (s_vips (f_own st1)) = Some o -> dev_holds (s_devs (f_own st1)) o a = true ->
  sole_addr o a (f_own st1) = true ->
  forallb (spares o) fs2 = true ->
  let st2 := fst (frame_run c fs2 st1) in
  lookup Z.eqb a (s_vips (f_own st2)) = Some o /\ dev_holds (s_devs (f_own st2)) o a = true /\
  replayable (fget o (f_tbl st2)) = true /\
  (client_get (fget o (f_tbl st2)) = None \/ client_get (fget o (f_tbl st2)) = Some (RepOk a)).
Proof. intros c o a fs1 fs2 st1 H1 H2 H3 H4 H5 H6 H7. exact (history_keeps_told_address c o a fs1 fs2 H1 H2 H3 H4 H5 H6 H7). Qed.
Print Assumptions C14F_history_keeps_told_address_partial.

(** non-vacuity: owner 1 is told .1; then restarts, another owner coming and going, a repeated request of owner 1
    with another environment, a stray event, a stop with a request in between - owner 1 still holds .1 *)
Definition exf_fs1 := [FBoot []; FPut 1 1].
Definition exf_fs2 := [FPut 2 2; FStop; FBoot [2; 1]; FDelete 2; FPut 1 3; FTouch (PName 1); FStop; FPut 3 1; FGone 2;
                       FBoot [1; 3]; FGet 1].
Example C14F_history_nonvacuous :
  let st1 := fst (frame_run exf_c exf_fs1 fstate0) in
  let st2 := fst (frame_run exf_c exf_fs2 st1) in
  replayable (fget 1 (f_tbl st1)) = true /\ client_get (fget 1 (f_tbl st1)) = Some (RepOk 167772161) /\
  lookup Z.eqb 167772161 (s_vips (f_own st1)) = Some 1 /\ dev_holds (s_devs (f_own st1)) 1 167772161 = true /\
  sole_addr 1 167772161 (f_own st1) = true /\ forallb (spares 1) exf_fs2 = true /\
  client_get (fget 1 (f_tbl st2)) = Some (RepOk 167772161) /\
  s_vips (f_own st2) = [(167772161, 1); (167772162, 3)].
Proof. vm_compute. repeat split. Qed.

(** the side condition is needed: an owner with two entries in vips/ (a second one allocated behind the service)
    comes out of the start-up with the address listed last on its device, not the one it was told *)
Example C14F_two_addresses_order_dependent :
  let s := run exf_c [ResUp 1; SvcCreate 1 1; VipAlloc 1 None] empty_state in
  let t := [(1, {| e_link := true; e_dir := true; e_req := Some 1; e_uid := true; e_reply := Some (RepOk 167772161) |})] in
  let s' := run exf_c (snd (fst (startup exf_c [1] t s))) s in
  dev_holds (s_devs s) 1 167772161 = true /\ sole_addr 1 167772161 s = false /\
  dev_holds (s_devs s') 1 167772161 = false /\ dev_holds (s_devs s') 1 167772162 = true /\
  s_vips s' = [(167772161, 1); (167772162, 1)].
Proof. vm_compute. repeat split. Qed.
