(** C17  Presence registration never touches nodes owned by another session.

    Model: [TM.Node.Presence] -- ZooKeeper node table x any number of presence services (session, alive,
    local presence map, continuation); [run s acts] executes a list of actions (a client starts any
    create/delete request while idle, a client performs ONE ZooKeeper call, a session expires, a service
    restarts with a fresh session) and returns the observation of every ZooKeeper call.  The theorems hold
    for ALL action lists (all interleavings, requests and expiry points) from ALL initial states with
    pairwise distinct sessions and idle clients -- node table and local maps arbitrary (possibly stale). *)
From Coq Require Import ZArith List Bool.
From TM Require Import Node.Presence Node.PresenceP.
From TM Require Import Node.EpPresence Node.EpPresenceP.
From TM Require Import Base.ShapeCanon.
Import ListNotations.
Open Scope Z_scope.

(** every set/delete issued by a client finds the node owned by the client's own session (and succeeds);
    every successful create makes an ephemeral node of the caller's session where none existed; set keeps the owner *)
Theorem C17_safe : forall s acts s' os,
  wf_init s = true -> run s acts = Some (s', os) -> Forall safe_obs os.
Proof. intros s acts s' os Hw Hr. exact (thm_safe s acts s' os Hw Hr). Qed.
Print Assumptions C17_safe.

(** every call made by on_delete_request rid is on a path registered for rid in the service's map;
    deletes come only from delete requests, sets/creates only from create requests *)
Theorem C17_delete_own_only : forall s acts s' os,
  wf_init s = true -> run s acts = Some (s', os) -> Forall reg_obs os.
Proof. intros s acts s' os Hw Hr. exact (thm_delete_own_only s acts s' os Hw Hr). Qed.
Print Assumptions C17_delete_own_only.

(** in every reachable state: a path registered for a newer container rid2 is not among the paths that
    on_delete_request rid1 (an older container of the same instance) will visit *)
Theorem C17_newer_kept : forall s acts s' os j c app p rid1 rid2,
  wf_init s = true -> run s acts = Some (s', os) -> nth_error (st_clients s') j = Some c ->
  pm_get (c_pmap c) app p = Some rid2 -> rid1 <> rid2 ->
  ~ In p (pm_paths (c_pmap c) app rid1) /\
  (forall rest q, c_pc (start c (RDelete rid1 app)) = PDelGet rid1 app q rest -> q <> p /\ ~ In p rest).
Proof.
  intros s acts s' os j c app p rid1 rid2 Hw Hr Hj Hg Hne.
  exact (thm_newer_kept s acts s' os j c app p rid1 rid2 Hw Hr Hj Hg Hne).
Qed.
Print Assumptions C17_newer_kept.

(** non-vacuity.  Paths 1 = running, 2 = endpoint; data 10 = "nodea", 11 = "nodea:5000", 12 = "nodea:5001",
    20/21 = node b's.  Client 0 (session 101) registers container 1; client 1 (session 102) tries container 2
    of the same instance: create fails, get sees the foreign owner, it reads again for the watch and stops --
    no set/delete.  Client 0 registers container 3 (adopts the running node, updates its own endpoint node),
    then cleans up container 1: nothing is deleted.  Session 101 expires: client 1 retries and registers.
    A stale start: client 1's map says path 1 belongs to container 9 but session 101 owns the node; its
    on_delete_request 9 reads the node and leaves it alone. *)
Definition ex_init : state :=
  {| st_zk := [];
     st_clients := [ {| c_sess := 101; c_alive := true; c_pmap := []; c_pc := PIdle |};
                     {| c_sess := 102; c_alive := true; c_pmap := []; c_pc := PIdle |} ];
     st_next := 103 |}.
Definition ex_acts : list action :=
  [ AReq 0 (RCreate 1 1 [(1, 10); (2, 11)]); AStep 0; AStep 0;
    AReq 1 (RCreate 2 1 [(1, 20); (2, 21)]); AStep 1; AStep 1; AStep 1;
    AReq 0 (RCreate 3 1 [(1, 10); (2, 12)]); AStep 0; AStep 0; AStep 0; AStep 0; AStep 0;
    AReq 0 (RDelete 1 1);
    AExpire 0;
    AReq 1 (RCreate 2 1 [(1, 20); (2, 21)]); AStep 1; AStep 1 ].
Definition ex_stale : state :=
  {| st_zk := [ {| n_path := 1; n_data := 10; n_owner := 101 |} ];
     st_clients := [ {| c_sess := 101; c_alive := true; c_pmap := []; c_pc := PIdle |};
                     {| c_sess := 102; c_alive := true; c_pmap := [ {| pe_app := 1; pe_path := 1; pe_rid := 9 |} ]; c_pc := PIdle |} ];
     st_next := 103 |}.
Example C17_nonvacuous :
  wf_init ex_init = true /\ wf_init ex_stale = true /\
  (match run ex_init ex_acts with
   | Some (s', os) =>
       map (fun n => (n_path n, n_data n, n_owner n)) (st_zk s') = [(1, 20, 102); (2, 21, 102)] /\
       length os = 12%nat /\
       length (filter (fun o => mutating (o_op o)) os) = 1%nat /\
       map (fun o => o_client o) (filter (fun o => mutating (o_op o)) os) = [0%nat]
   | None => False
   end) /\
  (match run ex_stale [AReq 1 (RDelete 9 1); AStep 1] with
   | Some (s', os) => map n_owner (st_zk s') = [101] /\ map (fun o => mutating (o_op o)) os = [false]
                      /\ map (fun c => length (c_pmap c)) (st_clients s') = [0%nat; 0%nat]
   | None => False
   end).
Proof. vm_compute. repeat split. Qed.

(** ------------------------------------------------------------------------------------------------------------
    The two other mechanisms named by C17's anchors: hostname ownership in presence.EndpointPresence.unregister_*
    and placement ownership in trace.app.zk._unschedule.

    Model: [TM.Node.EpPresence] -- a node table (structured path -> payload bytes, ephemeral owner), and operations
    [op]: the six EndpointPresence calls and _unschedule by an [agent] (host name, session), plus everybody else
    (OCreate: the master placing and scheduling, leftovers; ODelete; OExpire).  One operation is one call of the
    function (its ZooKeeper calls are not interleaved with others: see C17_ep_check_then_act_witness).  The theorems
    hold for ALL node tables and ALL operation lists by any number of hosts and sessions.  The table is read as a map
    ([tget]): a statement  tget t' q = ...  for all q  says what was removed AND that nothing else changed. *)

(** unregister_running by host h removes /running/<instance> iff it exists and its data is non-empty and equal to h
    ([names_running]); every other path, and that path otherwise, is as before; the call returns *)
Theorem C17_ep_unregister_running_exact : forall a m t q,
  snd (unregister_running a m t) = Done /\
  tget (fst (unregister_running a m t)) q =
    if path_eqb q (PRunning (m_app m)) && holds t q (a_host a) then None else tget t q.
Proof. intros a m t q. exact (thm_unregister_running_exact a m t q). Qed.
Print Assumptions C17_ep_unregister_running_exact.

(** unregister_endpoints by host h removes, among the endpoint paths of the manifest it reaches (the loop returns at
    the first endpoint without a name), exactly those whose data is non-empty and whose text before the first ':'
    equals h ([names_endpoint]); nothing else changes *)
Theorem C17_ep_unregister_endpoints_exact : forall a m t q,
  snd (unregister_endpoints a m t) = Done /\
  tget (fst (unregister_endpoints a m t)) q =
    if existsb (fun e => path_eqb q (ep_path (m_app m) e)) (reached (m_eps m)) && holds t q (a_host a)
    then None else tget t q.
Proof. intros a m t q. exact (thm_unregister_endpoints_exact a m t q). Qed.
Print Assumptions C17_ep_unregister_endpoints_exact.

(** unregister_identity by host h removes the identity node iff it holds a mapping whose 'host' is h
    ([names_identity]); a node holding anything else makes the call raise, and nothing is removed *)
Theorem C17_ep_unregister_identity_exact : forall a m t q,
  snd (unregister_identity a m t) =
    match m_ident m with
    | Some gi => match tget t (ident_path gi) with
                 | Some n => match e_data n with DText _ => Raised | DIdent _ _ => Done end
                 | None => Done
                 end
    | None => Done
    end /\
  tget (fst (unregister_identity a m t)) q =
    if match m_ident m with Some gi => path_eqb q (ident_path gi) | None => false end && holds t q (a_host a)
    then None else tget t q.
Proof. intros a m t q. exact (thm_unregister_identity_exact a m t q). Qed.
Print Assumptions C17_ep_unregister_identity_exact.

(** what the three comparisons mean, and that a node names at most one host: a node naming another host never
    satisfies the comparison of h *)
Theorem C17_ep_names_spec : forall d h,
  (names_running d h = true <-> exists s, d = DText s /\ s <> [] /\ s = h) /\
  (names_endpoint d h = true <-> exists s, d = DText s /\ s <> [] /\ before_colon s = h) /\
  (names_identity d h = true <-> exists ap, d = DIdent h ap) /\
  (forall port, existsb (Z.eqb colon) h = false -> before_colon (hostport h port) = h) /\
  (forall p h2, names p d h = true -> names p d h2 = true -> h = h2).
Proof.
  intros d h.
  exact (conj (names_running_spec d h) (conj (names_endpoint_spec d h) (conj (names_identity_spec d h)
        (conj (fun port => before_colon_hostport h port) (fun p h2 => names_exclusive p d h h2))))).
Qed.
Print Assumptions C17_ep_names_spec.

(** an unregister_* by host h (through whatever session) leaves every node that does not name h in place, with its
    data and owner; and it never creates or rewrites a node *)
Theorem C17_ep_unregister_spares_other_hosts : forall o a t q,
  unregister_by o = Some a ->
  (forall n, tget t q = Some n -> names q (e_data n) (a_host a) = false -> tget (fst (ep_step t o)) q = Some n) /\
  (tget (fst (ep_step t o)) q = None \/ tget (fst (ep_step t o)) q = tget t q).
Proof.
  intros o a t q Ho.
  exact (conj (fun n Hq Hn => thm_unregister_spares o a t q n Ho Hq Hn) (thm_unregister_only_removes o a t q Ho)).
Qed.
Print Assumptions C17_ep_unregister_spares_other_hosts.

(** along ANY list of operations: a node that names host b stays -- same data, same owner -- unless the list
    contains an unregister_* by b itself, an explicit delete of that very path, or the expiry of its owner session
    ([spares]); registrations, unregistrations and _unschedule by any number of other hosts do not touch it *)
Theorem C17_ep_foreign_nodes_survive : forall b n ops t,
  tget t (e_path n) = Some n -> names (e_path n) (e_data n) b = true -> forallb (spares b n) ops = true ->
  tget (ep_run t ops) (e_path n) = Some n.
Proof. intros b n ops t Hq Hn Hs. exact (thm_survive b n ops t Hq Hn Hs). Qed.
Print Assumptions C17_ep_foreign_nodes_survive.

(** "the clean-up of an old container never unregisters a newer one", at this level: once EndpointPresence.register of
    host b has succeeded, each of its nodes (running, every endpoint, identity) is an ephemeral node of b's session
    naming b, and stays exactly so through any such list of operations *)
Theorem C17_ep_newer_elsewhere_kept : forall b m t t1 q,
  host_ok (a_host b) = true -> register_all b m t = (t1, Done) -> In q (registered_paths m) ->
  exists n, tget t1 q = Some n /\ e_owner n = a_sess b /\ names q (e_data n) (a_host b) = true /\
            forall ops, forallb (spares (a_host b) n) ops = true -> tget (ep_run t1 ops) q = Some n.
Proof. intros b m t t1 q Hok Hr Hin. exact (thm_newer_elsewhere_kept b m t t1 q Hok Hr Hin). Qed.
Print Assumptions C17_ep_newer_elsewhere_kept.

(** ... in particular the clean-up (unregister_running, unregister_endpoints, unregister_identity with ANY manifest
    m_old) of an older container on another host a, after anything that is neither a direct delete, an expiry nor b's
    own unregister_* *)
Theorem C17_ep_cleanup_elsewhere_keeps_newer : forall a b m m_old t t1 q mid,
  host_ok (a_host b) = true -> text_eqb (a_host a) (a_host b) = false ->
  register_all b m t = (t1, Done) -> In q (registered_paths m) ->
  forallb (fun o => match o with ODelete _ | OExpire _ => false | _ => true end) mid = true ->
  forallb (fun o => match unregister_by o with Some c => negb (text_eqb (a_host c) (a_host b)) | None => true end) mid = true ->
  tget (ep_run t1 (mid ++ [OUnregRunning a m_old; OUnregEndpoints a m_old; OUnregIdentity a m_old])) q = tget t1 q.
Proof.
  intros a b m m_old t t1 q mid Hok Hab Hr Hin H1 H2.
  exact (thm_cleanup_elsewhere_keeps_newer a b m m_old t t1 q mid Hok Hab Hr Hin H1 H2).
Qed.
Print Assumptions C17_ep_cleanup_elsewhere_keeps_newer.

(** _unschedule on host h removes /scheduled/<instance> iff /placement/<h>/<instance> exists, and changes nothing else;
    without the placement it changes nothing at all *)
Theorem C17_ep_unschedule_exact : forall h i t,
  (forall q, tget (unschedule h i t) q =
             if path_eqb q (PScheduled i) && texists t (PPlacement h i) then None else tget t q) /\
  (tget t (PPlacement h i) = None -> unschedule h i t = t).
Proof. intros h i t. exact (conj (thm_unschedule_exact h i t) (thm_unschedule_stale_noop h i t)). Qed.
Print Assumptions C17_ep_unschedule_exact.

(** stale events: host a does not hold the placement of instance i (it was placed elsewhere, or nowhere) and the
    operations do not give it to a ([stale_for]: no creation of /placement/a/i, no direct delete of /scheduled/i, no
    expiry of its owner, _unschedule of i only by a).  Then /scheduled/i stays whatever a processes, and a further stale
    event of a changes nothing in the whole table *)
Theorem C17_ep_stale_events_keep_scheduled : forall a i n ops t sess,
  tget t (PPlacement a i) = None -> tget t (PScheduled i) = Some n -> forallb (stale_for a i n) ops = true ->
  tget (ep_run t ops) (PPlacement a i) = None /\ tget (ep_run t ops) (PScheduled i) = Some n /\
  ep_run t (ops ++ [OUnschedule {| a_host := a; a_sess := sess |} i]) = ep_run t ops.
Proof.
  intros a i n ops t sess Hp Hs Hst.
  destruct (thm_stale_events_keep_scheduled a i n ops t Hp Hs Hst) as [H1 H2].
  exact (conj H1 (conj H2 (thm_stale_event_changes_nothing a i n ops t sess Hp Hs Hst))).
Qed.
Print Assumptions C17_ep_stale_events_keep_scheduled.

(** non-vacuity and the limits of hostname ownership.  Bytes: "na" = [110;97], "nb" = [110;98], "5000"/"5001".
    Instance 12, endpoint (tcp=1, http=7), identity (group 1, id 0). *)
Definition hA : text := [110; 97].
Definition hB : text := [110; 98].
Definition p5000 : text := [53; 48; 48; 48].
Definition p5001 : text := [53; 48; 48; 49].
Definition agA (s : Z) : agent := {| a_host := hA; a_sess := s |}.
Definition agB (s : Z) : agent := {| a_host := hB; a_sess := s |}.
Definition mf (port : text) : manifest :=
  {| m_app := 12; m_eps := [ {| ep_proto := 1; ep_name := 7; ep_port := port |} ]; m_ident := Some (1, 0) |}.
Definition unreg_all (a : agent) (m : manifest) : list op := [OUnregRunning a m; OUnregEndpoints a m; OUnregIdentity a m].
Definition reg_all (a : agent) (m : manifest) : list op := [ORegIdentity a m; ORegRunning a m; ORegEndpoints a m].
Definition view (t : table) := map (fun n => (e_path n, e_data n, e_owner n)) t.

(** host A (session 101) registers container 1; the session expires; the instance is placed on B, which registers
    (session 102); the late clean-up of container 1 on A -- through A's new session 103 -- removes nothing; B's own
    unregister removes everything.  Placement: the master places 12 on A, schedules it, moves it to B; A's stale event
    leaves /scheduled/12, B's event removes it (and only it). *)
Example C17_ep_nonvacuous :
  host_ok hA = true /\ host_ok hB = true /\
  register_all (agB 102) (mf p5001) [] =
    ([ {| e_path := PIdentity 1 0; e_data := DIdent hB 12; e_owner := 102 |};
       {| e_path := PRunning 12; e_data := DText hB; e_owner := 102 |};
       {| e_path := PEndpoint 12 1 7; e_data := DText (hostport hB p5001); e_owner := 102 |} ], Done) /\
  view (ep_run [] (reg_all (agA 101) (mf p5000) ++ [OExpire 101] ++ reg_all (agB 102) (mf p5001) ++ unreg_all (agA 103) (mf p5000)))
    = [ (PIdentity 1 0, DIdent hB 12, 102); (PRunning 12, DText hB, 102); (PEndpoint 12 1 7, DText (hostport hB p5001), 102) ] /\
  ep_run [] (reg_all (agB 102) (mf p5001) ++ unreg_all (agB 999) (mf p5000)) = [] /\
  (let placed := ep_run [] [OCreate (PPlacement hA 12) (DText []) 0; OCreate (PScheduled 12) (DText []) 0;
                         ODelete (PPlacement hA 12); OCreate (PPlacement hB 12) (DText []) 0] in
   forallb (stale_for hA 12 {| e_path := PScheduled 12; e_data := DText []; e_owner := 0 |})
           [ORegRunning (agB 102) (mf p5001); OUnschedule (agA 103) 12; OExpire 101] = true /\
   ep_run placed [OUnschedule (agA 103) 12] = placed /\
   view (ep_run placed [OUnschedule (agB 102) 12]) = [ (PPlacement hB 12, DText [], 0) ]) /\
  (* a node holding something else than a mapping: unregister_identity raises and removes nothing *)
  ep_step [ {| e_path := PIdentity 1 0; e_data := DText hA; e_owner := 5 |} ] (OUnregIdentity (agA 101) (mf p5000))
    = ([ {| e_path := PIdentity 1 0; e_data := DText hA; e_owner := 5 |} ], Raised).
Proof. vm_compute. repeat split. Qed.

(** LIMIT 1 (hostname ownership does not tell two containers on the SAME host apart): host A registers container 1
    (session 101, port 5000), the session expires, A registers the newer container 2 of the same instance (session 102,
    port 5001); the clean-up of container 1 -- manifest of container 1, hence port 5000 -- removes all three nodes of
    container 2.  unregister_endpoints does not compare the port, unregister_running/identity have nothing else to
    compare.  (Within /repo unregister_* is only called by presence.kill_node, which means to remove every node of
    the host; the per-container guarantee is C17_newer_kept above, for PresenceResourceService.) *)
Theorem C17_ep_same_host_newer_refuted :
  exists t1 ops, register_all (agA 102) (mf p5001) (ep_run [] (reg_all (agA 101) (mf p5000) ++ [OExpire 101])) = (t1, Done) /\
    length t1 = 3%nat /\
    ops = unreg_all (agA 102) (mf p5000) /\
    (forall n, In n t1 -> e_owner n = 102 /\ names (e_path n) (e_data n) hA = true) /\
    ep_run t1 ops = [].
Proof.
  eexists. eexists. split; [vm_compute; reflexivity|]. split; [reflexivity|]. split; [reflexivity|]. split.
  - intros n Hn. cbn in Hn. destruct Hn as [Hn | [Hn | [Hn | []]]]; subst n; vm_compute; split; reflexivity.
  - vm_compute. reflexivity.
Qed.
Print Assumptions C17_ep_same_host_newer_refuted.

(** LIMIT 2 (the endpoint comparison is "text before the first ':'", not "h:<port of this container>"): an endpoint
    node holding just the host name, or the host name with another port, or with more fields, is removed *)
Theorem C17_ep_port_not_compared :
  forall d, In d [DText hA; DText (hostport hA p5001); DText (hostport hA (p5000 ++ colon :: p5001))] ->
    d <> DText (hostport hA p5000) /\
    fst (unregister_endpoints (agA 101) (mf p5000) [ {| e_path := PEndpoint 12 1 7; e_data := d; e_owner := 77 |} ]) = [].
Proof.
  intros d Hd. cbn in Hd. destruct Hd as [Hd | [Hd | [Hd | []]]]; subst d; split; try discriminate; vm_compute; reflexivity.
Qed.
Print Assumptions C17_ep_port_not_compared.

(** LIMIT 3 (granularity): the get and the delete of unregister_* (likewise exists/delete of _unschedule) are two
    ZooKeeper calls.  If they are separated -- A's check succeeds, the owner session expires, B registers, A's delete
    is performed -- B's node is removed.  The theorems above are about whole calls. *)
Theorem C17_ep_check_then_act_witness :
  let p := PRunning 12 in
  let t0 := fst (ep_step [] (ORegRunning (agA 101) (mf p5000))) in
  let t1 := ep_run t0 [OExpire 101; ORegRunning (agB 102) (mf p5001)] in
  unreg_check t0 p hA = true /\ unreg_check t1 p hA = false /\
  view t1 = [ (p, DText hB, 102) ] /\ unreg_act t1 p = [] /\ unreg_node t1 p hA = t1.
Proof. vm_compute. repeat split. Qed.
Print Assumptions C17_ep_check_then_act_witness.

(** the functions named by this property's anchors still have the statement skeleton the model was written from
    (re-extracted from the Python AST on every run, harness/tables_shape.py + harness/shape_pins.json; kept last so that
    a difference does not stop the theorems above from being checked) *)
Theorem C17_source_shape : shapes_ok_C17 = true.
Proof. vm_compute. reflexivity. Qed.
Print Assumptions C17_source_shape.
