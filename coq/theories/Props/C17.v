(** C17  Presence registration never touches nodes owned by another session.

    Model: [TM.Node.Presence] -- ZooKeeper node table x any number of presence services (session, alive,
    local presence map, continuation); [run s acts] executes a list of actions (a client starts any
    create/delete request while idle, a client performs ONE ZooKeeper call, a session expires, a service
    restarts with a fresh session) and returns the observation of every ZooKeeper call.  The theorems hold
    for ALL action lists (all interleavings, requests and expiry points) from ALL initial states with
    pairwise distinct sessions and idle clients -- node table and local maps arbitrary (possibly stale). *)
From Coq Require Import ZArith List Bool.
From TM Require Import Node.Presence Node.PresenceP.
From TM Require Import Base.ShapeCanon.
Import ListNotations.
Open Scope Z_scope.

(** every set/delete issued by a client finds the node owned by the client's own session (and succeeds);
    every successful create makes an ephemeral node of the caller's session where none existed; set keeps the owner *)
Theorem C17_safe : forall s acts s' os,
  wf_init s = true -> run s acts = Some (s', os) -> Forall safe_obs os.
Proof. intros s acts s' os Hw Hr. exact (thm_safe s acts s' os Hw Hr). Qed.
Print Assumptions C17_safe.

(** every call made by on_delete_request rid is on a path registered for rid in the service's map;
    deletes come only from delete requests, sets/creates only from create requests *)
Theorem C17_delete_own_only : forall s acts s' os,
  wf_init s = true -> run s acts = Some (s', os) -> Forall reg_obs os.
Proof. intros s acts s' os Hw Hr. exact (thm_delete_own_only s acts s' os Hw Hr). Qed.
Print Assumptions C17_delete_own_only.

(** in every reachable state: a path registered for a newer container rid2 is not among the paths that
    on_delete_request rid1 (an older container of the same instance) will visit *)
Theorem C17_newer_kept : forall s acts s' os j c app p rid1 rid2,
  wf_init s = true -> run s acts = Some (s', os) -> nth_error (st_clients s') j = Some c ->
  pm_get (c_pmap c) app p = Some rid2 -> rid1 <> rid2 ->
  ~ In p (pm_paths (c_pmap c) app rid1) /\
  (forall rest q, c_pc (start c (RDelete rid1 app)) = PDelGet rid1 app q rest -> q <> p /\ ~ In p rest).
Proof.
  intros s acts s' os j c app p rid1 rid2 Hw Hr Hj Hg Hne.
  exact (thm_newer_kept s acts s' os j c app p rid1 rid2 Hw Hr Hj Hg Hne).
Qed.
Print Assumptions C17_newer_kept.

(** non-vacuity.  Paths 1 = running, 2 = endpoint; data 10 = "nodea", 11 = "nodea:5000", 12 = "nodea:5001",
    20/21 = node b's.  Client 0 (session 101) registers container 1; client 1 (session 102) tries container 2
    of the same instance: create fails, get sees the foreign owner, it reads again for the watch and stops --
    no set/delete.  Client 0 registers container 3 (adopts the running node, updates its own endpoint node),
    then cleans up container 1: nothing is deleted.  Session 101 expires: client 1 retries and registers.
    A stale start: client 1's map says path 1 belongs to container 9 but session 101 owns the node; its
    on_delete_request 9 reads the node and leaves it alone. *)
Definition ex_init : state :=
  {| st_zk := [];
     st_clients := [ {| c_sess := 101; c_alive := true; c_pmap := []; c_pc := PIdle |};
                     {| c_sess := 102; c_alive := true; c_pmap := []; c_pc := PIdle |} ];
     st_next := 103 |}.
Definition ex_acts : list action :=
  [ AReq 0 (RCreate 1 1 [(1, 10); (2, 11)]); AStep 0; AStep 0;
    AReq 1 (RCreate 2 1 [(1, 20); (2, 21)]); AStep 1; AStep 1; AStep 1;
    AReq 0 (RCreate 3 1 [(1, 10); (2, 12)]); AStep 0; AStep 0; AStep 0; AStep 0; AStep 0;
    AReq 0 (RDelete 1 1);
    AExpire 0;
    AReq 1 (RCreate 2 1 [(1, 20); (2, 21)]); AStep 1; AStep 1 ].
Definition ex_stale : state :=
  {| st_zk := [ {| n_path := 1; n_data := 10; n_owner := 101 |} ];
     st_clients := [ {| c_sess := 101; c_alive := true; c_pmap := []; c_pc := PIdle |};
                     {| c_sess := 102; c_alive := true; c_pmap := [ {| pe_app := 1; pe_path := 1; pe_rid := 9 |} ]; c_pc := PIdle |} ];
     st_next := 103 |}.
Example C17_nonvacuous :
  wf_init ex_init = true /\ wf_init ex_stale = true /\
  (match run ex_init ex_acts with
   | Some (s', os) =>
       map (fun n => (n_path n, n_data n, n_owner n)) (st_zk s') = [(1, 20, 102); (2, 21, 102)] /\
       length os = 12%nat /\
       length (filter (fun o => mutating (o_op o)) os) = 1%nat /\
       map (fun o => o_client o) (filter (fun o => mutating (o_op o)) os) = [0%nat]
   | None => False
   end) /\
  (match run ex_stale [AReq 1 (RDelete 9 1); AStep 1] with
   | Some (s', os) => map n_owner (st_zk s') = [101] /\ map (fun o => mutating (o_op o)) os = [false]
                      /\ map (fun c => length (c_pmap c)) (st_clients s') = [0%nat; 0%nat]
   | None => False
   end).
Proof. vm_compute. repeat split. Qed.

(** the functions named by this property's anchors still have the statement skeleton the model was written from
    (re-extracted from the Python AST on every run, harness/tables_shape.py + harness/shape_pins.json; kept last so that
    a difference does not stop the theorems above from being checked) *)
Theorem C17_source_shape : shapes_ok_C17 = true.
Proof. vm_compute. reflexivity. Qed.
Print Assumptions C17_source_shape.
