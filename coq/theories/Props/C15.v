(** C15  State kept in names and directory entries round-trips losslessly.

    A family of codecs; one model + theorem group per codec.  Alphabets, format templates,
    separators, bit widths (and, below, regex texts / event type table / LDAP schemas) are
    regenerated from the Python source into TM.Gen.Tables on every run; each group starts
    with a computational check of the generated tables. *)
From Coq Require Import ZArith List Bool.
From TM Require Import Codec.BaseN Codec.BaseNP Codec.Dec Codec.Event Codec.EventP Codec.Rule Codec.RuleP Codec.Json Codec.JsonP Codec.Ldap Codec.LdapP Gen.Tables Codec.C15Run.
From TM Require Import Base.ShapeCanon.
Import ListNotations.
Open Scope Z_scope.

(** * 1. utils.to_base_n / from_base_n *)

(** for every alphabet without duplicates, every base 2..len(alphabet) and every n >= 0:
    encoding succeeds and decodes to n *)
Theorem C15_base_n_roundtrip : forall al base n,
  nodupb al = true -> 2 <= base <= zlen al -> 0 <= n ->
  exists s, to_base_n al base n = Ok s /\ from_base_n al base s = Ok n.
Proof. intros al base n H1 H2 H3. exact (base_n_roundtrip al base n H1 H2 H3). Qed.
Print Assumptions C15_base_n_roundtrip.

(** distinct numbers never share an encoding *)
Theorem C15_base_n_injective : forall al base n m s,
  nodupb al = true -> 2 <= base <= zlen al -> 0 <= n -> 0 <= m ->
  to_base_n al base n = Ok s -> to_base_n al base m = Ok s -> n = m.
Proof. intros al base n m s H1 H2 H3 H4 H5 H6. exact (base_n_injective al base n m s H1 H2 H3 H4 H5 H6). Qed.
Print Assumptions C15_base_n_injective.

(** the generated tables (both alphabets duplicate-free, 62^13 >= 2^77, fill = zero digit,
    one '-' separator that is not an id character, '#' <-> '-') *)
Theorem C15_uid_tables_ok : uid_tables_ok c15_uid_tables = true.
Proof. vm_compute. reflexivity. Qed.
Print Assumptions C15_uid_tables_ok.

(** the default alphabet of the source, any n >= 0 *)
Theorem C15_base_n_default : forall n, 0 <= n ->
  exists s, to_base_n c15_default_alphabet (zlen c15_default_alphabet) n = Ok s
            /\ from_base_n c15_default_alphabet (zlen c15_default_alphabet) s = Ok n.
Proof. intros n Hn. exact (base_n_default c15_uid_tables n C15_uid_tables_ok Hn). Qed.
Print Assumptions C15_base_n_default.

(** * 1b. appcfg.gen_uniqueid *)

(** every seed below 2^77 gives exactly 13 characters of the alphabet, which decode to the seed *)
Theorem C15_uid_13_chars : forall seed, 0 <= seed < 2 ^ 77 ->
  exists s, uid_of_seed c15_uid_tables seed = Ok s /\ length s = 13%nat
            /\ from_base_n c15_uid_alphabet (zlen c15_uid_alphabet) s = Ok seed
            /\ Forall (fun c => In c c15_uid_alphabet) s.
Proof. intros seed H. exact (uid_of_seed_spec c15_uid_tables seed C15_uid_tables_ok H). Qed.
Print Assumptions C15_uid_13_chars.

Theorem C15_uid_injective : forall a b s, 0 <= a < 2 ^ 77 -> 0 <= b < 2 ^ 77 ->
  uid_of_seed c15_uid_tables a = Ok s -> uid_of_seed c15_uid_tables b = Ok s -> a = b.
Proof. intros a b s Ha Hb H1 H2. exact (uid_of_seed_injective c15_uid_tables a b s C15_uid_tables_ok Ha Hb H1 H2). Qed.
Print Assumptions C15_uid_injective.

(** whatever os.stat returns (inode, ctime in microseconds) and whatever the instance id:
    gen_uniqueid succeeds with 13 characters, none of them '-', decoding to the 77-bit seed *)
Theorem C15_gen_uniqueid : forall ino ctime_us inst,
  exists s, gen_uniqueid c15_uid_tables ino ctime_us inst = Ok s /\ length s = 13%nat
            /\ from_base_n c15_uid_alphabet (zlen c15_uid_alphabet) s = Ok (uid_seed c15_uid_tables ino ctime_us inst)
            /\ ~ In c15_split_sep s.
Proof. intros ino ctime_us inst. exact (gen_uniqueid_spec c15_uid_tables ino ctime_us inst C15_uid_tables_ok). Qed.
Print Assumptions C15_gen_uniqueid.

(** * 1c. appcfg._fmt_unique_name / app_name / app_unique_id *)

(** Domain: the instance name is  base ++ '#' ++ inst  with no '#' in base (dots, dashes, underscores
    allowed), no '#' and no '-' in inst, and the unique id contains no '-'.
    Then app_name gives the instance name back and app_unique_id the id as padded to 13. *)
Theorem C15_unique_name_roundtrip : forall base inst uid,
  name_domain c15_uid_tables base inst uid ->
  app_name c15_uid_tables (fmt_unique_name c15_uid_tables (inst_name c15_uid_tables base inst) uid)
    = inst_name c15_uid_tables base inst
  /\ app_unique_id c15_uid_tables (fmt_unique_name c15_uid_tables (inst_name c15_uid_tables base inst) uid)
    = Ok (pad_left c15_name_fill c15_name_width uid).
Proof. intros base inst uid H. exact (unique_name_roundtrip c15_uid_tables base inst uid C15_uid_tables_ok H). Qed.
Print Assumptions C15_unique_name_roundtrip.

Theorem C15_unique_name_roundtrip_13 : forall base inst uid,
  name_domain c15_uid_tables base inst uid -> length uid = 13%nat ->
  app_unique_id c15_uid_tables (fmt_unique_name c15_uid_tables (inst_name c15_uid_tables base inst) uid) = Ok uid.
Proof. intros base inst uid H L. exact (unique_name_roundtrip_13 c15_uid_tables base inst uid C15_uid_tables_ok H L). Qed.
Print Assumptions C15_unique_name_roundtrip_13.

(** distinct (instance name, padded id) never share a unique name *)
Theorem C15_unique_name_injective : forall base inst uid base' inst' uid',
  name_domain c15_uid_tables base inst uid -> name_domain c15_uid_tables base' inst' uid' ->
  fmt_unique_name c15_uid_tables (inst_name c15_uid_tables base inst) uid
  = fmt_unique_name c15_uid_tables (inst_name c15_uid_tables base' inst') uid' ->
  inst_name c15_uid_tables base inst = inst_name c15_uid_tables base' inst'
  /\ pad_left c15_name_fill c15_name_width uid = pad_left c15_name_fill c15_name_width uid'.
Proof.
  intros base inst uid base' inst' uid' D1 D2 H.
  exact (unique_name_injective c15_uid_tables base inst uid base' inst' uid' C15_uid_tables_ok D1 D2 H).
Qed.
Print Assumptions C15_unique_name_injective.

(** event file -> unique name: always ends in '-' + exactly 13 id characters, and both decoders invert it *)
Theorem C15_eventfile_unique_name : forall base inst ino ctime_us i,
  ~ In c15_join_sep base -> ~ In c15_join_sep inst -> ~ In c15_split_sep inst ->
  exists uid, gen_uniqueid c15_uid_tables ino ctime_us i = Ok uid /\ length uid = 13%nat
    /\ eventfile_unique_name c15_uid_tables (inst_name c15_uid_tables base inst) ino ctime_us i
       = Ok ((base ++ c15_split_sep :: inst) ++ c15_split_sep :: uid)
    /\ app_name c15_uid_tables ((base ++ c15_split_sep :: inst) ++ c15_split_sep :: uid)
       = inst_name c15_uid_tables base inst
    /\ app_unique_id c15_uid_tables ((base ++ c15_split_sep :: inst) ++ c15_split_sep :: uid) = Ok uid.
Proof.
  intros base inst ino ctime_us i H1 H2 H3.
  exact (eventfile_unique_name_spec c15_uid_tables base inst ino ctime_us i C15_uid_tables_ok H1 H2 H3).
Qed.
Print Assumptions C15_eventfile_unique_name.

(** non-vacuity: "proid.my-app_x#0000000123" with the largest seed; and the hypotheses are needed:
    an alphabet with a duplicate, and an instance part containing '-', do not round-trip *)
Definition ex_base : str := [112; 114; 111; 105; 100; 46; 109; 121; 45; 97; 112; 112; 95; 120].
Definition ex_inst : str := [48; 48; 48; 48; 48; 48; 48; 49; 50; 51].
Example C15_names_nonvacuous :
  (exists uid, uid_of_seed c15_uid_tables (2 ^ 77 - 1) = Ok uid /\ length uid = 13%nat /\
     app_name c15_uid_tables (fmt_unique_name c15_uid_tables (inst_name c15_uid_tables ex_base ex_inst) uid)
       = inst_name c15_uid_tables ex_base ex_inst /\
     app_unique_id c15_uid_tables (fmt_unique_name c15_uid_tables (inst_name c15_uid_tables ex_base ex_inst) uid)
       = Ok uid) /\
  to_base_n c15_default_alphabet 36 1295 = Ok [122; 122] /\
  from_base_n c15_default_alphabet 36 [122; 122] = Ok 1295.
Proof. vm_compute. split; [eexists; repeat split|split; reflexivity]. Qed.

Example C15_names_hypotheses_needed :
  (* alphabet "aab": 1 encodes to "a", which decodes to 0 *)
  (to_base_n [97; 97; 98] 3 1 = Ok [97] /\ from_base_n [97; 97; 98] 3 [97] = Ok 0) /\
  (* instance part "1-2": app_name returns a different name *)
  app_name c15_uid_tables (fmt_unique_name c15_uid_tables (inst_name c15_uid_tables [97] [49; 45; 50]) [48])
    <> inst_name c15_uid_tables [97] [49; 45; 50].
Proof. vm_compute. repeat split; discriminate. Qed.

(** * 2. Trace events: trace/app/events.py, trace/server/events.py, event-node names *)

(** the generated enum tables: distinct member names, distinct classes, exactly the 10 + 3 classes of the
    model with exactly the slots the model carries, no ',' in a member name *)
Theorem C15_event_tables_ok : event_tables_ok c15_event_tables = true.
Proof. vm_compute. reflexivity. Qed.
Print Assumptions C15_event_tables_ok.

(** the generated node-name templates, separator and unpacking order are the expected ones *)
Theorem C15_node_tables_ok : node_tables_ok c15_node_tables = true.
Proof. vm_compute. reflexivity. Qed.
Print Assumptions C15_node_tables_ok.

(** PARTIAL (see the refuted witness below): for every header, every event class and every body in
    [body_domain] -- `where` is a string without ':', `why` of a scheduled event is None or any string,
    the other string fields are strings (not None), `uniqueid` of the service events has no '.',
    rc/signal any integers, is_oom any bool -- from_data (to_data e) = e *)
Theorem C15_event_roundtrip_partial : forall (H : Type) (h : H) b,
  body_domain b = true ->
  exists ty, to_data c15_event_tables (h, b) = Some (h, ty, data_of b)
             /\ from_data c15_event_tables (is_server (cls_of b)) h ty (data_of b) = Some (h, b)
             /\ ~ In comma ty.
Proof. intros H h b Hd. exact (event_roundtrip c15_event_tables h b C15_event_tables_ok Hd). Qed.
Print Assumptions C15_event_roundtrip_partial.

(** distinct events of one family (app / server) never share (type, data, header) on the domain *)
Theorem C15_event_injective_partial : forall (H : Type) (h1 h2 : H) b1 b2,
  body_domain b1 = true -> body_domain b2 = true ->
  is_server (cls_of b1) = is_server (cls_of b2) ->
  to_data c15_event_tables (h1, b1) = to_data c15_event_tables (h2, b2) -> (h1, b1) = (h2, b2).
Proof.
  intros H h1 h2 b1 b2 D1 D2 Hs Heq.
  exact (event_injective c15_event_tables h1 h2 b1 b2 C15_event_tables_ok D1 D2 Hs Heq).
Qed.
Print Assumptions C15_event_injective_partial.

(** event -> node name 'id,when,host,type,data' -> split(',') -> event, when no field contains ',' *)
Theorem C15_event_node_roundtrip : forall id when host b,
  body_domain b = true -> data_no_comma b = true ->
  ~ In comma id -> ~ In comma when -> ~ In comma host ->
  exists ty name, to_data c15_event_tables (tt, b) = Some (tt, ty, data_of b)
    /\ node_name c15_node_tables id when host ty (data_of b) = Some name
    /\ node_fields c15_node_tables name = Some [id; when; host; ty; data_of b]
    /\ from_data c15_event_tables (is_server (cls_of b)) tt ty (data_of b) = Some (tt, b).
Proof.
  intros id when host b Hd Hc H1 H2 H3.
  exact (event_node_roundtrip c15_event_tables c15_node_tables id when host b
           C15_event_tables_ok C15_node_tables_ok Hd Hc H1 H2 H3).
Qed.
Print Assumptions C15_event_node_roundtrip.

Theorem C15_node_injective : forall id when host ty d id' when' host' ty' d',
  Forall (fun s => ~ In comma s) [id; when; host; ty; d] ->
  Forall (fun s => ~ In comma s) [id'; when'; host'; ty'; d'] ->
  node_name c15_node_tables id when host ty d = node_name c15_node_tables id' when' host' ty' d' ->
  [id; when; host; ty; d] = [id'; when'; host'; ty'; d'].
Proof.
  intros id when host ty d id' when' host' ty' d' A1 A2 Heq.
  exact (node_injective c15_node_tables id when host ty d id' when' host' ty' d' C15_node_tables_ok A1 A2 Heq).
Qed.
Print Assumptions C15_node_injective.

(** Scheduled events (repaired in /repo 8295b12: why=None is written without the ':' separator):
    for every `where` without ':' and every why -- None or any string, ':' included -- the event reads back.
    Before the repair ScheduledTraceEvent(where, why=None), which scheduler/master.py posts, was written as
    'where:None' and read back as why='None'; that input stays in corpus/c15.json. *)
Definition ex_srv : str := [115; 114; 118].
Theorem C15_event_scheduled_roundtrip : forall (H : Type) (h : H) w y,
  negb (memb colon w) = true ->
  exists ty, to_data c15_event_tables (h, Scheduled (Some w) y) = Some (h, ty, data_of (Scheduled (Some w) y))
             /\ from_data c15_event_tables false h ty (data_of (Scheduled (Some w) y))
                = Some (h, Scheduled (Some w) y).
Proof.
  intros H h w y Hw.
  exact (match event_roundtrip c15_event_tables h (Scheduled (Some w) y) C15_event_tables_ok Hw with
         | ex_intro _ ty (conj E (conj F _)) => ex_intro _ ty (conj E F)
         end).
Qed.
Print Assumptions C15_event_scheduled_roundtrip.

(** REFUTED: why=None of pending / pending_delete / aborted events encodes to '' and decodes to why='' *)
Theorem C15_event_why_none_refuted :
  forall mk, In mk [Pending; PendingDelete; Aborted] ->
  exists ty, to_data c15_event_tables (tt, mk None) = Some (tt, ty, [])
    /\ from_data c15_event_tables false tt ty [] = Some (tt, mk (Some []))
    /\ to_data c15_event_tables (tt, mk (Some [])) = Some (tt, ty, [])
    /\ mk None <> mk (Some []).
Proof.
  intros mk [<-|[<-|[<-|[]]]]; eexists; vm_compute; repeat split; try reflexivity; discriminate.
Qed.
Print Assumptions C15_event_why_none_refuted.

(** non-vacuity: one body of every class in the domain, including a service name with dots, negative rc,
    and a why containing ':' ; and the ',' hypothesis of node names is needed *)
Example C15_event_nonvacuous :
  forallb body_domain
    [Scheduled (Some ex_srv) (Some [97; 58; 98]); Scheduled (Some ex_srv) None; Pending (Some [120]); PendingDelete (Some []);
     Configured (Some [117]); Deleted; Finished (-1) 9; Aborted (Some [121]); Killed true; Killed false;
     ServiceRunning (Some [117]) (Some [97; 46; 98]); ServiceExited (Some [117]) (Some [97; 46; 46; 98]) (-255) 0;
     ServerState (Some [117; 112]); ServerBlackout; ServerBlackoutCleared] = true
  /\ from_data c15_event_tables false tt [115; 101; 114; 118; 105; 99; 101; 95; 101; 120; 105; 116; 101; 100] [117; 46; 97; 46; 46; 98; 46; 45; 50; 53; 53; 46; 48]
     = Some (tt, ServiceExited (Some [117]) (Some [97; 46; 46; 98]) (-255) 0)
  /\ node_fields c15_node_tables [97; 44; 98; 44; 99; 44; 100; 44; 101; 44; 102] = None.
Proof. vm_compute. repeat split. Qed.

(** * 3. Firewall rules as rule-file names: rulefile.py RuleMgr._filenameify / get_rule *)

(** the three generated filename patterns are the expected ones and each generated regex text is exactly
    '^' + pattern.format(<group regex of the field's class>) + '$';  _ANY = '*', ANY_PORT = 0 *)
Theorem C15_rule_tables_ok : rule_tables_ok c15_rule_tables = true.
Proof. vm_compute. reflexivity. Qed.
Print Assumptions C15_rule_tables_ok.

(** for every chain \w{2,32} and every rule in [rule_domain] (proto tcp|udp; src/dst address the ANY_IP
    object or a dotted quad of 1-3 digit octets; ports 0..99999 with 0 = wildcard; new address a dotted
    quad; DNAT, SNAT and PassThrough): the file name is produced and reads back as the same chain and rule *)
Theorem C15_rule_roundtrip : forall chain r,
  valid KChain chain = true -> rule_domain r = true ->
  exists name, filenameify c15_rule_tables chain r = Some name
               /\ get_rule c15_rule_tables name = Some (chain, r).
Proof. intros chain r Hc Hd. exact (rule_roundtrip c15_rule_tables chain r C15_rule_tables_ok Hc Hd). Qed.
Print Assumptions C15_rule_roundtrip.

(** distinct (chain, rule) never share a file name *)
Theorem C15_rule_injective : forall chain r chain' r' name,
  valid KChain chain = true -> rule_domain r = true ->
  valid KChain chain' = true -> rule_domain r' = true ->
  filenameify c15_rule_tables chain r = Some name -> filenameify c15_rule_tables chain' r' = Some name ->
  (chain, r) = (chain', r').
Proof.
  intros chain r chain' r' name H1 H2 H3 H4 H5 H6.
  exact (rule_injective c15_rule_tables chain r chain' r' name C15_rule_tables_ok H1 H2 H3 H4 H5 H6).
Qed.
Print Assumptions C15_rule_injective.

(** non-vacuity: wildcard and concrete DNAT / SNAT / PassThrough rules in the domain with their file names;
    the domain is needed (proto icmp does not read back); the decoder also accepts one trailing newline *)
Definition ex_chain : str := [80; 82; 69; 82; 79; 85; 84; 73; 78; 71; 95; 68; 78; 65; 84].
Definition ex_ip1 : str := [49; 48; 46; 48; 46; 48; 46; 49].
Definition ex_ip2 : str := [49; 57; 50; 46; 49; 54; 56; 46; 49; 46; 50; 48].
Example C15_rule_nonvacuous :
  valid KChain ex_chain = true
  /\ forallb rule_domain [DNAT s_tcp None 0 (Some ex_ip1) 8080 ex_ip2 80; SNAT s_udp (Some ex_ip2) 99999 None 0 ex_ip1 0;
                         PassThrough ex_ip1 ex_ip2] = true
  /\ filenameify c15_rule_tables ex_chain (DNAT s_tcp None 0 (Some ex_ip1) 8080 ex_ip2 80)
     = Some [80; 82; 69; 82; 79; 85; 84; 73; 78; 71; 95; 68; 78; 65; 84; 58; 100; 110; 97; 116; 58; 116; 99; 112; 58; 42; 58; 42; 58; 49; 48; 46; 48; 46; 48; 46; 49; 58; 56; 48; 56; 48; 45; 49; 57; 50; 46; 49; 54; 56; 46; 49; 46; 50; 48; 58; 56; 48]
  /\ get_rule c15_rule_tables [80; 82; 69; 82; 79; 85; 84; 73; 78; 71; 95; 68; 78; 65; 84; 58; 115; 110; 97; 116; 58; 117; 100; 112; 58; 49; 57; 50; 46; 49; 54; 56; 46; 49; 46; 50; 48; 58; 57; 57; 57; 57; 57; 58; 42; 58; 42; 45; 49; 48; 46; 48; 46; 48; 46; 49; 58; 48]
     = Some (ex_chain, SNAT s_udp (Some ex_ip2) 99999 None 0 ex_ip1 0)
  /\ (match filenameify c15_rule_tables ex_chain (DNAT [105; 99; 109; 112] None 0 None 0 ex_ip2 80) with
      | Some name => match get_rule c15_rule_tables name with None => true | Some _ => false end
      | None => false
      end) = true
  /\ get_rule c15_rule_tables [80; 82; 69; 82; 79; 85; 84; 73; 78; 71; 95; 68; 78; 65; 84; 58; 112; 97; 115; 115; 116; 104; 114; 111; 117; 103; 104; 58; 49; 48; 46; 48; 46; 48; 46; 49; 45; 49; 57; 50; 46; 49; 54; 56; 46; 49; 46; 50; 48; 10] = Some (ex_chain, PassThrough ex_ip1 ex_ip2).
Proof. vm_compute. repeat split. Qed.

(** * 4. Resource objects as ZooKeeper payloads: zkutils._payload / get_with_metadata *)

(** for every object of the JSON universe (null, bool, int, str, list, dict with str keys; characters below
    the surrogate range; distinct keys in every dict): the payload is json.dumps(sort_keys=True), it is not the
    empty payload, and it is read back as [canon v] -- v with every dict in key order, which is the same
    Python value ([veq]: dict entries in any order) *)
Theorem C15_zk_roundtrip : forall v, wf_value v = true ->
  exists p, zk_payload (ZObj v) = Some p /\ p <> [] /\ zk_decode p = DVal (canon v) /\ veq v (canon v).
Proof. intros v H. exact (zk_roundtrip v H). Qed.
Print Assumptions C15_zk_roundtrip.

(** None <-> the empty payload (read back through the YAML fallback, modelled only for the empty payload) *)
Theorem C15_zk_none : zk_payload ZNone = Some [] /\ zk_decode [] = DVal VNull.
Proof. exact zk_none. Qed.
Print Assumptions C15_zk_none.

(** objects that share a payload are the same value (up to dict order) *)
Theorem C15_zk_injective : forall v1 v2, wf_value v1 = true -> wf_value v2 = true ->
  zk_payload (ZObj v1) = zk_payload (ZObj v2) -> canon v1 = canon v2.
Proof. intros v1 v2 H1 H2 H. exact (zk_injective v1 v2 H1 H2 H). Qed.
Print Assumptions C15_zk_injective.

(** the JSON layer alone: json.loads (json.dumps v) *)
Theorem C15_json_roundtrip : forall v, wf_value v = true -> json_loads (json_dumps v) = POk (canon v) [].
Proof. intros v H. exact (json_roundtrip v H). Qed.
Print Assumptions C15_json_roundtrip.

(** non-vacuity: the dict  b -> [1, -2, true, null, a string with newline, quote and e-acute], a -> {}  whose keys
    get sorted; and a str payload is outside the statement:
    the str '123' is stored as the bytes 123 and read back as the int 123 *)
Definition ex_obj : value :=
  VDict [([98], VList [VInt 1; VInt (-2); VBool true; VNull; VStr [120; 10; 34; 233]]); ([97], VDict [])].
Example C15_zk_nonvacuous :
  wf_value ex_obj = true
  /\ zk_payload (ZObj ex_obj) = Some [123; 34; 97; 34; 58; 32; 123; 125; 44; 32; 34; 98; 34; 58; 32; 91; 49; 44; 32; 45; 50; 44; 32; 116; 114; 117; 101; 44; 32; 110; 117; 108; 108; 44; 32; 34; 120; 92; 110; 92; 34; 92; 117; 48; 48; 101; 57; 34; 93; 125]
  /\ zk_decode [123; 34; 97; 34; 58; 32; 123; 125; 44; 32; 34; 98; 34; 58; 32; 91; 49; 44; 32; 45; 50; 44; 32; 116; 114; 117; 101; 44; 32; 110; 117; 108; 108; 44; 32; 34; 120; 92; 110; 92; 34; 92; 117; 48; 48; 101; 57; 34; 93; 125] = DVal (canon ex_obj)
  /\ canon ex_obj <> ex_obj
  /\ (zk_payload (ZStr [49; 50; 51]) = Some [49; 50; 51] /\ zk_decode [49; 50; 51] = DVal (VInt 123)).
Proof. vm_compute. repeat split; discriminate. Qed.

(** * 5. Admin objects as LDAP entries: admin/_ldap.py _dict_2_entry / _remove_empty / _entry_2_dict, _diff_entries *)

Definition c15_ldap_names : list str := map fst c15_ldap_schemas.

(** all 15 generated schema tables (Application, CellAllocation, Partition: _schema, the sub-schemas and the
    combined schema()) have known type codes, distinct attribute names and distinct object fields among the
    rows that carry an object field, lower-case attribute names without ';' *)
Theorem C15_ldap_schemas_ok :
  forallb (fun n => match alookup c15_ldap_schemas n with
                    | Some rows => match conv_schema rows with Some _ => true | None => false end
                    | None => false
                    end && wf_schema (c15_ldap_schema n)) c15_ldap_names = true
  /\ length c15_ldap_names = 15%nat.
Proof. vm_compute. split; reflexivity. Qed.
Print Assumptions C15_ldap_schemas_ok.

Theorem C15_ldap_schemas_wf : forallb (fun n => wf_schema (c15_ldap_schema n)) c15_ldap_names = true.
Proof. vm_compute. reflexivity. Qed.
Print Assumptions C15_ldap_schemas_wf.

(** for every generated schema and every object whose fields have the type of their row (None allowed,
    int allowed in a str field, fields outside the schema allowed): to_entry, _remove_empty (what create()
    stores) and from_entry succeed, and every field of the schema reads back as [expected_field]:
    the value written -- except that a None value and an absent scalar field read as absent, an absent or
    empty list reads as [], an int in a str field reads as its decimal text, a dict comes back with its
    top-level keys sorted -- and nothing outside the schema is read back *)
Theorem C15_ldap_roundtrip : forall n, In n c15_ldap_names ->
  forall o, obj_typed (c15_ldap_schema n) o = true ->
  exists o', ldap_store_load (c15_ldap_schema n) o = Some (Ok o') /\
    (forall a f t, In (a, (f, t)) (active (c15_ldap_schema n)) ->
       alookup o' f = expected_field t (alookup o f)) /\
    (forall f, ~ In f (fields (c15_ldap_schema n)) -> alookup o' f = None).
Proof. intros n Hin o Ht. exact (ldap_roundtrip_table c15_ldap_schema c15_ldap_names C15_ldap_schemas_wf n Hin o Ht). Qed.
Print Assumptions C15_ldap_roundtrip.

(** the same for any schema table that is well-formed *)
Theorem C15_ldap_roundtrip_any_schema : forall sch o, wf_schema sch = true -> obj_typed sch o = true ->
  exists o', ldap_store_load sch o = Some (Ok o') /\
    (forall a f t, In (a, (f, t)) (active sch) -> alookup o' f = expected_field t (alookup o f)) /\
    (forall f, ~ In f (fields sch) -> alookup o' f = None).
Proof. intros sch o H1 H2. exact (ldap_roundtrip sch o H1 H2). Qed.
Print Assumptions C15_ldap_roundtrip_any_schema.

(** _diff_entries old new applied to old (LDAP modify: ADD / REPLACE / DELETE) yields new: every attribute
    ends up with the value set it has in new (absent = no values), for entries with distinct lower-case
    attribute names *)
Theorem C15_ldap_diff_yields_new : forall old new, entry_ok old = true -> entry_ok new = true ->
  forall a, same_values (eget (apply_mods old (diff_entries old new)) a) (eget new a).
Proof. intros old new H1 H2 a. exact (diff_applied_yields_new old new H1 H2 a). Qed.
Print Assumptions C15_ldap_diff_yields_new.

(** non-vacuity: a partition with a list, a None field, an int, a dict whose keys get sorted; and a diff that
    adds, replaces, deletes and leaves a reordered attribute alone *)
Definition ex_partition : obj :=
  [([95; 105; 100], FStr [112; 49]); ([115; 121; 115; 116; 101; 109; 115], FInts [1; 22]); ([99; 112; 117], FNone); ([100; 111; 119; 110; 45; 116; 104; 114; 101; 115; 104; 111; 108; 100], FInt 5);
   ([100; 97; 116; 97], FDict [([98], VInt 1); ([97], VList [VBool true; VNull])])].
Example C15_ldap_nonvacuous :
  In [80; 97; 114; 116; 105; 116; 105; 111; 110; 46; 95; 115; 99; 104; 101; 109; 97] c15_ldap_names
  /\ obj_typed (c15_ldap_schema [80; 97; 114; 116; 105; 116; 105; 111; 110; 46; 95; 115; 99; 104; 101; 109; 97]) ex_partition = true
  /\ ldap_store_load (c15_ldap_schema [80; 97; 114; 116; 105; 116; 105; 111; 110; 46; 95; 115; 99; 104; 101; 109; 97]) ex_partition
     = Some (Ok [([95; 105; 100], FStr [112; 49]); ([115; 121; 115; 116; 101; 109; 115], FInts [1; 22]); ([100; 111; 119; 110; 45; 116; 104; 114; 101; 115; 104; 111; 108; 100], FInt 5);
                 ([100; 97; 116; 97], FDict [([97], VList [VBool true; VNull]); ([98], VInt 1)])])
  /\ diff_entries [([116; 114; 97; 105; 116], [EStr [97]; EStr [98]]); ([99; 112; 117], [EStr [49]]); ([100; 105; 115; 107], [EStr [120]])]
                  [([116; 114; 97; 105; 116], [EStr [98]; EStr [97]]); ([99; 112; 117], [EStr [50]]); ([100; 105; 115; 107], []); ([115; 104; 97; 114; 101; 100; 45; 105; 112], [EBool true])]
     = [([99; 112; 117], MReplace [EStr [50]]); ([100; 105; 115; 107], MDelete); ([115; 104; 97; 114; 101; 100; 45; 105; 112], MAdd [EBool true])].
Proof. vm_compute. repeat split. do 12 right. left. reflexivity. Qed.

(** the functions named by this property's anchors still have the statement skeleton the model was written from
    (re-extracted from the Python AST on every run, harness/tables_shape.py + harness/shape_pins.json; kept last so that
    a difference does not stop the theorems above from being checked) *)
Theorem C15_source_shape : shapes_ok_C15 = true.
Proof. vm_compute. reflexivity. Qed.
Print Assumptions C15_source_shape.
