(** C20 quota: lemmas about Api/Quota.v. *)
From Coq Require Import ZArith List Bool Lia ZifyBool Arith.
From TM Require Import Codec.BaseN Codec.BaseNP Api.Quota.
Import ListNotations.
Open Scope Z_scope.

(** * Strings *)
Lemma seqb_refl s : str_eqb s s = true.
Proof. apply str_eqb_eq. reflexivity. Qed.

Lemma seqb_false_neq a b : str_eqb a b = false -> a <> b.
Proof. intros H E. subst b. rewrite seqb_refl in H. discriminate H. Qed.

Lemma seqb_neq_false a b : a <> b -> str_eqb a b = false.
Proof.
  intros H. destruct (str_eqb a b) eqn:E; [|reflexivity].
  apply str_eqb_eq in E. contradiction.
Qed.

(** * The tables *)
Lemma tables_ok_fields T : quota_tables_ok T = true ->
  q_sep T = 46 /\ q_default T = 0 /\ 1 <= q_count_min T /\ q_count_min T <= q_count_max T /\
  q_count_max T <= q_proid T /\ q_proid T <= q_total T /\ q_agg_sep T = 46 /\ q_agg_inc T = 1.
Proof. unfold quota_tables_ok. intros H. repeat (apply andb_true_iff in H; destruct H as [H ?]). lia. Qed.

Lemma canonical_ok T : quota_tables_canonical T = true -> quota_tables_ok T = true.
Proof.
  unfold quota_tables_canonical, quota_tables_ok. intros H.
  repeat (apply andb_true_iff in H; destruct H as [H ?]).
  repeat (apply andb_true_iff; split); lia.
Qed.

(** * (a), (b): the check *)
Lemma check_accept_iff T st r c :
  quota_check T st r c = Accept <->
  total_apps st + c <= q_total T /\ proid_apps T st r + c <= q_proid T.
Proof.
  unfold quota_check.
  destruct (total_apps st + c >? q_total T) eqn:E1.
  - split; [intros H; discriminate H|intros [H1 H2]; lia].
  - destruct (proid_apps T st r + c >? q_proid T) eqn:E2.
    + split; [intros H; discriminate H|intros [H1 H2]; lia].
    + split; [intros _; lia|intros _; reflexivity].
Qed.

Lemma check_total_iff T st r c :
  quota_check T st r c = TotalExceeded <-> total_apps st + c > q_total T.
Proof.
  unfold quota_check.
  destruct (total_apps st + c >? q_total T) eqn:E1.
  - split; [intros _; lia|intros _; reflexivity].
  - destruct (proid_apps T st r + c >? q_proid T) eqn:E2; (split; [intros H; discriminate H|intros H; lia]).
Qed.

Lemma check_proid_iff T st r c :
  quota_check T st r c = ProidExceeded <->
  total_apps st + c <= q_total T /\ proid_apps T st r + c > q_proid T.
Proof.
  unfold quota_check.
  destruct (total_apps st + c >? q_total T) eqn:E1.
  - split; [intros H; discriminate H|intros [H1 H2]; lia].
  - destruct (proid_apps T st r + c >? q_proid T) eqn:E2.
    + split; [intros _; lia|intros _; reflexivity].
    + split; [intros H; discriminate H|intros [H1 H2]; lia].
Qed.

Lemma api_create_spec T st r c :
  (api_create T st r c = None <-> (c < q_count_min T \/ q_count_max T < c)) /\
  (forall o, api_create T st r c = Some o ->
             q_count_min T <= c <= q_count_max T /\ o = quota_check T st r c).
Proof.
  unfold api_create, count_ok.
  destruct ((q_count_min T <=? c) && (c <=? q_count_max T)) eqn:E.
  - apply andb_true_iff in E. destruct E as [E1 E2]. split.
    + split; [intros H; discriminate H|lia].
    + intros o H. inversion H. split; [lia|reflexivity].
  - apply andb_false_iff in E. split.
    + split; [intros _; lia|reflexivity].
    + intros o H. discriminate H.
Qed.

(** * rsrc_id[:rsrc_id.find('.')] *)
Lemma find_idx_before c s n : find_idx c s = Some n -> firstn n s = before c s.
Proof.
  revert n. induction s as [|x t IH]; intros n H; cbn [find_idx] in H; [discriminate H|].
  cbn [before]. destruct (x =? c).
  - inversion H. reflexivity.
  - destruct (find_idx c t) as [m|]; [|discriminate H].
    inversion H. cbn [firstn]. f_equal. apply IH. reflexivity.
Qed.

Lemma find_idx_none c s : find_idx c s = None <-> existsb (fun x => x =? c) s = false.
Proof.
  induction s as [|x t IH]; cbn [find_idx existsb]; [tauto|].
  destruct (x =? c); cbn [orb].
  - split; intros H; discriminate H.
  - destruct (find_idx c t) as [m|].
    + split; [intros H; discriminate H|intros H; apply IH in H; discriminate H].
    + split; [intros _; apply IH; reflexivity|reflexivity].
Qed.

Lemma slice_before c s : existsb (fun x => x =? c) s = true -> py_slice_to s (py_find c s) = before c s.
Proof.
  intros H. unfold py_find. destruct (find_idx c s) as [n|] eqn:E.
  - unfold py_slice_to. destruct (Z.ltb_spec (Z.of_nat n) 0) as [Hn|Hn]; [lia|].
    rewrite Nat2Z.id. apply find_idx_before. exact E.
  - apply find_idx_none in E. rewrite E in H. discriminate H.
Qed.

Lemma slice_nosep c s : existsb (fun x => x =? c) s = false -> py_slice_to s (py_find c s) = removelast s.
Proof.
  intros H. unfold py_find. apply find_idx_none in H. rewrite H.
  unfold py_slice_to. change (-1 <? 0) with true. cbv iota. change (Z.to_nat (- -1)) with 1%nat.
  rewrite removelast_firstn_len. rewrite Nat.sub_1_r. reflexivity.
Qed.

Lemma proid_of_sep T s : has_sep T s = true -> proid_of T s = before (q_sep T) s.
Proof. intros H. apply slice_before. exact H. Qed.

Lemma proid_of_nosep T s : has_sep T s = false -> proid_of T s = removelast s.
Proof. intros H. apply slice_nosep. exact H. Qed.

Lemma before_split c pre post : ~ In c pre -> before c (pre ++ c :: post) = pre.
Proof.
  induction pre as [|x t IH]; intros H; cbn [app before].
  - rewrite Z.eqb_refl. reflexivity.
  - destruct (Z.eqb_spec x c) as [E|E]; [exfalso; apply H; left; exact E|].
    f_equal. apply IH. intros Hin. apply H. right. exact Hin.
Qed.

Lemma before_app c s x : existsb (fun y => y =? c) s = true -> before c (s ++ x) = before c s.
Proof.
  induction s as [|y t IH]; cbn [existsb app before]; intros H; [discriminate H|].
  destruct (y =? c); [reflexivity|]. cbn [orb] in H. f_equal. apply IH. exact H.
Qed.

Lemma existsb_split c pre post : existsb (fun y => y =? c) (pre ++ c :: post) = true.
Proof. rewrite existsb_app. cbn [existsb]. rewrite Z.eqb_refl. cbn [orb]. apply orb_true_r. Qed.

Lemma proid_of_split T pre post :
  ~ In (q_sep T) pre -> proid_of T (pre ++ q_sep T :: post) = pre.
Proof.
  intros H. rewrite proid_of_sep; [apply before_split; exact H|].
  unfold has_sep. apply existsb_split.
Qed.

Lemma proid_of_app T s x : has_sep T s = true -> proid_of T (s ++ x) = proid_of T s.
Proof.
  intros H. rewrite (proid_of_sep T s H). rewrite proid_of_sep.
  - apply before_app. exact H.
  - unfold has_sep in *. rewrite existsb_app, H. reflexivity.
Qed.

Lemma agg_key_proid T s : q_agg_sep T = q_sep T -> agg_key T s = proid_of T s.
Proof. intros H. unfold agg_key, proid_of. rewrite H. reflexivity. Qed.

(** * The stats dict *)
Lemma total_add st p c : stats_total (stats_add st p c) = stats_total st + c.
Proof.
  induction st as [|[k n] t IH]; cbn [stats_add stats_total]; [lia|].
  destruct (str_eqb k p); cbn [stats_total]; [lia|]. rewrite IH. lia.
Qed.

Lemma get_add_same d st p c : d = 0 -> stats_get d (stats_add st p c) p = stats_get d st p + c.
Proof.
  intros Hd. induction st as [|[k n] t IH]; cbn [stats_add stats_get].
  - rewrite seqb_refl. lia.
  - destruct (str_eqb k p) eqn:E; cbn [stats_get]; rewrite E; [reflexivity|exact IH].
Qed.

Lemma get_add_other d st p q c : p <> q -> stats_get d (stats_add st p c) q = stats_get d st q.
Proof.
  intros Hpq. induction st as [|[k n] t IH]; cbn [stats_add stats_get].
  - rewrite (seqb_neq_false p q Hpq). reflexivity.
  - destruct (str_eqb k p) eqn:E; cbn [stats_get].
    + apply str_eqb_eq in E. subst k. rewrite (seqb_neq_false p q Hpq). reflexivity.
    + destruct (str_eqb k q); [reflexivity|exact IH].
Qed.

Lemma get_default_or_in d st p : stats_get d st p = d \/ exists kv, In kv st /\ fst kv = p.
Proof.
  induction st as [|[k n] t IH]; cbn [stats_get]; [left; reflexivity|].
  destruct (str_eqb k p) eqn:E.
  - right. exists (k, n). split; [left; reflexivity|apply str_eqb_eq; exact E].
  - destruct IH as [IH|[kv [Hin Hk]]]; [left; exact IH|].
    right. exists kv. split; [right; exact Hin|exact Hk].
Qed.

Lemma withinb_within T st : withinb T st = true -> within T st.
Proof.
  unfold withinb, within. intros H.
  apply andb_true_iff in H. destruct H as [H H3]. apply andb_true_iff in H. destruct H as [H1 H2].
  split; [lia|]. intros p.
  destruct (get_default_or_in (q_default T) st p) as [E|[kv [Hin Hk]]].
  - rewrite E. lia.
  - rewrite forallb_forall in H3. specialize (H3 kv Hin). rewrite Hk in H3. lia.
Qed.

(** * (c): requests one after the other *)
Lemma run_cons T st r t :
  run T st (r :: t) =
  (fst (run T (apply_outcome T st r (quota_check T st (fst r) (snd r))) t),
   quota_check T st (fst r) (snd r)
   :: snd (run T (apply_outcome T st r (quota_check T st (fst r) (snd r))) t)).
Proof. cbn [run]. destruct (run T _ t). reflexivity. Qed.

Lemma step_within T st r : q_default T = 0 -> within T st ->
  within T (apply_outcome T st r (quota_check T st (fst r) (snd r))).
Proof.
  intros Hd [Ht Hp].
  destruct (quota_check T st (fst r) (snd r)) eqn:E; cbn [apply_outcome]; try (split; assumption).
  apply check_accept_iff in E. destruct E as [E1 E2]. unfold total_apps in E1. unfold proid_apps in E2.
  split.
  - rewrite total_add. lia.
  - intros p. destruct (str_eqb (proid_of T (fst r)) p) eqn:Ep.
    + apply str_eqb_eq in Ep. subst p. rewrite (get_add_same _ _ _ _ Hd). lia.
    + rewrite (get_add_other _ _ _ _ _ (seqb_false_neq _ _ Ep)). apply Hp.
Qed.

Lemma run_within T reqs : q_default T = 0 -> forall st, within T st -> within T (fst (run T st reqs)).
Proof.
  intros Hd. induction reqs as [|r t IH]; intros st H; [exact H|].
  rewrite run_cons. cbn [fst]. apply IH. apply step_within; assumption.
Qed.

Lemma run_length T reqs : forall st, length (snd (run T st reqs)) = length reqs.
Proof.
  induction reqs as [|r t IH]; intros st; [reflexivity|].
  rewrite run_cons. cbn [snd length]. rewrite IH. reflexivity.
Qed.

Lemma run_total T reqs : forall st,
  stats_total (fst (run T st reqs)) = stats_total st + accepted_sum reqs (snd (run T st reqs)).
Proof.
  induction reqs as [|r t IH]; intros st; [cbn; lia|].
  rewrite run_cons. cbn [fst snd accepted_sum]. rewrite IH.
  destruct (quota_check T st (fst r) (snd r)); cbn [apply_outcome]; rewrite ?total_add; lia.
Qed.

Lemma run_get T p reqs : q_default T = 0 -> forall st,
  stats_get (q_default T) (fst (run T st reqs)) p
  = stats_get (q_default T) st p + accepted_sum_for T p reqs (snd (run T st reqs)).
Proof.
  intros Hd. induction reqs as [|r t IH]; intros st; [cbn; lia|].
  rewrite run_cons. cbn [fst snd accepted_sum_for]. rewrite IH.
  destruct (quota_check T st (fst r) (snd r)); cbn [apply_outcome]; try lia.
  destruct (str_eqb (proid_of T (fst r)) p) eqn:Ep.
  - apply str_eqb_eq in Ep. subst p. rewrite (get_add_same _ _ _ _ Hd). lia.
  - rewrite (get_add_other _ _ _ _ _ (seqb_false_neq _ _ Ep)). lia.
Qed.

(** every outcome is the check against the stats made of the initial ones and the creates accepted before it *)
Lemma run_app T a b st :
  run T st (a ++ b) =
  (fst (run T (fst (run T st a)) b), snd (run T st a) ++ snd (run T (fst (run T st a)) b)).
Proof.
  revert st. induction a as [|r t IH]; intros st.
  - cbn [app run fst snd]. destruct (run T st b). reflexivity.
  - cbn [app]. rewrite !run_cons. cbn [fst snd]. rewrite IH. reflexivity.
Qed.

Lemma run_nth T a r b st :
  nth_error (snd (run T st (a ++ r :: b))) (length a)
  = Some (quota_check T (fst (run T st a)) (fst r) (snd r)).
Proof.
  rewrite run_app. cbn [snd]. rewrite nth_error_app2; rewrite run_length; [|apply Nat.le_refl].
  rewrite Nat.sub_diag. rewrite run_cons. reflexivity.
Qed.

(** with counts >= 1 the accepted sum dominates the number of accepted requests *)
Lemma accepted_n_nonneg os : 0 <= accepted_n os.
Proof. induction os as [|o t IH]; cbn [accepted_n]; [lia|]. destruct o; lia. Qed.

Lemma accepted_n_le_sum reqs : forall os m, 1 <= m -> length os = length reqs ->
  forallb (fun r => m <=? snd r) reqs = true -> accepted_n os <= accepted_sum reqs os.
Proof.
  induction reqs as [|r t IH]; intros os m Hm Hl H; destruct os as [|o os]; try discriminate Hl.
  - cbn. lia.
  - cbn [forallb] in H. apply andb_true_iff in H. destruct H as [H1 H2].
    cbn [accepted_n accepted_sum]. cbn [length] in Hl.
    specialize (IH os m Hm (eq_add_S _ _ Hl) H2). destruct o; lia.
Qed.

Lemma counts_ok_min T reqs : counts_ok T reqs = true -> forallb (fun r => q_count_min T <=? snd r) reqs = true.
Proof.
  unfold counts_ok, count_ok. intros H. rewrite forallb_forall in *. intros r Hin.
  specialize (H r Hin). apply andb_true_iff in H. destruct H as [H _]. exact H.
Qed.

Lemma run_accepted_bounded T st reqs : quota_tables_ok T = true -> counts_ok T reqs = true -> within T st ->
  accepted_n (snd (run T st reqs)) <= q_total T - stats_total st.
Proof.
  intros Hok Hc Hw. destruct (tables_ok_fields T Hok) as (_ & Hd & Hmin & _).
  pose proof (run_within T reqs Hd st Hw) as [Ht _].
  rewrite run_total in Ht.
  pose proof (accepted_n_le_sum reqs (snd (run T st reqs)) (q_count_min T) Hmin (run_length T reqs st)
                (counts_ok_min T reqs Hc)).
  lia.
Qed.

(** * (d): requests all checked against the same stats *)
Lemma stale_cons T seen st r t :
  run_stale T seen st (r :: t) =
  (fst (run_stale T seen (apply_outcome T st r (quota_check T seen (fst r) (snd r))) t),
   quota_check T seen (fst r) (snd r)
   :: snd (run_stale T seen (apply_outcome T st r (quota_check T seen (fst r) (snd r))) t)).
Proof. cbn [run_stale]. destruct (run_stale T seen _ t). reflexivity. Qed.

Lemma stale_outcomes T seen reqs : forall st,
  snd (run_stale T seen st reqs) = map (fun r => quota_check T seen (fst r) (snd r)) reqs.
Proof.
  induction reqs as [|r t IH]; intros st; [reflexivity|].
  rewrite stale_cons. cbn [snd map]. rewrite IH. reflexivity.
Qed.

Lemma stale_total T seen reqs : forall st,
  stats_total (fst (run_stale T seen st reqs))
  = stats_total st + accepted_sum reqs (snd (run_stale T seen st reqs)).
Proof.
  induction reqs as [|r t IH]; intros st; [cbn; lia|].
  rewrite stale_cons. cbn [fst snd accepted_sum]. rewrite IH.
  destruct (quota_check T seen (fst r) (snd r)); cbn [apply_outcome]; rewrite ?total_add; lia.
Qed.

Lemma stale_get T seen p reqs : q_default T = 0 -> forall st,
  stats_get (q_default T) (fst (run_stale T seen st reqs)) p
  = stats_get (q_default T) st p + accepted_sum_for T p reqs (snd (run_stale T seen st reqs)).
Proof.
  intros Hd. induction reqs as [|r t IH]; intros st; [cbn; lia|].
  rewrite stale_cons. cbn [fst snd accepted_sum_for]. rewrite IH.
  destruct (quota_check T seen (fst r) (snd r)); cbn [apply_outcome]; try lia.
  destruct (str_eqb (proid_of T (fst r)) p) eqn:Ep.
  - apply str_eqb_eq in Ep. subst p. rewrite (get_add_same _ _ _ _ Hd). lia.
  - rewrite (get_add_other _ _ _ _ _ (seqb_false_neq _ _ Ep)). lia.
Qed.

Definition checks (T : qtables) (seen : stats) (reqs : list request) : list outcome :=
  map (fun r => quota_check T seen (fst r) (snd r)) reqs.

(** every accepted count is at most M *)
Lemma stale_sum_le_n T seen reqs M : 0 <= M -> forallb (fun r => snd r <=? M) reqs = true ->
  accepted_sum reqs (checks T seen reqs) <= accepted_n (checks T seen reqs) * M.
Proof.
  intros HM. induction reqs as [|r t IH]; intros H; [cbn; lia|].
  cbn [forallb] in H. apply andb_true_iff in H. destruct H as [H1 H2]. specialize (IH H2).
  unfold checks in *. cbn [map accepted_sum accepted_n].
  destruct (quota_check T seen (fst r) (snd r)); lia.
Qed.

Lemma stale_sum_for_le_n T seen p reqs M : 0 <= M -> forallb (fun r => snd r <=? M) reqs = true ->
  accepted_sum_for T p reqs (checks T seen reqs) <= accepted_n (checks T seen reqs) * M.
Proof.
  intros HM. induction reqs as [|r t IH]; intros H; [cbn; lia|].
  cbn [forallb] in H. apply andb_true_iff in H. destruct H as [H1 H2]. specialize (IH H2).
  unfold checks in *. cbn [map accepted_sum_for accepted_n].
  destruct (quota_check T seen (fst r) (snd r)); try lia.
  destruct (str_eqb (proid_of T (fst r)) p); lia.
Qed.

(** the first accepted request fits into the quota, every further one adds at most M *)
Lemma stale_sum_bound T seen reqs M : 0 <= M -> forallb (fun r => snd r <=? M) reqs = true ->
  1 <= accepted_n (checks T seen reqs) ->
  accepted_sum reqs (checks T seen reqs)
  <= (q_total T - stats_total seen) + (accepted_n (checks T seen reqs) - 1) * M.
Proof.
  intros HM. induction reqs as [|r t IH]; intros H Hn; [cbn in Hn; lia|].
  cbn [forallb] in H. apply andb_true_iff in H. destruct H as [H1 H2].
  pose proof (stale_sum_le_n T seen t M HM H2) as Hle.
  unfold checks in *. cbn [map accepted_sum accepted_n] in *.
  destruct (quota_check T seen (fst r) (snd r)) eqn:E.
  - apply check_accept_iff in E. destruct E as [E1 _]. unfold total_apps in E1. lia.
  - specialize (IH H2). lia.
  - specialize (IH H2). lia.
Qed.

Lemma stale_sum_for_bound T seen p reqs M : 0 <= M -> q_default T = 0 ->
  stats_get (q_default T) seen p <= q_proid T ->
  forallb (fun r => snd r <=? M) reqs = true ->
  1 <= accepted_n (checks T seen reqs) ->
  accepted_sum_for T p reqs (checks T seen reqs)
  <= (q_proid T - stats_get (q_default T) seen p) + (accepted_n (checks T seen reqs) - 1) * M.
Proof.
  intros HM Hd Hp. induction reqs as [|r t IH]; intros H Hn; [cbn in Hn; lia|].
  cbn [forallb] in H. apply andb_true_iff in H. destruct H as [H1 H2].
  pose proof (stale_sum_for_le_n T seen p t M HM H2) as Hle.
  pose proof (accepted_n_nonneg (checks T seen t)) as Hnn.
  unfold checks in *. cbn [map accepted_sum_for accepted_n] in *.
  destruct (quota_check T seen (fst r) (snd r)) eqn:E.
  - apply check_accept_iff in E. destruct E as [_ E2]. unfold proid_apps in E2.
    destruct (str_eqb (proid_of T (fst r)) p) eqn:Ep.
    + apply str_eqb_eq in Ep. subst p. lia.
    + destruct (Z.eq_dec (accepted_n (map (fun r0 => quota_check T seen (fst r0) (snd r0)) t)) 0) as [Z0|Z0].
      * rewrite Z0 in *. lia.
      * specialize (IH H2). lia.
  - specialize (IH H2). lia.
  - specialize (IH H2). lia.
Qed.

Lemma counts_ok_max T reqs : counts_ok T reqs = true -> forallb (fun r => snd r <=? q_count_max T) reqs = true.
Proof.
  unfold counts_ok, count_ok. intros H. rewrite forallb_forall in *. intros r Hin.
  specialize (H r Hin). apply andb_true_iff in H. destruct H as [_ H]. exact H.
Qed.

Lemma stale_partial T st reqs : quota_tables_ok T = true -> counts_ok T reqs = true -> within T st ->
  let n := accepted_n (snd (run_stale T st st reqs)) in
  stats_total (fst (run_stale T st st reqs)) <= q_total T + Z.max 0 (n - 1) * q_count_max T /\
  forall p, stats_get (q_default T) (fst (run_stale T st st reqs)) p
            <= q_proid T + Z.max 0 (n - 1) * q_count_max T.
Proof.
  intros Hok Hc [Ht Hp]. destruct (tables_ok_fields T Hok) as (_ & Hd & Hmin & Hmm & _).
  assert (HM : 0 <= q_count_max T) by lia.
  pose proof (counts_ok_max T reqs Hc) as Hmax.
  cbv zeta. rewrite stale_total. split.
  - rewrite stale_outcomes. fold (checks T st reqs).
    pose proof (accepted_n_nonneg (checks T st reqs)) as Hnn.
    destruct (Z.eq_dec (accepted_n (checks T st reqs)) 0) as [Z0|Z0].
    + pose proof (stale_sum_le_n T st reqs _ HM Hmax) as H. rewrite Z0 in *.
      rewrite Z.max_l by lia. lia.
    + pose proof (stale_sum_bound T st reqs _ HM Hmax) as H. rewrite Z.max_r by lia. lia.
  - intros p. rewrite (stale_get T st p reqs Hd). rewrite stale_outcomes. fold (checks T st reqs).
    pose proof (accepted_n_nonneg (checks T st reqs)) as Hnn.
    destruct (Z.eq_dec (accepted_n (checks T st reqs)) 0) as [Z0|Z0].
    + pose proof (stale_sum_for_le_n T st p reqs _ HM Hmax) as H. rewrite Z0 in *. specialize (Hp p).
      rewrite Z.max_l by lia. lia.
    + pose proof (stale_sum_for_bound T st p reqs _ HM Hd (Hp p) Hmax) as H. rewrite Z.max_r by lia. lia.
Qed.

(** * The writer of the stats and the loop on instance names *)
Lemma agg_fold_total T names : forall a,
  stats_total (fold_left (fun a n => stats_add a (agg_key T n) (q_agg_inc T)) names a)
  = stats_total a + q_agg_inc T * Z.of_nat (length names).
Proof.
  induction names as [|n t IH]; intros a; cbn [fold_left length]; [lia|].
  rewrite IH, total_add. lia.
Qed.

Lemma count_proid_cons T p n t :
  count_proid T p (n :: t) = (if str_eqb (agg_key T n) p then 1 else 0) + count_proid T p t.
Proof. unfold count_proid. cbn [filter]. destruct (str_eqb (agg_key T n) p); cbn [length]; lia. Qed.

Lemma count_proid_nil T p : count_proid T p [] = 0.
Proof. reflexivity. Qed.

Lemma agg_fold_get T p names : forall a,
  stats_get 0 (fold_left (fun a n => stats_add a (agg_key T n) (q_agg_inc T)) names a) p
  = stats_get 0 a p + q_agg_inc T * count_proid T p names.
Proof.
  induction names as [|n t IH]; intros a; cbn [fold_left].
  - rewrite count_proid_nil. lia.
  - rewrite IH, count_proid_cons. destruct (str_eqb (agg_key T n) p) eqn:E.
    + apply str_eqb_eq in E. subst p. rewrite (get_add_same 0 _ _ _ eq_refl). lia.
    + rewrite (get_add_other _ _ _ _ _ (seqb_false_neq _ _ E)). lia.
Qed.

Lemma aggregate_total T names : q_agg_inc T = 1 -> stats_total (aggregate T names) = Z.of_nat (length names).
Proof. intros H. unfold aggregate. rewrite agg_fold_total, H. cbn [stats_total]. lia. Qed.

Lemma aggregate_get T p names : q_agg_inc T = 1 -> stats_get 0 (aggregate T names) p = count_proid T p names.
Proof. intros H. unfold aggregate. rewrite agg_fold_get, H. cbn [stats_get]. lia. Qed.

Lemma count_proid_app T p a b : count_proid T p (a ++ b) = count_proid T p a + count_proid T p b.
Proof. unfold count_proid. rewrite filter_app, app_length. lia. Qed.

Lemma count_proid_nonneg T p a : 0 <= count_proid T p a.
Proof. unfold count_proid. lia. Qed.

Lemma agg_key_inst T r s : q_agg_sep T = q_sep T -> has_sep T r = true ->
  agg_key T (r ++ 35 :: s) = proid_of T r.
Proof. intros H1 H2. rewrite (agg_key_proid T _ H1). apply proid_of_app. exact H2. Qed.

Lemma count_proid_inst T p r sfx : q_agg_sep T = q_sep T -> has_sep T r = true ->
  count_proid T p (inst_names r sfx) = if str_eqb (proid_of T r) p then Z.of_nat (length sfx) else 0.
Proof.
  intros H1 H2. induction sfx as [|s t IH].
  - cbn [inst_names map]. rewrite count_proid_nil. destruct (str_eqb (proid_of T r) p); reflexivity.
  - unfold inst_names in *. cbn [map]. rewrite count_proid_cons, IH, (agg_key_inst T r s H1 H2).
    destruct (str_eqb (proid_of T r) p); cbn [length]; lia.
Qed.

Lemma inst_names_length r sfx : length (inst_names r sfx) = length sfx.
Proof. unfold inst_names. apply map_length. Qed.

Lemma sys_step_within T names r : quota_tables_ok T = true -> has_sep T (fst r) = true ->
  sys_within T names -> sys_within T (fst (sys_step T names r)).
Proof.
  intros Hok Hs [Ht Hp]. destruct (tables_ok_fields T Hok) as (Hsep & Hd & _ & _ & _ & _ & Hasep & Hinc).
  assert (Hss : q_agg_sep T = q_sep T) by lia.
  unfold sys_step. cbn [fst].
  destruct (quota_check T (aggregate T names) (fst r) (Z.of_nat (length (snd r)))) eqn:E;
    try (split; assumption).
  apply check_accept_iff in E. destruct E as [E1 E2].
  unfold total_apps in E1. unfold proid_apps in E2. rewrite Hd in E2.
  rewrite (aggregate_total T names Hinc) in E1. rewrite (aggregate_get T _ names Hinc) in E2.
  split.
  - rewrite app_length, inst_names_length. lia.
  - intros p. rewrite count_proid_app, (count_proid_inst T p _ _ Hss Hs).
    destruct (str_eqb (proid_of T (fst r)) p) eqn:Ep.
    + apply str_eqb_eq in Ep. subst p. lia.
    + specialize (Hp p). lia.
Qed.

Lemma sys_run_cons T names r t :
  sys_run T names (r :: t) =
  (fst (sys_run T (fst (sys_step T names r)) t),
   snd (sys_step T names r) :: snd (sys_run T (fst (sys_step T names r)) t)).
Proof. cbn [sys_run]. destruct (sys_step T names r) as [n' o]. cbn [fst snd]. destruct (sys_run T n' t). reflexivity. Qed.

Lemma sys_run_within T reqs : quota_tables_ok T = true -> sys_names_ok T reqs = true ->
  forall names, sys_within T names -> sys_within T (fst (sys_run T names reqs)).
Proof.
  intros Hok. induction reqs as [|r t IH]; intros Hn names H; [exact H|].
  unfold sys_names_ok in Hn. cbn [forallb] in Hn. apply andb_true_iff in Hn. destruct Hn as [Hr Ht].
  rewrite sys_run_cons. cbn [fst]. apply (IH Ht). apply sys_step_within; assumption.
Qed.

(** the stats-level run is what the name-level loop does: the outcomes coincide when the stats are the aggregate *)
Definition stats_equiv (a b : stats) : Prop :=
  stats_total a = stats_total b /\ forall p, stats_get 0 a p = stats_get 0 b p.

Lemma check_equiv T a b r c : q_default T = 0 -> stats_equiv a b -> quota_check T a r c = quota_check T b r c.
Proof.
  intros Hd [H1 H2]. unfold quota_check, total_apps, proid_apps. rewrite Hd, H1, H2. reflexivity.
Qed.

Lemma aggregate_app_inst T names r sfx : quota_tables_ok T = true -> has_sep T r = true ->
  stats_equiv (aggregate T (names ++ inst_names r sfx))
              (stats_add (aggregate T names) (proid_of T r) (Z.of_nat (length sfx))).
Proof.
  intros Hok Hs. destruct (tables_ok_fields T Hok) as (Hsep & Hd & _ & _ & _ & _ & Hasep & Hinc).
  assert (Hss : q_agg_sep T = q_sep T) by lia.
  split.
  - rewrite total_add, !(aggregate_total T _ Hinc), app_length, inst_names_length. lia.
  - intros p. rewrite !(aggregate_get T _ _ Hinc), count_proid_app, (count_proid_inst T p _ _ Hss Hs).
    destruct (str_eqb (proid_of T r) p) eqn:Ep.
    + apply str_eqb_eq in Ep. subst p. rewrite (get_add_same 0 _ _ _ eq_refl), (aggregate_get T _ _ Hinc). lia.
    + rewrite (get_add_other _ _ _ _ _ (seqb_false_neq _ _ Ep)), (aggregate_get T _ _ Hinc). lia.
Qed.

(** * The statements of Props/C20Quota.v under the premise [quota_tables_ok] *)
Lemma proid_is_prefix T pre post : quota_tables_ok T = true ->
  ~ In 46 pre -> proid_of T (pre ++ 46 :: post) = pre.
Proof.
  intros H Hn. destruct (tables_ok_fields T H) as [Hs _]. rewrite <- Hs in *.
  exact (proid_of_split T pre post Hn).
Qed.

Lemma invariant_ok T st reqs : quota_tables_ok T = true -> within T st -> within T (fst (run T st reqs)).
Proof.
  intros H Hw. destruct (tables_ok_fields T H) as (_ & Hd & _).
  exact (run_within T reqs Hd st Hw).
Qed.

Lemma run_frame T st reqs : quota_tables_ok T = true ->
  length (snd (run T st reqs)) = length reqs /\
  (forall a r b, reqs = a ++ r :: b ->
     nth_error (snd (run T st reqs)) (length a) = Some (quota_check T (fst (run T st a)) (fst r) (snd r))) /\
  stats_total (fst (run T st reqs)) = stats_total st + accepted_sum reqs (snd (run T st reqs)) /\
  (forall p, stats_get (q_default T) (fst (run T st reqs)) p
             = stats_get (q_default T) st p + accepted_sum_for T p reqs (snd (run T st reqs))).
Proof.
  intros H. destruct (tables_ok_fields T H) as (_ & Hd & _).
  split; [apply run_length|]. split; [|split; [apply run_total|intros p; apply run_get; exact Hd]].
  intros a r b E. subst reqs. apply run_nth.
Qed.

Lemma master_aggregate T names : quota_tables_ok T = true ->
  stats_total (aggregate T names) = Z.of_nat (length names) /\
  forall p, stats_get (q_default T) (aggregate T names) p = count_proid T p names.
Proof.
  intros H. destruct (tables_ok_fields T H) as (_ & Hd & _ & _ & _ & _ & _ & Hinc). rewrite Hd.
  exact (conj (aggregate_total T names Hinc) (fun p => aggregate_get T p names Hinc)).
Qed.

Lemma instances_same_key T rsrc_id sfx : quota_tables_ok T = true -> has_sep T rsrc_id = true ->
  agg_key T (rsrc_id ++ 35 :: sfx) = proid_of T rsrc_id.
Proof.
  intros H Hs. destruct (tables_ok_fields T H) as (Hsep & _ & _ & _ & _ & _ & Hasep & _).
  exact (agg_key_inst T rsrc_id sfx (eq_trans Hasep (eq_sym Hsep)) Hs).
Qed.
