(** Model of treadmill.api.allocation._check_capacity and its helpers
    (_calc_free, _calc_free_traits, _check_limit) together with the two unit
    parsers utils.cpu_units / utils.size_to_bytes on structured spellings.

    The *dataflow* of the helpers -- which parser is applied to which field of
    which object and into which accumulator it is subtracted -- is NOT written
    here: it is a parameter of type [tables], instantiated by
    [TM.Gen.Tables.c19_tables], which the translator harness/tables.py extracts
    from the Python AST on every run. *)
From Coq Require Import ZArith List Bool.
Import ListNotations.
Open Scope Z_scope.

(** * Spelled quantities *)
Inductive suffix :=
| SNone                          (* "123"            *)
| SPct                           (* "123%"           *)
| SUnit (k : nat) (dec : bool).  (* "123G" / "123GB": k indexes B K M G T P E Z Y, dec = trailing B modifier *)

Record raw := { r_num : Z; r_suf : suffix }.

Inductive parser := PCpu | PSize.

(** utils.cpu_units: int(s.rstrip '%').  utils.size_to_bytes: see source. [None] = ValueError. *)
Definition parse (p : parser) (r : raw) : option Z :=
  match p, r_suf r with
  | PCpu, SNone => Some (r_num r)
  | PCpu, SPct => Some (r_num r)
  | PCpu, SUnit _ _ => None
  | PSize, SNone => Some (r_num r)
  | PSize, SPct => None
  | PSize, SUnit k dec => Some (r_num r * (if dec then 1000 else 1024) ^ Z.of_nat k)
  end.

(** * Objects *)
Inductive key := KCpu | KDisk | KMem.
Definition key_eqb (a b : key) : bool :=
  match a, b with KCpu, KCpu | KDisk, KDisk | KMem, KMem => true | _, _ => false end.

Record res3 := { f_cpu : raw; f_disk : raw; f_mem : raw }.      (* the three spelled fields of an object *)
Definition field (o : res3) (k : key) : raw :=
  match k with KCpu => f_cpu o | KDisk => f_disk o | KMem => f_mem o end.

Record alloc := { a_id : Z; a_res : res3; a_traits : list Z }.
Record limit := { l_trait : Z; l_res : res3 }.
Record partition := { p_res : res3; p_limits : list limit }.
Record request := { q_res : res3; q_traits : list Z }.

(** * Dataflow tables (extracted from the source) *)
Record flow := { fl_acc : key; fl_parser : parser; fl_src : key }.
Record tables := {
  t_free_init  : list flow;   (* _calc_free:        free[acc]  = parser(limit[src])        *)
  t_free_sub   : list flow;   (* _calc_free:        free[acc] -= parser(alloc[src])        *)
  t_trait_init : list flow;   (* _calc_free_traits: free[t][acc]  = parser(limit[src])     *)
  t_trait_sub  : list flow;   (* _calc_free_traits: free[t][acc] -= parser(alloc[src])     *)
  t_check      : list flow    (* _check_limit:      parser(request[src]) > limit[acc], in order *)
}.

Record num3 := { n_cpu : Z; n_disk : Z; n_mem : Z }.
Definition nget (n : num3) (k : key) : Z :=
  match k with KCpu => n_cpu n | KDisk => n_disk n | KMem => n_mem n end.
Definition nset (n : num3) (k : key) (v : Z) : num3 :=
  match k with
  | KCpu => {| n_cpu := v; n_disk := n_disk n; n_mem := n_mem n |}
  | KDisk => {| n_cpu := n_cpu n; n_disk := v; n_mem := n_mem n |}
  | KMem => {| n_cpu := n_cpu n; n_disk := n_disk n; n_mem := v |}
  end.
Definition nzero := {| n_cpu := 0; n_disk := 0; n_mem := 0 |}.

(** free = {acc: parser(obj[src]) ...}; a dict literal: later entries of the same key win *)
Fixpoint init_free (fs : list flow) (o : res3) (acc : num3) : option num3 :=
  match fs with
  | [] => Some acc
  | f :: t =>
      match parse (fl_parser f) (field o (fl_src f)) with
      | None => None
      | Some v => init_free t o (nset acc (fl_acc f) v)
      end
  end.

Fixpoint sub_free (fs : list flow) (o : res3) (acc : num3) : option num3 :=
  match fs with
  | [] => Some acc
  | f :: t =>
      match parse (fl_parser f) (field o (fl_src f)) with
      | None => None
      | Some v => sub_free t o (nset acc (fl_acc f) (nget acc (fl_acc f) - v))
      end
  end.

(** _calc_free *)
Fixpoint calc_free_loop (tb : tables) (allocs : list alloc) (old_id : Z) (free : num3) : option num3 :=
  match allocs with
  | [] => Some free
  | a :: t =>
      if Z.eqb (a_id a) old_id then calc_free_loop tb t old_id free
      else match sub_free (t_free_sub tb) (a_res a) free with
           | None => None
           | Some free' => calc_free_loop tb t old_id free'
           end
  end.
Definition calc_free (tb : tables) (p : res3) (allocs : list alloc) (old_id : Z) : option num3 :=
  match init_free (t_free_init tb) p nzero with
  | None => None
  | Some f0 => calc_free_loop tb allocs old_id f0
  end.

(** Python dict keyed by trait, as an association list (update keeps position). *)
Definition tmap := list (Z * num3).
Fixpoint tm_get (m : tmap) (t : Z) : option num3 :=
  match m with [] => None | (k, v) :: r => if Z.eqb k t then Some v else tm_get r t end.
Fixpoint tm_set (m : tmap) (t : Z) (v : num3) : tmap :=
  match m with
  | [] => [(t, v)]
  | (k, w) :: r => if Z.eqb k t then (k, v) :: r else (k, w) :: tm_set r t v
  end.

Fixpoint traits_init (tb : tables) (limits : list limit) (m : tmap) : option tmap :=
  match limits with
  | [] => Some m
  | l :: t =>
      match init_free (t_trait_init tb) (l_res l) nzero with
      | None => None
      | Some v => traits_init tb t (tm_set m (l_trait l) v)
      end
  end.

Fixpoint traits_sub_one (tb : tables) (a : alloc) (ts : list Z) (m : tmap) : option tmap :=
  match ts with
  | [] => Some m
  | t :: r =>
      match tm_get m t with
      | None => traits_sub_one tb a r m
      | Some v =>
          match sub_free (t_trait_sub tb) (a_res a) v with
          | None => None
          | Some v' => traits_sub_one tb a r (tm_set m t v')
          end
      end
  end.

Fixpoint traits_sub (tb : tables) (allocs : list alloc) (old_id : Z) (m : tmap) : option tmap :=
  match allocs with
  | [] => Some m
  | a :: t =>
      if Z.eqb (a_id a) old_id then traits_sub tb t old_id m
      else match traits_sub_one tb a (a_traits a) m with
           | None => None
           | Some m' => traits_sub tb t old_id m'
           end
  end.

Definition calc_free_traits (tb : tables) (limits : list limit) (allocs : list alloc) (old_id : Z) : option tmap :=
  match traits_init tb limits [] with
  | None => None
  | Some m => traits_sub tb allocs old_id m
  end.

Inductive outcome := Accept | Reject | Crash.

(** _check_limit: the comparisons in source order; the first that fails raises InvalidInputError *)
Fixpoint check_limit (cs : list flow) (lim : num3) (rq : res3) : outcome :=
  match cs with
  | [] => Accept
  | c :: t =>
      match parse (fl_parser c) (field rq (fl_src c)) with
      | None => Crash
      | Some v => if Z.gtb v (nget lim (fl_acc c)) then Reject else check_limit t lim rq
      end
  end.

Fixpoint mem_z (x : Z) (l : list Z) : bool :=
  match l with [] => false | y :: t => Z.eqb y x || mem_z x t end.

Fixpoint check_traits (tb : tables) (limits : list limit) (m : tmap) (rq : res3) : outcome :=
  match limits with
  | [] => Accept
  | l :: t =>
      match tm_get m (l_trait l) with
      | None => Crash                       (* KeyError: cannot happen, kept explicit *)
      | Some v =>
          match check_limit (t_check tb) v rq with
          | Accept => check_traits tb t m rq
          | o => o
          end
      end
  end.

Definition check_capacity (tb : tables) (p : partition) (allocs : list alloc) (old_id : Z) (rq : request) : outcome :=
  match calc_free tb (p_res p) allocs old_id with
  | None => Crash
  | Some free =>
      match check_limit (t_check tb) free (q_res rq) with
      | Accept =>
          let limits := filter (fun l => mem_z (l_trait l) (q_traits rq)) (p_limits p) in
          match calc_free_traits tb limits allocs old_id with
          | None => Crash
          | Some m => check_traits tb limits m (q_res rq)
          end
      | o => o
      end
  end.

(** * The canonical dataflow: what the property requires the code to compute *)
Definition flow_eqb (a b : flow) : bool :=
  key_eqb (fl_acc a) (fl_acc b) && key_eqb (fl_src a) (fl_src b) &&
  match fl_parser a, fl_parser b with PCpu, PCpu | PSize, PSize => true | _, _ => false end.
Fixpoint flows_eqb (a b : list flow) : bool :=
  match a, b with
  | [], [] => true
  | x :: a', y :: b' => flow_eqb x y && flows_eqb a' b'
  | _, _ => false
  end.

Definition canon_flows : list flow :=
  [ {| fl_acc := KCpu; fl_parser := PCpu; fl_src := KCpu |};
    {| fl_acc := KDisk; fl_parser := PSize; fl_src := KDisk |};
    {| fl_acc := KMem; fl_parser := PSize; fl_src := KMem |} ].

Definition canon_tables : tables :=
  {| t_free_init := canon_flows; t_free_sub := canon_flows;
     t_trait_init := canon_flows; t_trait_sub := canon_flows; t_check := canon_flows |}.

Definition tables_eqb (a b : tables) : bool :=
  flows_eqb (t_free_init a) (t_free_init b) && flows_eqb (t_free_sub a) (t_free_sub b) &&
  flows_eqb (t_trait_init a) (t_trait_init b) && flows_eqb (t_trait_sub a) (t_trait_sub b) &&
  flows_eqb (t_check a) (t_check b).

Definition table_is_canonical (tb : tables) : bool := tables_eqb tb canon_tables.

(** * Reservation store and request sequences (create / update through the API) *)
Definition store_put (allocs : list alloc) (a : alloc) : list alloc :=
  a :: filter (fun b => negb (Z.eqb (a_id b) (a_id a))) allocs.

(** one create/update request for reservation [id] in this (cell, partition): accepted => stored *)
Definition api_request (tb : tables) (p : partition) (allocs : list alloc) (id : Z) (rq : request)
  : list alloc * outcome :=
  match check_capacity tb p allocs id rq with
  | Accept => (store_put allocs {| a_id := id; a_res := q_res rq; a_traits := q_traits rq |}, Accept)
  | o => (allocs, o)
  end.

(** * Flattening for the correspondence check *)
Definition outcome_z (o : outcome) : Z := match o with Accept => 0 | Reject => 1 | Crash => 2 end.
Definition run_case (tb : tables) (c : partition * list alloc * Z * request) : list Z :=
  let '(p, allocs, old_id, rq) := c in [outcome_z (check_capacity tb p allocs old_id rq)].
