(** C20 (third anchored mechanism): "instance API quotas bound total and per-proid scheduled instances".

    api/instance.py, lines 24-31 (_TOTAL_SCHEDULED_QUOTA, _PROID_SCHEDULED_QUOTA) and the quota check at the top of the
    nested [create] of [API.__init__]:

        scheduled_stats = masterapi.get_scheduled_stats(zkclient)
        if not scheduled_stats: scheduled_stats = {}
        total_apps = sum(scheduled_stats.values())
        if total_apps + count > _TOTAL_SCHEDULED_QUOTA: raise QuotaExceededError('Total ...')
        proid_apps = scheduled_stats.get(rsrc_id[:rsrc_id.find('.')], 0)
        if proid_apps + count > _PROID_SCHEDULED_QUOTA: raise QuotaExceededError('Proid ...')

    and the writer of the stats, scheduler/master.py [_calculate_aggregate] (a Counter keyed by app[:app.find('.')] over
    the names of /scheduled).

    Executable model ONLY (no proofs here; see QuotaP.v).  Names are [list Z] of code points ([Codec.BaseN.str]); the
    stats dict is an association list proid -> count (a dict read from ZooKeeper: None / {} are the empty list).
    The two quotas, the argument of [find], the default of [.get] and the schema bounds of [count] are NOT written
    here: they are fields of [qtables], instantiated in QuotaRun.v from the definitions that harness/tables_quota.py
    regenerates from the source on every run. *)
From Coq Require Import ZArith List Bool.
From TM Require Import Codec.BaseN.
Import ListNotations.
Open Scope Z_scope.

Record qtables := {
  q_total : Z;        (* _TOTAL_SCHEDULED_QUOTA *)
  q_proid : Z;        (* _PROID_SCHEDULED_QUOTA *)
  q_sep : Z;          (* the one character of rsrc_id.find('.') *)
  q_default : Z;      (* scheduled_stats.get(<proid>, 0) *)
  q_count_min : Z;    (* @schema.schema(..., count={'type': 'integer', 'minimum': 1, 'maximum': 1000}) *)
  q_count_max : Z;
  q_agg_sep : Z;      (* scheduler/master.py _calculate_aggregate: app[:app.find('.')] *)
  q_agg_inc : Z       (* ... += 1 *)
}.

(** * str.find(c) for a one-character c and s[:i] *)
(** index of the first [c] in [s] *)
Fixpoint find_idx (c : Z) (s : str) : option nat :=
  match s with
  | [] => None
  | x :: t => if x =? c then Some 0%nat
              else match find_idx c t with Some n => Some (S n) | None => None end
  end.

(** s.find(c): -1 when there is none *)
Definition py_find (c : Z) (s : str) : Z :=
  match find_idx c s with Some n => Z.of_nat n | None => -1 end.

(** s[:i] with Python's reading of a negative bound (len(s) + i, clipped at 0) *)
Definition py_slice_to (s : str) (i : Z) : str :=
  if i <? 0 then firstn (length s - Z.to_nat (- i)) s else firstn (Z.to_nat i) s.

(** rsrc_id[:rsrc_id.find('.')]: the text before the first '.'; WITHOUT a '.' it is rsrc_id[:-1] *)
Definition proid_of (T : qtables) (s : str) : str := py_slice_to s (py_find (q_sep T) s).

Definition has_sep (T : qtables) (s : str) : bool := existsb (fun x => x =? q_sep T) s.

(** the text before the first [c] (all of [s] when there is none): the vocabulary of the theorems *)
Fixpoint before (c : Z) (s : str) : str :=
  match s with
  | [] => []
  | x :: t => if x =? c then [] else x :: before c t
  end.

(** * The stats dict *)
Definition stats := list (str * Z).

(** sum(scheduled_stats.values()) *)
Fixpoint stats_total (st : stats) : Z :=
  match st with
  | [] => 0
  | (_, n) :: t => n + stats_total t
  end.

(** scheduled_stats.get(p, d) *)
Fixpoint stats_get (d : Z) (st : stats) (p : str) : Z :=
  match st with
  | [] => d
  | (k, n) :: t => if str_eqb k p then n else stats_get d t p
  end.

(** * The check *)
Inductive outcome :=
  | Accept             (* falls through to context.GLOBAL.admin.application() *)
  | TotalExceeded      (* QuotaExceededError('Total scheduled apps quota exceeded.') *)
  | ProidExceeded.     (* QuotaExceededError('Proid scheduled apps quota exceeded.') *)

Definition total_apps (st : stats) : Z := stats_total st.
Definition proid_apps (T : qtables) (st : stats) (rsrc_id : str) : Z :=
  stats_get (q_default T) st (proid_of T rsrc_id).

(** in the order the code tests *)
Definition quota_check (T : qtables) (st : stats) (rsrc_id : str) (count : Z) : outcome :=
  if total_apps st + count >? q_total T then TotalExceeded
  else if proid_apps T st rsrc_id + count >? q_proid T then ProidExceeded
  else Accept.

(** the schema of the keyword [count] (validated by the decorator before the body runs) *)
Definition count_ok (T : qtables) (count : Z) : bool := (q_count_min T <=? count) && (count <=? q_count_max T).

(** the decorated [create] up to the quota decision, for a rsrc_id the schema admits: None = ValidationError *)
Definition api_create (T : qtables) (st : stats) (rsrc_id : str) (count : Z) : option outcome :=
  if count_ok T count then Some (quota_check T st rsrc_id count) else None.

(** * The writer of the stats: collections.Counter()[key] += c *)
Fixpoint stats_add (st : stats) (p : str) (c : Z) : stats :=
  match st with
  | [] => [(p, c)]
  | (k, n) :: t => if str_eqb k p then (k, n + c) :: t else (k, n) :: stats_add t p c
  end.

(** master._calculate_aggregate(apps): aggregate[app[:app.find('.')]] += 1 for every name *)
Definition agg_key (T : qtables) (s : str) : str := py_slice_to s (py_find (q_agg_sep T) s).
Definition aggregate (T : qtables) (names : list str) : stats :=
  fold_left (fun a n => stats_add a (agg_key T n) (q_agg_inc T)) names [].

(** * Sequences of requests *)
Definition request := (str * Z)%type.     (* rsrc_id, count *)

Definition apply_outcome (T : qtables) (st : stats) (r : request) (o : outcome) : stats :=
  match o with Accept => stats_add st (proid_of T (fst r)) (snd r) | _ => st end.

(** every request is checked against stats that contain exactly the creates accepted so far *)
Fixpoint run (T : qtables) (st : stats) (reqs : list request) : stats * list outcome :=
  match reqs with
  | [] => (st, [])
  | r :: t =>
      let o := quota_check T st (fst r) (snd r) in
      let (fin, os) := run T (apply_outcome T st r o) t in
      (fin, o :: os)
  end.

(** every request is checked against the SAME stats [seen] (the ZooKeeper node has not been rewritten in between);
    [st] accumulates what was accepted *)
Fixpoint run_stale (T : qtables) (seen st : stats) (reqs : list request) : stats * list outcome :=
  match reqs with
  | [] => (st, [])
  | r :: t =>
      let o := quota_check T seen (fst r) (snd r) in
      let (fin, os) := run_stale T seen (apply_outcome T st r o) t in
      (fin, o :: os)
  end.

(** * The whole loop on instance NAMES: the API checks against the master's aggregate of /scheduled, an accepted create
      adds the nodes rsrc_id#<sequence number> (35 = '#'; the suffixes are the zero-padded numbers ZooKeeper appends) *)
Definition inst_names (rsrc_id : str) (sfx : list str) : list str := map (fun s => rsrc_id ++ 35 :: s) sfx.

Definition sys_request := (str * list str)%type.   (* rsrc_id, the suffixes of the nodes to create: count = their number *)

Definition sys_step (T : qtables) (names : list str) (r : sys_request) : list str * outcome :=
  let o := quota_check T (aggregate T names) (fst r) (Z.of_nat (length (snd r))) in
  (match o with Accept => names ++ inst_names (fst r) (snd r) | _ => names end, o).

Fixpoint sys_run (T : qtables) (names : list str) (reqs : list sys_request) : list str * list outcome :=
  match reqs with
  | [] => (names, [])
  | r :: t =>
      let (names', o) := sys_step T names r in
      let (fin, os) := sys_run T names' t in
      (fin, o :: os)
  end.

(** the number of scheduled instances of proid [p]: names whose key (the text before the first '.') is [p] *)
Definition count_proid (T : qtables) (p : str) (names : list str) : Z :=
  Z.of_nat (length (filter (fun n => str_eqb (agg_key T n) p) names)).

(** the bounds on the real population of /scheduled *)
Definition sys_within (T : qtables) (names : list str) : Prop :=
  Z.of_nat (length names) <= q_total T /\ forall p, count_proid T p names <= q_proid T.

Definition sys_names_ok (T : qtables) (reqs : list sys_request) : bool := forallb (fun r => has_sep T (fst r)) reqs.

(** * Predicates of the theorems (boolean where an Example instantiates them) *)
Definition within (T : qtables) (st : stats) : Prop :=
  stats_total st <= q_total T /\ forall p, stats_get (q_default T) st p <= q_proid T.

(** the same, decidable: every proid that can have a non-default count is a key *)
Definition withinb (T : qtables) (st : stats) : bool :=
  (stats_total st <=? q_total T) && (q_default T <=? q_proid T) &&
  forallb (fun kv => stats_get (q_default T) st (fst kv) <=? q_proid T) st.

Definition counts_ok (T : qtables) (reqs : list request) : bool := forallb (fun r => count_ok T (snd r)) reqs.

(** the sum of the counts of the accepted requests / of those charged to proid [p] / their number *)
Fixpoint accepted_sum (reqs : list request) (os : list outcome) : Z :=
  match reqs, os with
  | r :: t, o :: os' => (match o with Accept => snd r | _ => 0 end) + accepted_sum t os'
  | _, _ => 0
  end.

Fixpoint accepted_sum_for (T : qtables) (p : str) (reqs : list request) (os : list outcome) : Z :=
  match reqs, os with
  | r :: t, o :: os' =>
      (match o with Accept => if str_eqb (proid_of T (fst r)) p then snd r else 0 | _ => 0 end)
      + accepted_sum_for T p t os'
  | _, _ => 0
  end.

Fixpoint accepted_n (os : list outcome) : Z :=
  match os with
  | [] => 0
  | o :: t => (match o with Accept => 1 | _ => 0 end) + accepted_n t
  end.

Definition all_accepted (os : list outcome) : bool :=
  forallb (fun o => match o with Accept => true | _ => false end) os.

(** what the constants must be for the theorems that name them (checked by vm_compute on the generated tables):
    '.' is the separator (in the API and in the master), an absent proid counts 0, the master counts every name once,
    1 <= count_min <= count_max <= proid quota <= total quota *)
Definition quota_tables_ok (T : qtables) : bool :=
  (q_sep T =? 46) && (q_default T =? 0) &&
  (1 <=? q_count_min T) && (q_count_min T <=? q_count_max T) &&
  (q_count_max T <=? q_proid T) && (q_proid T <=? q_total T) &&
  (q_agg_sep T =? 46) && (q_agg_inc T =? 1).

(** the numbers the source has today *)
Definition quota_tables_canon : qtables :=
  {| q_total := 50000; q_proid := 10000; q_sep := 46; q_default := 0; q_count_min := 1; q_count_max := 1000;
     q_agg_sep := 46; q_agg_inc := 1 |}.

Definition quota_tables_canonical (T : qtables) : bool :=
  (q_total T =? 50000) && (q_proid T =? 10000) && (q_sep T =? 46) && (q_default T =? 0) &&
  (q_count_min T =? 1) && (q_count_max T =? 1000) && (q_agg_sep T =? 46) && (q_agg_inc T =? 1).
