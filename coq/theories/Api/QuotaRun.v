(** C20 quota correspondence runner.  [quota_tables] is assembled here from the plain definitions that
    harness/tables_quota.py regenerates into Gen/Tables.v on every run; [run_case] flattens the model's observables to
    [list Z] exactly like harness/props/quota.py flattens the implementation's. *)
From Coq Require Import ZArith List Bool.
From TM Require Import Codec.BaseN Api.Quota Gen.Tables.
Import ListNotations.
Open Scope Z_scope.

Definition quota_tables : qtables := {|
  q_total := quota_total;
  q_proid := quota_proid;
  q_sep := quota_sep;
  q_default := quota_default;
  q_count_min := quota_count_min;
  q_count_max := quota_count_max;
  q_agg_sep := quota_agg_sep;
  q_agg_inc := quota_agg_inc
|}.

(** 0 reached admin.application() (accepted); 1 'Total scheduled apps quota exceeded.'; 2 'Proid scheduled apps quota
    exceeded.'; 3 ValidationError of the decorator (the harness maps anything else to 9) *)
Definition fout (o : outcome) : Z := match o with Accept => 0 | TotalExceeded => 1 | ProidExceeded => 2 end.
Definition fouto (o : option outcome) : Z := match o with Some x => fout x | None => 3 end.

(** a dict in insertion order: for every item the length of the key, the key, the value *)
Fixpoint fstats (st : stats) : list Z :=
  match st with
  | [] => []
  | (k, n) :: t => Z.of_nat (length k) :: k ++ n :: fstats t
  end.

Inductive qcase :=
  | QOne (api : bool) (st : stats) (r : str) (c : Z)
      (* one create: the decorated function (api = true, a rsrc_id the schema admits) or its body alone *)
  | QSeq (st : stats) (reqs : list request) (probe : list str)
      (* creates one after the other, the stats rewritten after every accepted one *)
  | QStale (st : stats) (reqs : list request) (probe : list str)
      (* creates all checked against the stats [st] *)
  | QAgg (names : list str).
      (* master._calculate_aggregate(names) *)

(** the observer's reading of the final dict: sum(values), .get(p, 0) (the harness's own lookups, not the code's) *)
Definition fprobe (st : stats) (probe : list str) : list Z :=
  stats_total st :: map (stats_get 0 st) probe.

Definition run_case (T : qtables) (c : qcase) : list Z :=
  match c with
  | QOne true st r n => [fouto (api_create T st r n)]
  | QOne false st r n => [fout (quota_check T st r n)]
  | QSeq st reqs probe => let (fin, os) := run T st reqs in map fout os ++ fprobe fin probe
  | QStale st reqs probe => let (fin, os) := run_stale T st st reqs in map fout os ++ fprobe fin probe
  | QAgg names => fstats (aggregate T names)
  end.
