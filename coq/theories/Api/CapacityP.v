(** Proofs about Api/Capacity.v: with the canonical dataflow the capacity check is
    sound, complete and never fails with anything but an input error. *)
From Coq Require Import ZArith List Bool Lia.
From TM Require Import Api.Capacity.
Import ListNotations.
Open Scope Z_scope.

(** ** Well-formed inputs: what the REST schema admits for each field *)
Definition wf_cpu (r : raw) : bool := match r_suf r with SNone | SPct => true | SUnit _ _ => false end.
Definition wf_size (r : raw) : bool := match r_suf r with SNone | SUnit _ _ => true | SPct => false end.
Definition wf_res (o : res3) : bool := wf_cpu (f_cpu o) && wf_size (f_disk o) && wf_size (f_mem o).

(** the quantity a spelling denotes *)
Definition val_size (r : raw) : Z :=
  match r_suf r with
  | SUnit k dec => r_num r * (if dec then 1000 else 1024) ^ Z.of_nat k
  | _ => r_num r
  end.
Definition val3 (o : res3) : num3 :=
  {| n_cpu := r_num (f_cpu o); n_disk := val_size (f_disk o); n_mem := val_size (f_mem o) |}.

Definition nsub (a b : num3) : num3 :=
  {| n_cpu := n_cpu a - n_cpu b; n_disk := n_disk a - n_disk b; n_mem := n_mem a - n_mem b |}.
Definition nle (a b : num3) : Prop := n_cpu a <= n_cpu b /\ n_disk a <= n_disk b /\ n_mem a <= n_mem b.

Definition others (allocs : list alloc) (old : Z) := filter (fun a => negb (Z.eqb (a_id a) old)) allocs.
Definition with_trait (t : Z) (l : list alloc) := filter (fun a => mem_z t (a_traits a)) l.
Fixpoint total (l : list alloc) : num3 :=
  match l with
  | [] => nzero
  | a :: r => let s := total r in let v := val3 (a_res a) in
      {| n_cpu := n_cpu v + n_cpu s; n_disk := n_disk v + n_disk s; n_mem := n_mem v + n_mem s |}
  end.

(** ** The specification (the property statement) *)
Definition fits_overall (p : partition) (allocs : list alloc) (old : Z) (rq : request) : Prop :=
  nle (val3 (q_res rq)) (nsub (val3 (p_res p)) (total (others allocs old))).
Definition fits_trait (l : limit) (allocs : list alloc) (old : Z) (rq : request) : Prop :=
  nle (val3 (q_res rq)) (nsub (val3 (l_res l)) (total (with_trait (l_trait l) (others allocs old)))).
Definition fits (p : partition) (allocs : list alloc) (old : Z) (rq : request) : Prop :=
  fits_overall p allocs old rq /\
  forall l, In l (p_limits p) -> mem_z (l_trait l) (q_traits rq) = true -> fits_trait l allocs old rq.

Definition wf_inputs (p : partition) (allocs : list alloc) (rq : request) : Prop :=
  wf_res (p_res p) = true /\
  Forall (fun l => wf_res (l_res l) = true) (p_limits p) /\
  NoDup (map l_trait (p_limits p)) /\
  Forall (fun a => wf_res (a_res a) = true /\ NoDup (a_traits a)) allocs /\
  wf_res (q_res rq) = true.

(** ** table_is_canonical reflects equality *)
Lemma key_eqb_eq a b : key_eqb a b = true -> a = b.
Proof. destruct a, b; cbn; congruence. Qed.
Lemma flow_eqb_eq a b : flow_eqb a b = true -> a = b.
Proof.
  destruct a as [a1 p1 s1], b as [a2 p2 s2]; unfold flow_eqb; cbn.
  intros H. apply andb_true_iff in H as [H H3]. apply andb_true_iff in H as [H1 H2].
  apply key_eqb_eq in H1, H2. subst. destruct p1, p2; congruence.
Qed.
Lemma flows_eqb_eq a b : flows_eqb a b = true -> a = b.
Proof.
  revert b; induction a as [|x a IH]; intros [|y b]; cbn; try congruence.
  intros H. apply andb_true_iff in H as [H1 H2]. apply flow_eqb_eq in H1. apply IH in H2. congruence.
Qed.
Lemma table_is_canonical_eq tb : table_is_canonical tb = true -> tb = canon_tables.
Proof.
  unfold table_is_canonical, tables_eqb. destruct tb as [a b c d e]; cbn. intros H.
  repeat (apply andb_true_iff in H as [H ?]).
  repeat match goal with X : flows_eqb _ _ = true |- _ => apply flows_eqb_eq in X end.
  subst. reflexivity.
Qed.

(** ** parsers on well-formed fields *)
Lemma wf_res_parts o : wf_res o = true ->
  parse PCpu (f_cpu o) = Some (n_cpu (val3 o)) /\
  parse PSize (f_disk o) = Some (n_disk (val3 o)) /\
  parse PSize (f_mem o) = Some (n_mem (val3 o)).
Proof.
  unfold wf_res, wf_cpu, wf_size, parse, val3, val_size; cbn. intros H.
  apply andb_true_iff in H as [H H3]. apply andb_true_iff in H as [H1 H2].
  destruct (r_suf (f_cpu o)), (r_suf (f_disk o)), (r_suf (f_mem o)); try discriminate; auto.
Qed.

Lemma init_canon o acc : wf_res o = true -> init_free canon_flows o acc = Some (val3 o).
Proof.
  intros H. destruct (wf_res_parts _ H) as (H1 & H2 & H3).
  unfold canon_flows; cbn [init_free fl_parser fl_src fl_acc field].
  rewrite H1, H2, H3. cbn. reflexivity.
Qed.

Lemma sub_canon o acc : wf_res o = true -> sub_free canon_flows o acc = Some (nsub acc (val3 o)).
Proof.
  intros H. destruct (wf_res_parts _ H) as (H1 & H2 & H3).
  unfold canon_flows; cbn [sub_free fl_parser fl_src fl_acc field].
  rewrite H1, H2, H3. destruct acc; cbn. reflexivity.
Qed.

Lemma nsub_total_cons f a r :
  nsub (nsub f (val3 (a_res a))) (total r) = nsub f (total (a :: r)).
Proof. destruct f; unfold nsub; cbn. f_equal; lia. Qed.

Lemma nsub_zero f : nsub f nzero = f.
Proof. destruct f; unfold nsub, nzero; cbn. f_equal; lia. Qed.

Lemma calc_free_loop_canon allocs old free :
  Forall (fun a => wf_res (a_res a) = true /\ NoDup (a_traits a)) allocs ->
  calc_free_loop canon_tables allocs old free = Some (nsub free (total (others allocs old))).
Proof.
  revert free; induction allocs as [|a t IH]; intros free Hwf.
  - cbn. rewrite nsub_zero. reflexivity.
  - inversion Hwf as [|? ? [Ha _] Ht]; subst. cbn [calc_free_loop others filter].
    destruct (Z.eqb (a_id a) old); cbn [negb].
    + apply IH; assumption.
    + cbn [t_free_sub canon_tables]. rewrite sub_canon by assumption.
      rewrite IH by assumption. fold (others t old). rewrite nsub_total_cons. reflexivity.
Qed.

Lemma check_limit_canon lim o : wf_res o = true ->
  (check_limit canon_flows lim o = Accept <-> nle (val3 o) lim) /\
  check_limit canon_flows lim o <> Crash.
Proof.
  intros H. destruct (wf_res_parts _ H) as (H1 & H2 & H3).
  unfold canon_flows; cbn [check_limit fl_parser fl_src fl_acc field nget].
  rewrite H1, H2, H3. unfold nle.
  destruct (Z.gtb_spec (n_cpu (val3 o)) (n_cpu lim)).
  { split; [split; [discriminate|lia]|discriminate]. }
  destruct (Z.gtb_spec (n_disk (val3 o)) (n_disk lim)).
  { split; [split; [discriminate|lia]|discriminate]. }
  destruct (Z.gtb_spec (n_mem (val3 o)) (n_mem lim)).
  { split; [split; [discriminate|lia]|discriminate]. }
  split; [split; [lia|reflexivity]|discriminate].
Qed.

(** ** trait map *)
Lemma tm_get_set_same m t v : tm_get (tm_set m t v) t = Some v.
Proof.
  induction m as [|[k w] r IH]; cbn.
  - rewrite Z.eqb_refl. reflexivity.
  - destruct (Z.eqb k t) eqn:E; cbn; rewrite E; auto.
Qed.
Lemma tm_get_set_other m t u v : t <> u -> tm_get (tm_set m t v) u = tm_get m u.
Proof.
  intros Hn. induction m as [|[k w] r IH]; cbn.
  - destruct (Z.eqb_spec t u); [contradiction|reflexivity].
  - destruct (Z.eqb_spec k t); cbn.
    + subst. destruct (Z.eqb_spec t u); [contradiction|reflexivity].
    + destruct (Z.eqb k u); auto.
Qed.

Lemma mem_z_In x l : mem_z x l = true <-> In x l.
Proof.
  induction l as [|y t IH]; cbn; [split; [discriminate|tauto]|].
  rewrite orb_true_iff, IH, Z.eqb_eq. tauto.
Qed.

(** the trait map after initialisation: exactly the limits, each with its own values *)
Definition tm_spec (m : tmap) (limits : list limit) (f : limit -> num3) : Prop :=
  (forall l, In l limits -> tm_get m (l_trait l) = Some (f l)) /\
  (forall t, ~ In t (map l_trait limits) -> tm_get m t = None).

Lemma traits_init_canon limits : forall m0 done,
  Forall (fun l => wf_res (l_res l) = true) limits ->
  NoDup (map l_trait (done ++ limits)) ->
  tm_spec m0 done (fun l => val3 (l_res l)) ->
  exists m, traits_init canon_tables limits m0 = Some m /\
            tm_spec m (done ++ limits) (fun l => val3 (l_res l)).
Proof.
  induction limits as [|l t IH]; intros m0 done Hwf Hnd Hs.
  - exists m0. rewrite app_nil_r. split; [reflexivity|assumption].
  - inversion Hwf as [|? ? Hl Ht]; subst. cbn [traits_init t_trait_init canon_tables].
    rewrite init_canon by assumption.
    assert (Hnd' : NoDup (map l_trait ((done ++ [l]) ++ t))) by (rewrite <- app_assoc; exact Hnd).
    assert (Hnotin : ~ In (l_trait l) (map l_trait done)).
    { rewrite map_app in Hnd. cbn in Hnd. apply NoDup_remove_2 in Hnd. intros X. apply Hnd.
      apply in_or_app. left. exact X. }
    destruct (IH (tm_set m0 (l_trait l) (val3 (l_res l))) (done ++ [l]) Ht Hnd') as (m & Hm & Hsp).
    { destruct Hs as [Hs1 Hs2]. split.
      - intros l' Hin. apply in_app_or in Hin as [Hin|[<-|[]]].
        + rewrite tm_get_set_other; [apply Hs1; assumption|].
          intros E. apply Hnotin. rewrite E. apply in_map. assumption.
        + apply tm_get_set_same.
      - intros u Hu. rewrite map_app in Hu. cbn in Hu.
        rewrite tm_get_set_other; [apply Hs2; intros X; apply Hu; apply in_or_app; left; exact X|].
        intros E. apply Hu. apply in_or_app. right. left. exact E. }
    exists m. rewrite <- app_assoc in Hsp. split; assumption.
Qed.

Lemma traits_sub_one_canon a : wf_res (a_res a) = true -> forall ts m,
  NoDup ts ->
  exists m', traits_sub_one canon_tables a ts m = Some m' /\
    forall t, tm_get m' t =
      match tm_get m t with
      | None => None
      | Some v => Some (if mem_z t ts then nsub v (val3 (a_res a)) else v)
      end.
Proof.
  intros Hwf. induction ts as [|t r IH]; intros m Hnd.
  - exists m. split; [reflexivity|]. intros t. cbn. destruct (tm_get m t); reflexivity.
  - inversion Hnd as [|? ? Hni Hr]; subst. cbn [traits_sub_one].
    destruct (tm_get m t) as [v|] eqn:E.
    + cbn [t_trait_sub canon_tables]. rewrite sub_canon by assumption.
      destruct (IH (tm_set m t (nsub v (val3 (a_res a)))) Hr) as (m' & Hm' & Hsp).
      exists m'. split; [assumption|]. intros u. rewrite Hsp. cbn [mem_z].
      destruct (Z.eqb_spec t u) as [->|Hne].
      * rewrite tm_get_set_same, E. cbn.
        destruct (mem_z u r) eqn:Em; [apply mem_z_In in Em; contradiction|reflexivity].
      * rewrite tm_get_set_other by assumption. cbn. reflexivity.
    + destruct (IH m Hr) as (m' & Hm' & Hsp). exists m'. split; [assumption|].
      intros u. rewrite Hsp. cbn [mem_z]. destruct (Z.eqb_spec t u) as [->|Hne]; cbn; [|reflexivity].
      rewrite E. reflexivity.
Qed.

Lemma traits_sub_canon allocs old : forall m,
  Forall (fun a => wf_res (a_res a) = true /\ NoDup (a_traits a)) allocs ->
  exists m', traits_sub canon_tables allocs old m = Some m' /\
    forall t, tm_get m' t =
      match tm_get m t with
      | None => None
      | Some v => Some (nsub v (total (with_trait t (others allocs old))))
      end.
Proof.
  induction allocs as [|a r IH]; intros m Hwf.
  - exists m. split; [reflexivity|]. intros t. cbn. destruct (tm_get m t); [rewrite nsub_zero|]; reflexivity.
  - inversion Hwf as [|? ? [Ha Hnd] Hr]; subst. cbn [traits_sub others filter].
    destruct (Z.eqb (a_id a) old); cbn [negb].
    + apply IH. assumption.
    + destruct (traits_sub_one_canon a Ha (a_traits a) m Hnd) as (m1 & Hm1 & Hs1).
      rewrite Hm1. destruct (IH m1 Hr) as (m' & Hm' & Hs'). exists m'. split; [assumption|].
      intros t. rewrite Hs', Hs1. fold (others r old). cbn [with_trait filter].
      destruct (tm_get m t) as [v|]; [|reflexivity].
      destruct (mem_z t (a_traits a)); [|reflexivity].
      fold (with_trait t (others r old)). rewrite nsub_total_cons. reflexivity.
Qed.

Lemma check_traits_canon rq limits m (f : limit -> num3) : wf_res rq = true ->
  (forall l, In l limits -> tm_get m (l_trait l) = Some (f l)) ->
  (check_traits canon_tables limits m rq = Accept <-> forall l, In l limits -> nle (val3 rq) (f l)) /\
  check_traits canon_tables limits m rq <> Crash.
Proof.
  intros Hwf. induction limits as [|l t IH]; intros Hget.
  - cbn. split; [split; [intros _ l []|reflexivity]|discriminate].
  - cbn [check_traits]. rewrite (Hget l (or_introl eq_refl)).
    cbn [t_check canon_tables].
    destruct (check_limit_canon (f l) rq Hwf) as [Hiff Hnc].
    destruct (IH (fun l' H => Hget l' (or_intror H))) as [IHiff IHnc].
    destruct (check_limit canon_flows (f l) rq) eqn:E.
    + split; [|assumption]. rewrite IHiff. split.
      * intros H l' [<-|Hin]; [apply Hiff; reflexivity|apply H; assumption].
      * intros H l' Hin. apply H. right. assumption.
    + split; [|discriminate]. split; [discriminate|].
      intros H. exfalso. assert (X : Reject = Accept) by (apply Hiff, H; left; reflexivity). discriminate.
    + contradiction.
Qed.

Lemma filter_NoDup_map {A} (f : A -> Z) (p : A -> bool) l : NoDup (map f l) -> NoDup (map f (filter p l)).
Proof.
  induction l as [|x t IH]; cbn; intros H; [constructor|].
  inversion H as [|? ? Hni Ht]; subst. destruct (p x); cbn; [constructor|]; auto.
  intros X. apply Hni. apply in_map_iff in X as (y & Hy & Hin). apply filter_In in Hin as [Hin _].
  rewrite <- Hy. apply in_map. assumption.
Qed.

(** ** Main lemma *)
Lemma check_capacity_canon p allocs old rq :
  wf_inputs p allocs rq ->
  (check_capacity canon_tables p allocs old rq = Accept <-> fits p allocs old rq) /\
  check_capacity canon_tables p allocs old rq <> Crash.
Proof.
  intros (Hp & Hl & Hnd & Ha & Hq). unfold check_capacity, calc_free.
  cbn [t_free_init canon_tables]. rewrite init_canon by assumption.
  rewrite calc_free_loop_canon by assumption.
  cbn [t_check canon_tables].
  destruct (check_limit_canon (nsub (val3 (p_res p)) (total (others allocs old))) (q_res rq) Hq) as [Hiff Hnc].
  destruct (check_limit canon_flows _ (q_res rq)) eqn:E.
  2:{ split; [|discriminate]. split; [discriminate|]. intros [Ho _]. apply Hiff in Ho. discriminate. }
  2:{ contradiction. }
  set (limits := filter (fun l => mem_z (l_trait l) (q_traits rq)) (p_limits p)).
  assert (Hlw : Forall (fun l => wf_res (l_res l) = true) limits).
  { apply Forall_forall. intros l Hin. apply filter_In in Hin as [Hin _].
    rewrite Forall_forall in Hl. apply Hl. assumption. }
  assert (Hlnd : NoDup (map l_trait ([] ++ limits))) by (cbn; apply filter_NoDup_map; assumption).
  unfold calc_free_traits.
  destruct (traits_init_canon limits [] [] Hlw Hlnd) as (m0 & Hm0 & Hs0 & Hs0').
  { split; [intros l []|reflexivity]. }
  rewrite Hm0. destruct (traits_sub_canon allocs old m0 Ha) as (m1 & Hm1 & Hs1). rewrite Hm1.
  cbn [app] in Hs0.
  destruct (check_traits_canon (q_res rq) limits m1
              (fun l => nsub (val3 (l_res l)) (total (with_trait (l_trait l) (others allocs old)))) Hq)
    as [Tiff Tnc].
  { intros l Hin. rewrite Hs1, (Hs0 l Hin). reflexivity. }
  split; [|assumption]. rewrite Tiff. unfold fits, fits_overall, fits_trait. split.
  - intros H. split; [apply Hiff; reflexivity|]. intros l Hin Hm. apply H. apply filter_In. split; assumption.
  - intros [_ H] l Hin. apply filter_In in Hin as [Hin Hm]. apply H; assumption.
Qed.

Theorem check_capacity_sound_complete tb p allocs old rq :
  table_is_canonical tb = true -> wf_inputs p allocs rq ->
  (check_capacity tb p allocs old rq = Accept <-> fits p allocs old rq) /\
  (check_capacity tb p allocs old rq = Reject <-> ~ fits p allocs old rq) /\
  check_capacity tb p allocs old rq <> Crash.
Proof.
  intros Ht Hwf. apply table_is_canonical_eq in Ht. subst tb.
  destruct (check_capacity_canon p allocs old rq Hwf) as [Hiff Hnc].
  split; [assumption|]. split; [|assumption].
  destruct (check_capacity canon_tables p allocs old rq) eqn:E.
  - split; [discriminate|]. intros Hn. exfalso. apply Hn, Hiff. reflexivity.
  - split; [|reflexivity]. intros _ Hf. apply Hiff in Hf. discriminate.
  - contradiction.
Qed.

(** ** Sequences of create/update requests keep the partition within capacity *)
Definition nonneg_res (o : res3) : Prop :=
  0 <= n_cpu (val3 o) /\ 0 <= n_disk (val3 o) /\ 0 <= n_mem (val3 o).

Definition within (p : partition) (allocs : list alloc) : Prop :=
  nle (total allocs) (val3 (p_res p)) /\
  forall l, In l (p_limits p) -> nle (total (with_trait (l_trait l) allocs)) (val3 (l_res l)).

Definition store_wf (allocs : list alloc) : Prop :=
  Forall (fun a => wf_res (a_res a) = true /\ NoDup (a_traits a)) allocs /\
  Forall (fun a => nonneg_res (a_res a)) allocs.

Lemma total_filter_le (f : alloc -> bool) allocs :
  Forall (fun a => nonneg_res (a_res a)) allocs -> nle (total (filter f allocs)) (total allocs).
Proof.
  induction allocs as [|a t IH]; intros H; [cbn; unfold nle; cbn; lia|].
  inversion H as [|? ? Ha Ht]; subst. specialize (IH Ht). cbn [filter].
  destruct (f a); cbn [total]; unfold nle, nonneg_res in *; cbn in *; lia.
Qed.

Lemma filter_comm {A} (f g : A -> bool) l : filter f (filter g l) = filter g (filter f l).
Proof.
  induction l as [|x t IH]; cbn; [reflexivity|].
  destruct (g x) eqn:Eg, (f x) eqn:Ef; cbn; rewrite ?Eg, ?Ef, ?IH; reflexivity.
Qed.

Lemma with_trait_others t allocs old :
  with_trait t (others allocs old) = others (with_trait t allocs) old.
Proof. unfold with_trait, others. apply filter_comm. Qed.

Lemma Forall_filter {A} (P : A -> Prop) f l : Forall P l -> Forall P (filter f l).
Proof. induction 1; cbn; [constructor|]. destruct (f x); auto. Qed.

Theorem api_request_within tb p allocs id rq :
  table_is_canonical tb = true ->
  wf_res (p_res p) = true -> Forall (fun l => wf_res (l_res l) = true) (p_limits p) ->
  NoDup (map l_trait (p_limits p)) ->
  store_wf allocs -> wf_res (q_res rq) = true -> NoDup (q_traits rq) -> nonneg_res (q_res rq) ->
  within p allocs ->
  let '(allocs', o) := api_request tb p allocs id rq in
  store_wf allocs' /\ within p allocs' /\ o <> Crash /\ (o <> Accept -> allocs' = allocs).
Proof.
  intros Ht Hp Hl Hnd [Hwf Hnn] Hq Hqnd Hqnn [Hw1 Hw2].
  unfold api_request.
  destruct (check_capacity_sound_complete tb p allocs id rq Ht) as (Hacc & _ & Hnc).
  { repeat split; assumption. }
  destruct (check_capacity tb p allocs id rq) eqn:E.
  - destruct (proj1 Hacc eq_refl) as [Ho Htr].
    set (a := {| a_id := id; a_res := q_res rq; a_traits := q_traits rq |}).
    assert (Hsame : filter (fun b => negb (Z.eqb (a_id b) (a_id a))) allocs = others allocs id) by reflexivity.
    split; [|split; [|split; [discriminate|intros X; contradiction]]].
    + unfold store_put. rewrite Hsame. split; constructor; cbn; auto; apply Forall_filter; assumption.
    + unfold store_put. rewrite Hsame. split.
      * unfold fits_overall in Ho. cbn [total a_res a]. unfold nle, nsub in *. cbn in *. lia.
      * intros l Hin. cbn [with_trait filter a_traits a].
        destruct (mem_z (l_trait l) (q_traits rq)) eqn:Em.
        -- specialize (Htr l Hin Em). unfold fits_trait in Htr. cbn [total a_res a].
           fold (with_trait (l_trait l) (others allocs id)). unfold nle, nsub in *. cbn in *. lia.
        -- fold (with_trait (l_trait l) (others allocs id)). rewrite with_trait_others.
           specialize (Hw2 l Hin).
           pose proof (total_filter_le (fun a0 => negb (Z.eqb (a_id a0) id)) (with_trait (l_trait l) allocs)) as Hle.
           unfold others. unfold nle in *.
           assert (Hf : Forall (fun a0 => nonneg_res (a_res a0)) (with_trait (l_trait l) allocs))
             by (apply Forall_filter; assumption).
           specialize (Hle Hf). lia.
  - split; [split; assumption|]. split; [split; assumption|]. split; [discriminate|reflexivity].
  - contradiction.
Qed.

(** every state reachable by any sequence of requests from a store within capacity is within capacity *)
Fixpoint api_run (tb : tables) (p : partition) (allocs : list alloc) (rqs : list (Z * request)) : list alloc :=
  match rqs with
  | [] => allocs
  | (id, rq) :: t => api_run tb p (fst (api_request tb p allocs id rq)) t
  end.

Theorem api_run_within tb p rqs : forall allocs,
  table_is_canonical tb = true ->
  wf_res (p_res p) = true -> Forall (fun l => wf_res (l_res l) = true) (p_limits p) ->
  NoDup (map l_trait (p_limits p)) ->
  Forall (fun '(_, rq) => wf_res (q_res rq) = true /\ NoDup (q_traits rq) /\ nonneg_res (q_res rq)) rqs ->
  store_wf allocs -> within p allocs ->
  within p (api_run tb p allocs rqs).
Proof.
  induction rqs as [|[id rq] t IH]; intros allocs Ht Hp Hl Hnd Hr Hs Hw; [exact Hw|].
  inversion Hr as [|? ? Hq Hrt]; subst. cbv beta iota in Hq. destruct Hq as (Hq1 & Hq2 & Hq3). cbn [api_run].
  pose proof (api_request_within tb p allocs id rq Ht Hp Hl Hnd Hs Hq1 Hq2 Hq3 Hw) as H.
  destruct (api_request tb p allocs id rq) as [allocs' o]. cbv beta iota in H. destruct H as (Hs' & Hw' & _).
  cbn [fst]. apply IH; assumption.
Qed.
