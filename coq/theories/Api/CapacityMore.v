(** More consequences of the capacity check's soundness and completeness (Api/CapacityP.v):
    the decision depends only on the QUANTITIES and on the SET of the other reservations -
    not on the order in which the admin backend lists them, not on the unit spelling of any
    field - removing a reservation never turns an acceptance into a rejection, and a request
    that is not accepted leaves the store as it was. *)
From Coq Require Import ZArith List Bool Lia Permutation.
From TM Require Import Api.Capacity Api.CapacityP.
Import ListNotations.
Open Scope Z_scope.

(** ** the decision is a function of [fits] alone *)
Lemma decision_by_fits tb p allocs allocs' old old' rq rq' p' :
  table_is_canonical tb = true -> wf_inputs p allocs rq -> wf_inputs p' allocs' rq' ->
  (fits p allocs old rq <-> fits p' allocs' old' rq') ->
  check_capacity tb p allocs old rq = check_capacity tb p' allocs' old' rq'.
Proof.
  intros Ht H1 H2 Hiff.
  destruct (check_capacity_sound_complete tb p allocs old rq Ht H1) as (A1 & R1 & C1).
  destruct (check_capacity_sound_complete tb p' allocs' old' rq' Ht H2) as (A2 & R2 & C2).
  destruct (check_capacity tb p allocs old rq) eqn:E1.
  - symmetry. apply A2, Hiff, A1. reflexivity.
  - symmetry. apply R2. intros F. apply (proj1 R1 eq_refl). apply Hiff. exact F.
  - contradiction.
Qed.

(** ** order of the listing *)
Lemma total_perm l l' : Permutation l l' -> total l = total l'.
Proof.
  induction 1 as [|x l l' _ IH|x y l|l l' l'' _ IH1 _ IH2]; cbn [total].
  - reflexivity.
  - rewrite IH. reflexivity.
  - cbv zeta. destruct (val3 (a_res x)), (val3 (a_res y)), (total l); cbn. f_equal; lia.
  - congruence.
Qed.

Lemma filter_perm {A} (f : A -> bool) l l' : Permutation l l' -> Permutation (filter f l) (filter f l').
Proof.
  induction 1 as [|x l l' _ IH|x y l|l l' l'' _ IH1 _ IH2]; cbn [filter].
  - constructor.
  - destruct (f x); [constructor|]; assumption.
  - destruct (f x), (f y); try apply perm_swap; apply Permutation_refl.
  - eapply Permutation_trans; eassumption.
Qed.

Lemma fits_perm p allocs allocs' old rq :
  Permutation allocs allocs' -> fits p allocs old rq -> fits p allocs' old rq.
Proof.
  intros Hp [Ho Ht]. split.
  - unfold fits_overall in *. unfold others in *.
    rewrite <- (total_perm _ _ (filter_perm _ _ _ Hp)). exact Ho.
  - intros l Hin Hm. specialize (Ht l Hin Hm). unfold fits_trait, with_trait, others in *.
    rewrite <- (total_perm _ _ (filter_perm _ _ _ (filter_perm _ _ _ Hp))). exact Ht.
Qed.

Lemma wf_inputs_perm p allocs allocs' rq :
  Permutation allocs allocs' -> wf_inputs p allocs rq -> wf_inputs p allocs' rq.
Proof.
  intros Hp (H1 & H2 & H3 & H4 & H5). repeat split; try assumption.
  rewrite Forall_forall in *. intros a Ha. apply H4. eapply Permutation_in; [apply Permutation_sym|]; eassumption.
Qed.

Theorem check_capacity_order_irrelevant tb p allocs allocs' old rq :
  table_is_canonical tb = true -> wf_inputs p allocs rq -> Permutation allocs allocs' ->
  check_capacity tb p allocs old rq = check_capacity tb p allocs' old rq.
Proof.
  intros Ht Hwf Hp. apply decision_by_fits; try assumption.
  - eapply wf_inputs_perm; eassumption.
  - split; apply fits_perm; [|apply Permutation_sym]; assumption.
Qed.

(** ** unit spellings: only the denoted quantities matter *)
Definition same_quantity (a b : res3) : Prop := val3 a = val3 b.

Fixpoint same_store (l l' : list alloc) : Prop :=
  match l, l' with
  | [], [] => True
  | a :: r, b :: r' => a_id a = a_id b /\ a_traits a = a_traits b /\ same_quantity (a_res a) (a_res b) /\ same_store r r'
  | _, _ => False
  end.

Lemma same_store_total_filter (f g : alloc -> bool) : forall l l',
  same_store l l' ->
  (forall a b, a_id a = a_id b -> a_traits a = a_traits b -> f a = f b /\ g a = g b) ->
  total (filter g (filter f l)) = total (filter g (filter f l')).
Proof.
  induction l as [|a r IH]; intros [|b r'] Hs Hfg; cbn in Hs; try contradiction; [reflexivity|].
  destruct Hs as (Hid & Htr & Hq & Hs). destruct (Hfg a b Hid Htr) as [Hf Hg].
  specialize (IH r' Hs Hfg). cbn [filter]. rewrite Hf. destruct (f b); [|exact IH].
  cbn [filter]. rewrite Hg. destruct (g b); [|exact IH].
  cbn [total]. cbv zeta. unfold same_quantity in Hq. rewrite Hq, IH. reflexivity.
Qed.

Lemma fits_spelling p p' allocs allocs' old rq rq' :
  same_quantity (p_res p) (p_res p') ->
  Forall2 (fun l l' => l_trait l = l_trait l' /\ same_quantity (l_res l) (l_res l')) (p_limits p) (p_limits p') ->
  same_store allocs allocs' ->
  same_quantity (q_res rq) (q_res rq') -> q_traits rq = q_traits rq' ->
  fits p allocs old rq -> fits p' allocs' old rq'.
Proof.
  intros Hp Hl Hs Hq Hqt [Ho Ht]. unfold same_quantity in *. split.
  - unfold fits_overall, others in *. rewrite <- Hp, <- Hq.
    pose proof (same_store_total_filter (fun a => negb (Z.eqb (a_id a) old)) (fun _ => true) allocs allocs' Hs) as E.
    assert (Hid : forall l : list alloc, filter (fun _ => true) l = l)
      by (induction l as [|x t IHt]; cbn; [|rewrite IHt]; reflexivity).
    rewrite !Hid in E. rewrite <- E; [exact Ho|].
    intros a b Ha _. rewrite Ha. split; reflexivity.
  - intros l' Hin' Hm'.
    assert (Hex : exists l, In l (p_limits p) /\ l_trait l = l_trait l' /\ val3 (l_res l) = val3 (l_res l')).
    { clear -Hl Hin'. induction Hl as [|x y lx ly [Hxy1 Hxy2] _ IH]; [contradiction|].
      destruct Hin' as [->|Hin'].
      - exists x. split; [left; reflexivity|split; assumption].
      - destruct (IH Hin') as (l & Hin & Hrest). exists l. split; [right; assumption|assumption]. }
    destruct Hex as (l & Hin & Hlt & Hlv).
    rewrite <- Hqt, <- Hlt in Hm'. specialize (Ht l Hin Hm').
    unfold fits_trait, with_trait, others in *. rewrite <- Hlv, <- Hq, <- Hlt.
    rewrite <- (same_store_total_filter (fun a => negb (Z.eqb (a_id a) old)) (fun a => mem_z (l_trait l) (a_traits a))
                  allocs allocs' Hs); [exact Ht|].
    intros a b Ha Hb. rewrite Ha, Hb. split; reflexivity.
Qed.

Lemma same_store_sym l : forall l', same_store l l' -> same_store l' l.
Proof.
  induction l as [|a r IH]; intros [|b r'] H; cbn in *; try contradiction; [exact I|].
  destruct H as (H1 & H2 & H3 & H4). unfold same_quantity in *. repeat split; try congruence. apply IH; assumption.
Qed.

Lemma Forall2_flip_limits ls ls' :
  Forall2 (fun l l' : limit => l_trait l = l_trait l' /\ same_quantity (l_res l) (l_res l')) ls ls' ->
  Forall2 (fun l l' : limit => l_trait l = l_trait l' /\ same_quantity (l_res l) (l_res l')) ls' ls.
Proof. induction 1 as [|x y lx ly [H1 H2] _ IH]; constructor; [split; unfold same_quantity in *; congruence|assumption]. Qed.

(** the same quantities under any well-formed spelling ("1G", "1024M", "1048576K", with or without '%') give the same decision *)
Theorem check_capacity_spelling_irrelevant tb p p' allocs allocs' old rq rq' :
  table_is_canonical tb = true -> wf_inputs p allocs rq -> wf_inputs p' allocs' rq' ->
  same_quantity (p_res p) (p_res p') ->
  Forall2 (fun l l' => l_trait l = l_trait l' /\ same_quantity (l_res l) (l_res l')) (p_limits p) (p_limits p') ->
  same_store allocs allocs' ->
  same_quantity (q_res rq) (q_res rq') -> q_traits rq = q_traits rq' ->
  check_capacity tb p allocs old rq = check_capacity tb p' allocs' old rq'.
Proof.
  intros Ht H1 H2 Hp Hl Hs Hq Hqt. apply decision_by_fits; try assumption. split.
  - apply fits_spelling; assumption.
  - apply fits_spelling; unfold same_quantity in *; try congruence.
    + apply Forall2_flip_limits; assumption.
    + apply same_store_sym; assumption.
Qed.

(** ** fewer promises never make a request fail *)
Lemma fits_drop p a allocs old rq :
  nonneg_res (a_res a) -> fits p (a :: allocs) old rq -> fits p allocs old rq.
Proof.
  intros Hn [Ho Ht]. unfold nonneg_res in Hn. split.
  - unfold fits_overall, others in *. cbn [filter] in Ho.
    destruct (negb (Z.eqb (a_id a) old)); [|exact Ho].
    cbn [total] in Ho. unfold nle, nsub in *. cbn in *. lia.
  - intros l Hin Hm. specialize (Ht l Hin Hm). unfold fits_trait, with_trait, others in *. cbn [filter] in Ht.
    destruct (negb (Z.eqb (a_id a) old)); [|exact Ht]. cbn [filter] in Ht.
    destruct (mem_z (l_trait l) (a_traits a)); [|exact Ht].
    cbn [total] in Ht. unfold nle, nsub in *. cbn in *. lia.
Qed.

Theorem check_capacity_drop_keeps_accept tb p a allocs old rq :
  table_is_canonical tb = true -> wf_inputs p (a :: allocs) rq -> nonneg_res (a_res a) ->
  check_capacity tb p (a :: allocs) old rq = Accept -> check_capacity tb p allocs old rq = Accept.
Proof.
  intros Ht Hwf Hn Hacc.
  assert (Hwf' : wf_inputs p allocs rq).
  { destruct Hwf as (H1 & H2 & H3 & H4 & H5). repeat split; try assumption. inversion H4; assumption. }
  destruct (check_capacity_sound_complete tb p (a :: allocs) old rq Ht Hwf) as (A1 & _ & _).
  destruct (check_capacity_sound_complete tb p allocs old rq Ht Hwf') as (A2 & _ & _).
  apply A2. eapply fits_drop; [eassumption|]. apply A1. exact Hacc.
Qed.

(** the reservation being replaced does not count against its own replacement, whatever it held *)
Theorem check_capacity_ignores_replaced tb p a a' allocs rq :
  table_is_canonical tb = true -> wf_inputs p (a :: allocs) rq -> wf_inputs p (a' :: allocs) rq ->
  a_id a' = a_id a ->
  check_capacity tb p (a :: allocs) (a_id a) rq = check_capacity tb p (a' :: allocs) (a_id a) rq.
Proof.
  intros Ht H1 H2 Hid. apply decision_by_fits; try assumption.
  unfold fits, fits_overall, fits_trait, others. cbn [filter]. rewrite Hid, Z.eqb_refl. cbn [negb]. reflexivity.
Qed.

(** ** a request that is not accepted changes nothing; an accepted one stores exactly what was asked *)
Theorem api_request_effect tb p allocs id rq :
  let '(allocs', o) := api_request tb p allocs id rq in
  (o <> Accept -> allocs' = allocs) /\
  (o = Accept -> allocs' = {| a_id := id; a_res := q_res rq; a_traits := q_traits rq |} :: others allocs id).
Proof.
  unfold api_request. destruct (check_capacity tb p allocs id rq); split; intros H; try reflexivity; try congruence.
Qed.
