#!/usr/bin/env python3
"""Seeded-change bookkeeping.

  tools/seeded.py import <src_dir> <id> <property> "<needs>"   copy patch.diff/demo.py/notes.txt into seeded/<id>/, confirm the
                                                               demo in a scratch worktree (passes without, fails with the patch)
  tools/seeded.py run <id> [...]                               apply the patch to /repo, run ./check <property>, undo, record
  tools/seeded.py table                                        print the detection table
"""
import json
import os
import shutil
import subprocess
import sys
import time

HERE = os.path.dirname(os.path.dirname(os.path.abspath(__file__)))
SEEDED = os.path.join(HERE, 'seeded')
PY = '/venv/bin/python'


def sh(cmd, cwd=None, timeout=1800, env=None):
    p = subprocess.run(cmd, shell=isinstance(cmd, str), cwd=cwd, stdout=subprocess.PIPE, stderr=subprocess.STDOUT,
                       text=True, timeout=timeout, env=env)
    return p.returncode, p.stdout


def cmd_import(src, sid, prop, needs):
    d = os.path.join(SEEDED, sid)
    os.makedirs(d, exist_ok=True)
    for fn in ('patch.diff', 'demo.py', 'notes.txt'):
        if os.path.exists(os.path.join(src, fn)):
            shutil.copy(os.path.join(src, fn), os.path.join(d, fn))
    wt = '/var/tmp/seedchk-%s' % sid
    sh('git -C /repo worktree remove --force %s' % wt)
    rc, out = sh('git -C /repo worktree add --detach %s HEAD' % wt)
    assert rc == 0, out
    try:
        env = dict(os.environ, PYTHONPATH=os.path.join(wt, 'lib', 'python'), PYTHONHASHSEED='0')
        demo = open(os.path.join(d, 'demo.py')).read()
        # demos were written against the agent's own worktree path: point them at the scratch copy
        import re
        demo_local = re.sub(r'/var/tmp/mut[0-9]*-[a-z0-9]+', wt, demo)
        os.makedirs(os.path.join(wt, '_out'), exist_ok=True)      # where the authors wrote and ran it
        with open(os.path.join(wt, '_out', 'demo.py'), 'w') as f:
            f.write(demo_local)
        rc0, out0 = sh([PY, '_out/demo.py'], cwd=wt, env=env, timeout=600)
        rca, outa = sh('git apply %s' % os.path.join(d, 'patch.diff'), cwd=wt)
        rc1, out1 = sh([PY, '_out/demo.py'], cwd=wt, env=env, timeout=600)
        rcs, outs = sh([PY, '-m', 'pytest', '-q', '-p', 'no:cacheprovider', '--timeout=900',
                        '--continue-on-collection-errors'], cwd=wt, env=env, timeout=900)
        tail = outs.strip().splitlines()[-1] if outs.strip() else ''
    finally:
        sh('git -C /repo worktree remove --force %s' % wt)
    meta = {'id': sid, 'property': prop, 'needs': needs,
            'confirmed': {'patch_applies': rca == 0, 'demo_rc_without_patch': rc0, 'demo_rc_with_patch': rc1,
                          'demo_output_with_patch': out1[-600:], 'suite_with_patch': tail,
                          'how': 'scratch worktree of /repo HEAD: demo.py run before and after `git apply patch.diff`; '
                                 'baseline suite command run with the patch'},
            'imported_at': time.strftime('%Y-%m-%d %H:%M:%S')}
    with open(os.path.join(d, 'meta.json'), 'w') as f:
        json.dump(meta, f, indent=1)
    ok = rca == 0 and rc0 == 0 and rc1 != 0 and ' 729 passed' in tail
    print('%s: applies=%s demo without=%d with=%d suite="%s" -> %s' % (sid, rca == 0, rc0, rc1, tail, 'KEEP' if ok else 'REJECT'))
    return ok


def cmd_run(sid, tier='quick'):
    d = os.path.join(SEEDED, sid)
    meta = json.load(open(os.path.join(d, 'meta.json')))
    prop = meta['property']
    # SEEDED_REPO=<a worktree of /repo at HEAD>: the patch goes there and the check reads it through VERIF_REPO, so /repo
    # itself stays as it is (other work may be reading it); without it the patch is applied to /repo and undone
    repo = os.environ.get('SEEDED_REPO', '/repo')
    rc, out = sh('git -C %s status --short' % repo)
    assert out.strip() == '', '%s is not clean: %s' % (repo, out)
    rc, out = sh('git -C %s apply %s' % (repo, os.path.join(d, 'patch.diff')))
    assert rc == 0, out
    t0 = time.time()
    env = dict(os.environ, VERIF_REPO=repo) if repo != '/repo' else None
    # the evidence file of the unchanged tree must not be replaced by the record of a run on a seeded change
    ev = os.path.join(HERE, 'evidence', '%s.json' % prop)
    ev_saved = open(ev).read() if os.path.exists(ev) else None
    try:
        rcc, outc = sh(['./check', prop, '--tier', tier], cwd=HERE, timeout=3000, env=env)
    finally:
        sh('git -C %s checkout -- .' % repo)
        if os.path.exists(ev):
            shutil.copy(ev, os.path.join(d, 'evidence_of_last_run.json'))
        if ev_saved is not None:
            with open(ev, 'w') as f:
                f.write(ev_saved)
    lines = [l for l in outc.splitlines() if l.startswith(('VIOLATION', 'BROKEN', 'KNOWN-FINDING', 'OK '))]
    sigs = []
    with_input = False
    broken = set()
    for l in lines:
        if l.startswith('VIOLATION') and 'replay=' in l:
            path = l.split('replay=')[1].split()[0]
            try:
                rp = json.load(open(path))
                if rp.get('kind') == 'failing-input' or rp.get('signature'):
                    with_input = True
                for b in rp.get('broken_obligations', []):
                    broken.add(b.get('name', '?'))
                sigs.append(rp.get('signature') or ('no-failing-input-found: ' + '; '.join(
                    b['name'] for b in rp.get('broken_obligations', []))))
            except Exception:
                pass
    meta.setdefault('runs', []).append({
        'when': time.strftime('%Y-%m-%d %H:%M:%S'), 'tier': tier, 'check_rc': rcc, 'wall_s': round(time.time() - t0, 1),
        'lines': [l[:300] for l in lines][:12], 'signatures': sorted(set(sigs)),
        'failing_input_found': with_input, 'broken_obligations': sorted(broken),
        'ran': 'git -C %s apply seeded/%s/patch.diff; %s./check %s --tier %s; git -C %s checkout -- .'
               % (repo, sid, ('VERIF_REPO=%s ' % repo) if env else '', prop, tier, repo)})
    meta['detected'] = rcc == 1 and any(l.startswith('VIOLATION') for l in lines)
    with open(os.path.join(d, 'meta.json'), 'w') as f:
        json.dump(meta, f, indent=1)
    print('%s (%s): rc=%d detected=%s %s' % (sid, prop, rcc, meta['detected'], sorted(set(sigs))[:4]))
    for l in lines[:6]:
        print('   ', l[:200])


def cmd_table():
    for sid in sorted(os.listdir(SEEDED)):
        mp = os.path.join(SEEDED, sid, 'meta.json')
        if not os.path.exists(mp):
            continue
        m = json.load(open(mp))
        last = (m.get('runs') or [{}])[-1]
        how = 'MISSED'
        if m.get('detected'):
            how = 'failing input' if last.get('failing_input_found', True) else 'broken obligation only'
        print('| %s | %s | %s | %s | %s | %s |' % (sid, m['property'], m['needs'][:80], how,
                                                  ', '.join(last.get('signatures', []))[:100],
                                                  ', '.join(last.get('broken_obligations', []))[:80]))


if __name__ == '__main__':
    a = sys.argv[1:]
    if a[0] == 'import':
        sys.exit(0 if cmd_import(a[1], a[2], a[3], a[4]) else 1)
    elif a[0] == 'run':
        tier = 'quick'
        ids = [x for x in a[1:] if not x.startswith('--')]
        if '--thorough' in a:
            tier = 'thorough'
        for sid in ids:
            cmd_run(sid, tier)
    elif a[0] == 'table':
        cmd_table()
