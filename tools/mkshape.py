#!/venv/bin/python
"""Record the statement skeletons of the functions the models were written from.

1. harness/shape_pins.json: for C09..C20 the functions overlapping the line ranges named in the property's anchors
   (properties.jsonl, `anchors.mechanism[].where` and `anchors.state[].where`), resolved on the BASE commit of /repo (the
   line numbers refer to it) and pinned by (file, qualified name). For C01..C08 the lists are written by hand in
   harness/tables_shape.py (PROP_FUNCS).
2. coq/theories/Base/ShapeCanon.v: canon_<function> lists and the per-property comparisons shapes_ok_Cxx against the lists
   regenerated on every run into Gen/Tables.v by harness/tables_shape.py.
3. shape_canon.txt: the readable tokens, for reviewing a difference.

Run by hand ONLY after a model and its proofs have been brought in line with a change of /repo (a repair); never by a
check.
"""
import ast
import json
import os
import re
import subprocess
import sys

HERE = os.path.dirname(os.path.dirname(os.path.abspath(__file__)))
sys.path.insert(0, HERE)
from harness import tables_shape as S, tables, gallina as G   # noqa

BASE = '2be003f'     # the snapshot commit the anchors' line numbers refer to


def base_src(rel):
    return subprocess.run(['git', '-C', tables.REPO, 'show', '%s:%s' % (BASE, rel)], check=True,
                          stdout=subprocess.PIPE, text=True).stdout


# functions of the anchored FILES that the line ranges do not reach but a check's oracle stage drives (added after a
# seeded change to one of them was missed by the shape tie)
EXTRA_PINS = {
    # where a declared affinity limit becomes the limit the placement guards compare with (thirteenth seeded round)
    'C04': [('treadmill/scheduler/__init__.py', 'Affinity.__init__')],
    'C02': [('treadmill/scheduler/__init__.py', 'Affinity.__init__')],
    'C03': [('treadmill/scheduler/loader.py', 'Loader.load_allocations'), ('treadmill/scheduler/loader.py', 'Loader.create_server'),
            ('treadmill/scheduler/loader.py', 'Loader.load_server'), ('treadmill/scheduler/loader.py', 'Loader.load_app'),
            ('treadmill/scheduler/loader.py', 'Loader.reload_server'), ('treadmill/scheduler/loader.py', 'Loader.set_server_valid_until')],
    'C05': [('treadmill/scheduler/loader.py', 'Loader.load_identity_groups'), ('treadmill/scheduler/loader.py', 'Loader.load_app')],
    'C06': [('treadmill/scheduler/loader.py', 'Loader.load_allocations')],
    'C08': [('treadmill/scheduler/loader.py', 'Loader.reload_server'), ('treadmill/scheduler/loader.py', 'Loader.load_server')],
    'C11': [('treadmill/scheduler/loader.py', 'Loader.load_servers'), ('treadmill/scheduler/loader.py', 'Loader.load_server'),
            ('treadmill/scheduler/loader.py', 'Loader.load_apps'), ('treadmill/scheduler/loader.py', 'Loader.load_identity_groups'),
            ('treadmill/scheduler/loader.py', 'Loader.load_servers_blacklist')],
    'C12': [('treadmill/eventmgr.py', 'EventMgr.run'), ('treadmill/fs/__init__.py', 'replace')],
    'C16': [('treadmill/services/_base_service.py', 'ResourceServiceClient.delete'),
            ('treadmill/services/_base_service.py', 'ResourceServiceClient.get'),
            ('treadmill/services/_base_service.py', 'ResourceServiceClient.wait')],
    'C17': [('treadmill/zkutils.py', 'create'), ('treadmill/zkutils.py', '_payload'), ('treadmill/zkutils.py', 'put')],
    'C18': [('treadmill/zkutils.py', 'create'), ('treadmill/zkutils.py', '_payload')],
    'C20': [('treadmill/scheduler/master.py', 'Master.process_scheduled'), ('treadmill/scheduler/master.py', 'Master._calculate_aggregate')],
    'C14': [('treadmill/vipfile.py', 'VipMgr.initialize'), ('treadmill/rulefile.py', 'RuleMgr.initialize'),
            ('treadmill/endpoints.py', 'EndpointsMgr.initialize'),
            ('treadmill/services/_base_service.py', 'ResourceService._on_created'),
            ('treadmill/services/_base_service.py', 'ResourceService._on_deleted'),
            ('treadmill/services/_base_service.py', 'ResourceService._check_requests'),
            ('treadmill/services/_linux_base_service.py', 'LinuxResourceService._run'),
            ('treadmill/services/_linux_base_service.py', '_update_request')],
}


def compute_pins():
    pins = {}
    for line in open(os.path.join(HERE, 'properties.jsonl')):
        p = json.loads(line)
        hand = p['id'] < 'C09'      # C01..C08: scheduler/__init__.py is pinned by hand (PROP_FUNCS), the anchors add
        keys = []                   # the Loader / Master functions they name
        wheres = [m['where'] for m in p['anchors'].get('mechanism', [])] + [m['where'] for m in p['anchors'].get('state', [])]
        for where in wheres:
            for part in where.split(';'):
                part = part.strip()
                m = re.match(r'^(lib/python/)?(\S+\.py):([\d,\- ]+)$', part)
                if not m:
                    continue
                rel = m.group(2)
                if hand and rel == S.SRC:
                    continue
                fns = S.functions_of(ast.parse(base_src('lib/python/' + rel)))
                for rng in m.group(3).split(','):
                    lo, _, hi = rng.strip().partition('-')
                    lo, hi = int(lo), int(hi or lo)
                    for qual, fn in fns.items():
                        if fn.lineno <= hi and fn.end_lineno >= lo and (rel, qual) not in keys:
                            keys.append((rel, qual))
        for k in EXTRA_PINS.get(p['id'], []):
            if k not in keys:
                keys.append(k)
        pins[p['id']] = keys
    return pins


def main():
    pins = compute_pins()
    with open(S.PINS_FILE, 'w') as f:
        json.dump({p: [list(k) for k in ks] for p, ks in sorted(pins.items())}, f, indent=1)
    sh = S.shapes()
    missing = [k for k, v in sh.items() if not v[0]]
    if missing:
        print('WARNING: pinned functions not found in the current tree (empty skeleton recorded):', missing)
    out = ['(* RECORDED by tools/mkshape.py when the models were brought in line with /repo - not regenerated by checks.',
           '   canon_<function>: statement skeleton (depth * 2^32 + crc32 of the normalised statement head) of a function the',
           '   models were written from; shapes_ok_Cxx compares them with the skeletons regenerated from the current source',
           '   (Gen/Tables.v, harness/tables_shape.py). Readable tokens: /verif/shape_canon.txt *)',
           'From Coq Require Import ZArith List Bool.',
           'From TM Require Import Gen.Tables.',
           'Import ListNotations.',
           'Open Scope Z_scope.',
           '',
           'Fixpoint zlist_eqb (a b : list Z) : bool :=',
           '  match a, b with',
           '  | [], [] => true',
           '  | x :: a\', y :: b\' => Z.eqb x y && zlist_eqb a\' b\'',
           '  | _, _ => false',
           '  end.',
           'Lemma zlist_eqb_eq a : forall b, zlist_eqb a b = true -> a = b.',
           'Proof.',
           '  induction a as [|x a IH]; intros [|y b]; cbn; try discriminate; [reflexivity|].',
           '  intros H. apply andb_true_iff in H as [H1 H2]. apply Z.eqb_eq in H1. rewrite H1, (IH b H2). reflexivity.',
           'Qed.',
           '']
    for key in S.all_keys():
        out.append('Definition canon_%s : list Z := %s.' % (S.ident(key), G.lst([G.z(v) for v in sh[key][0]])))
    out.append('')
    pk = S.prop_keys()
    for prop in sorted(pk):
        pairs = '; '.join('(shape_%s, canon_%s)' % (S.ident(k), S.ident(k)) for k in pk[prop])
        out.append('(* %s: %s *)' % (prop, ', '.join('%s:%s' % k for k in pk[prop])))
        out.append('Definition shapes_ok_%s : bool := forallb (fun p => zlist_eqb (fst p) (snd p)) [%s].' % (prop, pairs))
    # local variable names of every function of every file a translator reads (harness/tables_shape.restore_locals)
    from harness import tables as T
    if os.path.exists(S.LOCALS_FILE):
        os.unlink(S.LOCALS_FILE)
    S._LOCALS[0] = None
    T.SRC_SEEN.clear()
    T.generate()
    rec = {}
    for rel in sorted(T.SRC_SEEN):
        try:
            tree = ast.parse(open(os.path.join(T.PY, rel)).read())
        except (IOError, SyntaxError):
            continue
        rec[rel] = {q: S.locals_in_order(fn) for q, fn in S.functions_of(tree).items()}
    with open(S.LOCALS_FILE, 'w') as f:
        json.dump(rec, f, indent=0, sort_keys=True)
    S._LOCALS[0] = None
    print('recorded local names of %d functions in %d files' % (sum(len(v) for v in rec.values()), len(rec)))
    with open(os.path.join(HERE, 'coq', 'theories', 'Base', 'ShapeCanon.v'), 'w') as f:
        f.write('\n'.join(out) + '\n')
    with open(os.path.join(HERE, 'shape_canon.txt'), 'w') as f:
        for key in S.all_keys():
            f.write('== %s:%s\n' % key)
            for d, t in sh[key][1]:
                f.write('%s%s\n' % ('    ' * d, t))
    for prop in sorted(pk):
        print(prop, len(pk[prop]), 'functions,', sum(len(sh[k][0]) for k in pk[prop]), 'statements')


if __name__ == '__main__':
    main()
