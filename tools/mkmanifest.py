#!/usr/bin/env python3
"""Regenerate MANIFEST.json from the table below (kept here so the manifest stays valid and uniform)."""
import json
import os

HERE = os.path.dirname(os.path.dirname(os.path.abspath(__file__)))

CLAIMED = {
    'C19': dict(
        engine='E-api',
        text='Rocq theorems C19_sound_complete (accept <-> fits overall and every limited trait; reject <-> not; '
             'never a service failure) and C19_sequences (any request sequence keeps the partition within '
             'capacity), C19_order_irrelevant / C19_spelling_irrelevant / C19_replaced_ignored / '
             'C19_fewer_promises_keep_accept / C19_request_effect (the decision depends only on the quantities and the '
             'set of other reservations), proved for every partition, reservation set and request; the dataflow of '
             '_calc_free/_calc_free_traits/_check_limit is regenerated from the Python AST on every run and must '
             'be the canonical one (C19_table_is_canonical by vm_compute); _check_capacity control flow tied by '
             'differential execution of model (vm_compute) and implementation on generated cases, each well-formed case '
             'also in a re-ordered, a re-spelled and a replaced-reservation variant.',
        note='Coq kernel; translator harness/tables.py; structured spellings stand for strings; fake admin objects '
             'for LDAP; inputs well-formed as the REST schema admits.',
        technique='Rocq proof over AST-regenerated dataflow table + differential correspondence (cases.v/vm_compute)',
        ref='DESIGN.md section 7 C19'),
}

CLAIMED['C20'] = dict(
    engine='E-mon',
    text='Rocq theorems over the executable model Mon/AppMon.v, for every state satisfying the invariant and every '
         'unbounded event history with an advancing clock. Per evaluation: created = min(missing, floor(available)) '
         '<= both bounds, 0 <= available <= 2*count, deletes are exactly the surplus prefix (fifo/none) or suffix '
         '(lifo) and oldest/newest on the sorted list, at most one REST call per application (never create+delete), '
         'nothing for suspended/removed monitors, tokens deducted for successful creations only '
         '(C20_create_bounded/_complete, C20_delete_exact/_complete/_oldest_or_newest, C20_one_call_per_app, '
         'C20_inactive_no_action, C20_tokens_after). Histories: C20_invariant, C20_budget (created <= available(t0) '
         '+ 2*count/3600*(t1-t0) while the monitor is not reconfigured), C20_removed_no_action. Constants '
         'regenerated from the Python AST each run (C20_constants_canonical by vm_compute). Model tied by '
         'differential execution of the real _run_sync loop (vm_compute over cases files). Instance API quotas '
         '(third anchored mechanism; sub-agent): Api/Quota.v + Props/C20Quota.v, 18 theorems - accepted iff total + '
         'count and proid + count stay within the quotas (C20Q_accept_iff), the error order, for every sequence of '
         'requests the stats updated by exactly the accepted creates stay within both quotas (C20Q_invariant), with '
         'the master\'s aggregation the real /scheduled population does (C20Q_system_invariant), and the bound on what '
         'stale stats allow (C20Q_stale_partial, refuted witnesses); constants and statement shapes re-extracted every '
         'run; correspondence through the real API().create.',
    note='Coq kernel; translator tables_c20.py; fakes for ZooKeeper/time/cell API/alerts; tokens compared on the '
         'integer lattice 1/(_INTERVAL*tps), float-ambiguous cases skipped and counted; scheduled list as read by '
         'each evaluation (watch lag = environment); no concurrent watch callbacks; alert_f total; wait-time values '
         'not modelled; the rsrc_id regexes of the API are pinned textually, not modelled; budget theorem per '
         'configuration epoch.',
    technique='Rocq proof (induction over event histories, scaled-integer token bucket) over AST-regenerated '
              'constants + differential correspondence of the real _run_sync loop (cases.v/vm_compute)',
    ref='DESIGN.md section 7 C20')

SCHED_NOTE = ('Coq kernel; hand-written model Sched/*.v of treadmill.scheduler tied by per-operation digest '
              'correspondence on generated histories (E-cell); set.pop() choices fed from the implementation; exact '
              'rationals for utilisation with the x+eps case split; virtual clock; integer vectors of dimension 3; '
              'SpreadStrategy only. Loader/Master glue in front of the scheduler: oracle-only master-level stage '
              '(harness/mprobe.py: every cycle of the real Master on E-master histories is recorded as E-cell records one '
              'and judged by the same oracle, against the attributes DECLARED in the store, parsed by the harness itself).')
CLAIMED['C06'] = dict(
    engine='E-cell',
    text='Rocq theorems for every allocation tree (any depth) and population: C06_perm/C06_each_once (each instance '
         'of the partition considered exactly once), C06_rank_mono (ranks non-decreasing along the queue, given '
         'rank_adjustment >= 0, priorities >= 0, non-negative demands and reservations), C06_alloc_order (inside an '
         'allocation: priority, running before pending, first-come), C06_rank_decision + C06_boost + C06_cap (boosted '
         'rank <=> utilisation before the instance negative and within the cap; unplaced rank <=> utilisation after '
         'exceeds cap-1); C06_merge_keeps_order (for every allocation at any depth of the tree its own instances appear '
         'in the final queue in exactly their private app-key order: the parent merges never reorder them), '
         'C06_alloc_order_before, C06_zero_last (priority-0 instances come after all others of the same rank, at every '
         'depth); scheduler constants regenerated from the source (C06_constants). Every clause of the statement is '
         'now a theorem on the model.',
    note=SCHED_NOTE,
    technique='Rocq proof (induction over the nested allocation tree, k-way merge lemmas) + per-operation digest '
              'correspondence of the real scheduler objects (cases.v/vm_compute)',
    ref='DESIGN.md section 7 C06')

CLAIMED['C01'] = dict(
    engine='E-cell',
    text='Rocq theorems for all histories of cell events and cycles, any number of servers/instances, any dimension: '
         'C01_invariant (every state reachable from the empty cell by well-formed events satisfies the accounting '
         'invariant), C01_cycle (one cycle from ANY state satisfying it, for any identity choices), C01_accounting '
         '(per server: free + summed demand = capacity componentwise and free >= 0, hence no dimension '
         'oversubscribed), C01_views (a server lists exactly the instances that name it, without repetition; an '
         'instance is listed by at most one server). Proof: Sched/Steps.v reduces a whole cycle (pre-phases, queue, '
         'placement loop with eviction, restore, renewal) to eight primitive transitions; Sched/InvAcct.v proves the '
         'invariant for each primitive and each event. Unit spellings: Props/C01Units.v (17 theorems over a '
         'string-level model of utils.cpu_units/size_to_bytes/kilobytes/megabytes and loader.resources: nG = 1024n M, '
         'nT = 1024^2 n M, the B modifier = powers of 1000, every suffix in any letter case between blanks, n% = n, '
         'same quantity => same resource vector; scale table, multipliers and the parser assignment of resources() '
         'regenerated from the source every run, premise C01U_tables_ok by vm_compute). Loader level: '
         'C01_reload_keeps_only_identical (reload_server keeps the running Server object only for an identical '
         'declaration - exact capacity, label, traits, parent; model Master/SrvState.v same_decl, whose decision drives '
         'the correspondence stage shared with C08); C01_reload_server (third session, Sched/ReloadP.v: the reload of '
         'a server that is not identical - Loader.remove_server, load_server, restore_placement of the placements '
         'recorded under it - is a run of the operations ORemoveServer, OAddServer, ORestore whose side conditions '
         'follow from the call site, so the accounting invariant and every other invariant of a reachable state hold '
         'afterwards whatever the new capacity is and whichever recorded instances still fit) plus an oracle stage on '
         'the real Master (views, sums, the object\'s capacity against the server\'s declared record, and the statement '
         'on what the master published: the instances recorded under /placement/<server> fit the declared capacity '
         'and none is recorded under two servers).',
    note=SCHED_NOTE + ' Hypotheses of C01_invariant (wf_ops): a new server has a fresh name, non-negative capacity of '
         'the cell\'s dimension and is not named by a stale instance; a new instance is unplaced with a non-negative '
         'demand of that dimension.',
    technique='Rocq proof (inductive invariant over primitive transitions of the cycle; induction over histories) + '
              'per-operation digest correspondence of the real scheduler objects (cases.v/vm_compute)',
    ref='DESIGN.md section 7 C01')

NODE = {}
CLAIMED['C12'] = dict(
    engine='E-node',
    text='Rocq theorems C12_names/C12_present/C12_content/C12_kept (a completed synchronisation mirrors the placement '
         'list; written files = manifest + task + placement data), C12_atomic (every crash point of write_safe\'s '
         'syscall list) and C12_sync_atomic (every outcome of the whole synchronisation: visible entries are old, '
         'removed-unplaced, or complete new; temp names hidden from glob * and from the manager), for all prior '
         'cache contents, placement lists, ZooKeeper states, iteration orders and fault points; source constants and '
         'the write_safe call order regenerated from the AST each run (C12_source_constants); control flow tied by '
         'differential execution of the real code with fault injection (exception and process kill). Start-up stage '
         '(after a seeded change to EventMgr.run was missed): the real run(once=True) against a kazoo fake whose '
         'watches fire on registration, the statement evaluated for the start-up synchronisation (check_existing); '
         'EventMgr.run is part of the source-shape tie. Readers holding a published entry open across the '
         'synchronisation observe whether any update writes through the existing inode (fs.replace must rename).',
    note='Atomicity of rename(2) and absence of torn reads are the definition of the file-system model; no durability '
         'claim (fsync=False); YAML as a sorted token list; kazoo fake; placed names non-dot, manifests are mappings, '
         'single writer.',
    technique='Rocq proof over executable model + AST-regenerated constants + differential correspondence with '
              'syscall-level fault injection',
    ref='DESIGN.md section 7 C12')
CLAIMED['C13'] = dict(
    engine='E-node',
    text='Rocq, for all event sequences (every reachable state, every iteration order), on the code repaired by the '
         'fix: commits b126fcb/dd3f365/97f6b62: C13_unchanged_stays (an unchanged running container is left running by '
         'every handler call, including stale deleted events and a resynchronisation with several generations), '
         'C13_no_restart_finished (a container with exitinfo/aborted/oom that is not running is started by no handler '
         'call), C13_sync_running (after a resynchronisation the running link of every instance is exactly '
         'expected_running), C13_sync_configures_new, C13_gone_to_cleanup_event/_sync, C13_one_link_partial '
         '(link-shape invariant). "At most one link" is refuted by the naming mismatch (C13_one_link_refuted, known '
         'finding D1) and a finished container is re-created after its cleanup while the placement exists '
         '(C13_finished_recreated_refuted, known finding D5). Stage c13names: separate interpreter processes (different '
         'hash salts, as on a real manager restart) must give the same container name to the same cache file.',
    note='Links as finite maps; unique names as (instance, file id) (C15); handler calls atomic; inotify simulated as a '
         'FIFO; configure/supervisor/runtime stubbed; supervisor reactions and delivery points are inputs; '
         'C13_gone_to_cleanup_sync assumes the cached generation\'s directory does not exist yet.',
    technique='Rocq proof (invariant by induction over op sequences, per-instance projection of _synchronize) + '
              'refutation witnesses by vm_compute + differential correspondence after every op',
    ref='DESIGN.md section 7 C13')
CLAIMED['C14'] = dict(
    engine='E-own',
    text='Rocq theorems over all operation sequences of an executable model of VipMgr/RuleMgr/EndpointsMgr/'
         'NetworkResourceService (induction over the op list; 12 theorems, closed under the global context): '
         'C14_exclusive, C14_no_takeover, C14_in_network, C14_hosts_only, C14_alloc_returns, C14_owner_only_release, '
         'C14_entry_survives, C14_nonowner_release_noop, C14_gc_exact, C14_sync_frees_stale, C14_reuse, '
         'C14_service_consistent; tied to the source on every run by differential execution of the real classes on '
         'real temporary directories after every operation. Pools sharing one directory (after a seeded change to '
         'VipMgr.initialize was missed): oracle-only stage with two or three real VipMgr pools over one directory '
         '(harness/props/c14init.py); the three initialize() are part of the source-shape tie. Framework stage '
         '(harness/props/c14frame.py, after a seeded change to ResourceService._on_created was missed): the real '
         'LinuxResourceService._run (start-up replay, poll loop over real inotify) with the real '
         'ResourceServiceClient and NetworkResourceService; the statement evaluated at every quiescent point. Framework model '
         '(sub-agent): Node/SvcFrame.v + Props/C14Frame.v - the framework as a producer of service schedules; the start-up '
         'replays exactly the replayable requests once each (C14F_startup_replays_*), every framework history is guarded '
         '(C14F_frame_run_guarded), hence C14F_service_consistent = C14_service_consistent without its premise; client '
         'laws; translator section svcframe; call-log correspondence with the real framework.',
    note='exclusivity under true concurrency rests on symlink(2) EEXIST (model definition); service-level consistency '
         'is claimed for the schedules services/_base_service.py produces (guarded in the model, exercised for real by '
         'the framework stage); netdev/iptables are recording '
         'fakes; the tie is sampled (240 / 10 000 op sequences), not a translation.',
    technique='Rocq proof (induction over op sequences) + differential correspondence (cases.v + vm_compute) + '
              'property oracle on directory listings',
    ref='DESIGN.md section 7 C14')
CLAIMED['C16'] = dict(
    engine='E-own',
    text='Rocq theorems for all manifests and all interleavings about registration programs extracted from the Python '
         'AST of _unshare_network/_cleanup_network on every run: C16_symmetric (finish(start h) = h exactly, h fresh), '
         'C16_idempotent, C16_others_untouched / C16_start_others_untouched, C16_interleaving, '
         'C16_port_ranges_disjoint, under the computational premise C16_templates_match discharged by vm_compute on '
         'the generated table; interpreter tied by differential execution of the real functions on real rule/endpoint '
         'directories. Port allocation (third anchored mechanism; sub-agent): Node/Ports.v + Props/C16Ports.v, 22 '
         'theorems over runtime._allocate_sockets / _allocate_network_ports_proto / allocate_network_ports with the '
         'sampled order and the busy set as inputs - ports of one protocol pairwise distinct, free and in the pool of '
         'the manifest\'s environment, prod and non-prod pools disjoint, named endpoints first in manifest order, '
         'port 0 replaced by the real port, exact error condition incl. the off-by-one of the for-else '
         '(C16P_exactly_enough_boundary); constants and shapes re-extracted every run; correspondence through the '
         'real function with a fake socket module. The network client is the real ResourceServiceClient over a real '
         'service directory (only the daemon\'s answer is written by the harness).',
    note='DNS assumed stable between start and finish; ip-sets/resolver/newnet are fakes, the network daemon is the harness; statements the '
         'translator classifies as irrelevant (plugin, newnet, conntrack) are trusted; ~7% of generated cases skipped '
         'as order-ambiguous (passthrough set iteration).',
    technique='Rocq proof + AST-extracted registration programs (premise templates_match by vm_compute) + '
              'differential correspondence + property oracle',
    ref='DESIGN.md section 7 C16')
CLAIMED['C17'] = dict(
    engine='E-zk',
    text='Rocq theorems by inductive invariant over all interleavings of an executable small-step model (N clients, '
         'requests at arbitrary points, session expiry and restart, arbitrary possibly-stale initial state): C17_safe '
         '(every set/delete finds the node owned by the caller\'s own session; creates make own-session ephemeral '
         'nodes), C17_delete_own_only (every call of a delete request is on a path registered for that container), '
         'C17_newer_kept (a path re-registered by a newer container is not visited by the old container\'s clean-up); '
         'tied to the code by running the real PresenceResourceService as concurrent clients against a shared '
         'in-memory ZooKeeper with seed-chosen schedules (ZooKeeper calls made from a watch callback run in place, '
         'where the deleting client\'s step fires it). Second stage (Node/EpPresence.v, built by a sub-agent): '
         'presence.EndpointPresence register/unregister_* and trace.app.zk._unschedule for all node tables and all '
         'operation lists by any number of hosts: C17_ep_unregister_*_exact (what each call deletes: the node of its own '
         'host and nothing else), C17_ep_foreign_nodes_survive, C17_ep_newer_elsewhere_kept, '
         'C17_ep_cleanup_elsewhere_keeps_newer (the late clean-up of an old container on host A leaves the nodes of the '
         'newer one on host B), C17_ep_unschedule_exact, C17_ep_stale_events_keep_scheduled; boundaries of hostname '
         'ownership stated with witnesses (C17_ep_same_host_newer_refuted, C17_ep_port_not_compared, '
         'C17_ep_check_then_act_witness); tied by its own correspondence stage on the real methods.',
    note='ZooKeeper session semantics and process exit on session loss are assumptions; no session re-establishment '
         'inside a request; no external deleter; one call of EndpointPresence.unregister_* / _unschedule is one atomic '
         'step in the model (in the code get-then-delete are two ZooKeeper calls: C17_ep_check_then_act_witness); host '
         'names non-empty, without colon.',
    technique='Rocq proof (inductive invariant over a small-step interleaving model) + schedule-controlled '
              'differential correspondence (baton-passing threads yielding at every ZooKeeper call) + ownership oracle',
    ref='DESIGN.md section 7 C17')
CLAIMED['C18'] = dict(
    engine='E-zk',
    text='Rocq theorems over an executable model of the archiver as ordered ZooKeeper write lists, for all shard '
         'populations and every crash cut: C18_lossless, C18_retrievable, C18_selection, C18_partial_batch, '
         'C18_lossless_finished, C18_selection_finished, C18_prune, C18_prune_complete, C18_download, C18_server, '
         'C18_server_terminates, C18_payload_not_archived; the model is tied to the code by differential execution of '
         'the real cleanup functions with a fault injected at every write and snapshots read back with sqlite3 (an upload '
         'that cannot be decompressed and opened archives nothing: snapshot-unreadable).',
    note='sqlite/zlib as an unordered list of rows; GLOB as first-field equality; ZooKeeper sequence/atomic-write '
         'semantics; batch_size >= 1; single archiver; "event" means the node name (payloads are not archived).',
    technique='Rocq proof (prefix-closed covered predicate over write lists) + per-cut differential correspondence '
              'against an in-memory kazoo fake with sqlite read-back + oracle',
    ref='DESIGN.md section 7 C18')

CLAIMED['C05'] = dict(
    engine='E-cell',
    text=('Rocq theorems for all histories of events and cycles and all identity choices (set.pop nondeterminism): '
         'C05_end_of_cycle (after EVERY cycle of EVERY history: an instance that is not placed holds no identity, a '
         'placed instance of a group holds one, every held identity is in [0,count) of the current group size), '
         'C05_invariant / C05_cycle (identity invariant in every reachable state / kept by any cycle), C05_unique (no '
         'two instances of a group hold one identity), C05_offer_sound (every identity on offer is in [0,count) and '
         'held by nobody), C05_held_nonneg, C05_cycle_spec. The proof covers every path of the placement loop (skips, '
         'over-cap removal, renewal and its restore, eviction and its restore, infeasible shapes, schedule-once) and '
         'the four phases before it; proving it for renewals exposed the defect repaired by fix: 7bb39c9; earlier '
         'repairs 05b28ff, 892e28c, d5e1071 (known_findings.json). Loader side (third session): the operation '
         'ORestore models Loader.restore_placement for one recorded instance (Server.restore or Server.put, then '
         'Application.force_set_identity; a schedule-once instance that cannot be put back is removed) and is part of '
         'the alphabet of `reachable`, so every theorem above covers states reached through the loader; '
         'C05_loader_restore (all invariants kept when the recorded identity is held by no other instance of the '
         'group and a group instance has or is given one), C05_forced_duplicate_refuted (the proviso is needed). The '
         'E-cell generator plays the operation (reload scenario and restart-style restores) against the real '
         'Server.restore / Server.put / force_set_identity. Master-level stage (after a seeded change to '
         'Loader.load_identity_groups was missed): E-master histories of identity-group events - also two in a row with '
         'no cycle in between - and restarts on the real Master; the statement is evaluated on its cell and on the '
         'identity fields it published after every cycle (oracle-only).'),
    note=SCHED_NOTE + ' Hypotheses of the all-histories theorems (wf_ops_all): a new server or instance has a fresh name and vectors of '
         'the cell dimension, a new instance record is not placed and holds no identity, configured counts are '
         'non-negative; a restore names an attached server and an instance that is on no server, a recorded identity '
         'is held by no other instance of the group.',
    technique=('Rocq proof (per-turn specification of the placement loop, loop invariant, partition composition, '
              'allocation-tree and identity invariants over all histories, quantified over identity choices) + '
              'per-operation digest correspondence (cases.v/vm_compute) + oracle'),
    ref='DESIGN.md section 7 C05')
MASTER_NOTE = ('Coq kernel; translator tables_c10.py; in-memory Backend (put overwrites and keeps ctime, delete '
               'recursive, no-op on a missing node); crash = prefix of the write list (checked against a real '
               'injected raise per history); virtual clock; watches, threads and election not modelled; set iteration '
               'order inside an init_schedule block fed from the implementation; at most 4 servers.')
CLAIMED['C10'] = dict(
    engine='E-master',
    text='Rocq theorems over the executable publication model Master/Publish.v, for every tuple list, store and crash '
         'point: C10_crash_no_double (no instance under two servers after any prefix of Master.reschedule\'s write '
         'list, given the store held nothing for a listed instance outside its before-server), '
         'C10_published_after_all_writes, C10_integrity_on_clean_store/_sound/_delete_only, '
         'C10_restart_drops_duplicates; loop order, guards and filter re-extracted from master.py\'s AST every run '
         '(C10_source_shape). After the fix: commits 37cf11c/d07e20b/42a0d7f: C10_init_crash_no_double (every prefix of '
         'init_schedule\'s writes is double-free), C10_integrity_repair_then_pass; within_before is necessary '
         '(C10_stale_entry_refuted, the remaining known finding). That the real handlers keep within_before, and that a restarted master '
         'completes on every cut, is decided by E-master: every write of every publication of every generated '
         'history is a crash point followed by a fresh Master on a copy of the store.',
    note=MASTER_NOTE,
    technique='Rocq proof (induction over the two-pass write list) over AST-regenerated publication shape + '
              'exhaustive crash-point enumeration on the real Master + differential correspondence of write lists',
    ref='DESIGN.md section 7 C10')
CLAIMED['C09'] = dict(
    engine='E-master',
    text='Rocq theorems C09_publication / C09_published_equals_model (after Master.reschedule the store equals the '
         'model\'s placement node by node - server, identity, identity_count, expires - and nothing else is touched) '
         'and C09_startup_content (after init_schedule every node of the model carries the current data), for all tuple lists and stores, under the two stated hypotheses tying the store to '
         'what the cycle read (within_before, unchanged_published), each shown necessary by a _refuted witness; '
         'publication shape re-extracted from the AST each run. Between cycles (third session, sub-agent): '
         'Master/Handlers.v + Props/C09Handlers.v model the Master\'s event handlers at the same abstraction (13 '
         'operations incl. cycle, integrity check and restart); C09H_invariant_all_histories (the invariant "every entry '
         'is the model\'s placement with its published data" is kept by every operation except the uses listed as known '
         'findings), C09H_hypotheses_hold_at_next_cycle (it yields within_before and unchanged_published) and '
         'C09H_published_equals_model_all_histories (published = model after every cycle of every history over the '
         'sound operations); the known exceptions are C09H_*_refuted witnesses in the same alphabet. Every hop of an '
         'E-master history is compared with the model\'s state and the invariant is evaluated on the real snapshots '
         '(harness/props/c09handlers.py); the oracle on the real Master (content of every node compared with '
         'Master.cell after every cycle and restart) and the write-list correspondence remain. The store writes themselves '
         '(sub-agent): Store/ZkUtils.v + Props/C09Zk.v model zkutils.create/put/update/ensure_exists/ensure_deleted/'
         '_payload and the ZkBackend methods over a ZooKeeper tree with versions, ephemeral flags and sequence counters '
         '(C09Z_create_existing_raises, C09Z_put_same_payload_no_write, C09Z_put_existing_then_get, '
         'C09Z_payload_bytes_verbatim, C09Z_backend_put_existing_is_map_update, ...); the catch-and-retry structure is '
         're-extracted each run (C09Z_tables_ok); the real functions run on the real ZkClient against a wire-level '
         'server fake, result and whole tree compared after every operation.',
    note=MASTER_NOTE + ' Every cycle preceded by a Tick of at least 1 s; identity_count is not part of the statement.',
    technique='Rocq proof over AST-regenerated publication shape + content oracle on the real Master over an '
              'in-memory backend + differential correspondence (cases.v/vm_compute)',
    ref='DESIGN.md section 7 C09')
CLAIMED['C11'] = dict(
    engine='E-master',
    text='Rocq theorems on the scheduler model: C11_reload_one_server (after all nodes of a server are processed, every '
         'node healthy at its turn - instance scheduled, presence not younger than the node, Sched srv_restore accepts '
         'it - is on that server with the recorded expiry and identity), C11_reload_touches_nothing_else (nothing '
         'unrecorded is placed), the decision table of restore_placement (C11_healthy_restored_verbatim, '
         '_restore_never_invents, _nothing_unrecorded, _rebooted_server_not_verbatim) and C11_duplicates_dropped. '
         'Composition over Loader.servers (Master/RestoreAll*.v, RestoreDupP.v, built by a sub-agent): '
         'C11_reload_all_servers (every node healthy at its turn whose instance is recorded under no other server ends '
         'on its server with the recorded expiry and identity; an instance with no node anywhere is untouched; the '
         'pairs handed to the duplicate pass are exactly the restored ones), C11_restore_placements_healthy / '
         '_nothing_unrecorded (the same after the duplicate pass), C11_duplicate_removed_from_both (an instance '
         'restored under two servers ends on no server, is listed by neither, both nodes are deleted), '
         'C11_reload_accounting (after the whole load every server\'s free vector and affinity counters match what it '
         'lists), C11_remove_all_idle. The master-level model now performs the second put of a doubly recorded '
         'instance as Python does (the scheduler model\'s put_guard refuses an already placed instance; '
         'restore_placements is the one call site where that matters). Bridge to the scheduler\'s operation '
         'alphabet (third session, Master/RestoreBridge.v): for a store recording no instance under two servers the '
         'first loop of restore_placements IS a run of ORestore operations, one per placement node '
         '(C11_restore_is_a_run), so the rebuilt cell is a reachable state of the scheduler model when the cell before '
         'the restore is (C11_rebuilt_cell_reachable) and the end-of-cycle theorems apply to the first cycle after a '
         'fail-over (C11_first_cycle_after_failover). The whole of load_model (third session, sub-agent, '
         'Master/LoadModel.v + Props/C11Load.v, 13 theorems): from a snapshot of the store (buckets, servers with '
         'presence and recorded state, allocations, instances with their manifests, identity groups, placement nodes) '
         'to a list of operations of the scheduler model; C11M_load_model_is_a_run (the per-record loader models '
         'followed by restore_placements equal run init (load_model_ops st)), C11M_loaded_cell_reachable / _Good (the '
         'cell a starting master builds is reachable from the EMPTY cell - no hypothesis on an earlier in-memory '
         'state), C11M_store_conditions (side conditions checkable on the snapshot: distinct names, parsable vectors, '
         'each instance under at most one placement node, an identity recorded exactly for group members, no '
         '(group, identity) recorded twice), C11M_first_cycle_identities / _new_assignment. Correspondence stage: the '
         'canonical dump of the real Master.cell right after load_model() against the dump of the model run, on '
         'E-master restarts and directly generated stores (harness/props/c11load.py). Inputs of that model rather '
         'than modelled: the fnmatch decisions of find_assignment / _is_blacklisted, the valid_until that Partition.add '
         'assigns, the clock. The read side of the store (fourth session): the zkutils / ZkBackend stage of C09 '
         '(Store/ZkUtils.v, Props/C09Zk.v) also runs here - what ZkBackend.get / get_default / '
         'ZkReadonlyBackend.get_with_metadata decode from a stored record is the record (E-master replaces the backend '
         'by an in-memory one, so this is the only place the real read path is exercised).',
    note=MASTER_NOTE + ' Server.restore/put answers are taken from the implementation in the correspondence and from '
         'Sched/Tree.v in RestoreSchedP.v; the oracle skips over-committed servers and doubly recorded instances.',
    technique='Rocq proof (frame lemmas over Sched primitives, fold over a server\'s nodes) + oracle and '
              'differential correspondence on the real Loader',
    ref='DESIGN.md section 7 C11')
CLAIMED['C15'] = dict(
    engine='E-codec',
    text='Rocq theorems per codec, for all inputs of the stated domains: base-N round trip and injectivity for every '
         'duplicate-free alphabet; 13-character unique ids for every seed below 2^77 and the unique-name round trip; '
         'from_data(to_data e)=e for all 13 trace event classes plus event-node names; get_rule(_filenameify r)=r '
         'for DNAT/SNAT/PassThrough on the regex domain; json/ZooKeeper payload round trip up to dict order with '
         'None<->empty payload; schema-generic LDAP entry store/load normal form for the 15 generated schemas; and '
         '_diff_entries applied to old yields new. Alphabets, templates, regex texts, enum tables and schemas are '
         'regenerated from the source every run and checked by vm_compute; function behaviour is tied by '
         'differential execution of model and implementation on structured and malformed streams. Per-class LDAP '
         'wrappers (third session, sub-agent): Codec/LdapCls.v + Props/C15Ldap.v, 24 theorems - the option-indexed '
         'list codec reads any set of distinctly named option groups as the sorted normal forms whatever the indices '
         '(C15L_option_list_read / _roundtrip), and from_entry(_remove_empty(to_entry x)) = nf x with nf idempotent '
         'for all nine classes (Server, DNS, AppGroup, Tenant, Allocation, Cell, CellAllocation, Partition, '
         'Application) on the typed domain; 28 schema tables and 60 constants regenerated from the source '
         '(C15L_tables_ok); the lossy places outside the typed domain are _refuted witnesses; own correspondence '
         'stage and oracle (harness/props/c15ldap.py).',
    note='Partial theorem for events: why=None of pending/pending_delete/aborted is a known finding, with a refuted '
         'witness. LDAP: from_entry is modelled without a dn (the _id of CellAllocation and the partition/cell keys of '
         'Partition come from the dn); float is modelled for plain decimal numerals only. ASCII-only regex and int() '
         'models; floats, surrogates and the YAML fallback are outside the JSON model; the LDAP server is modelled as '
         '_remove_empty plus ADD/REPLACE/DELETE; Python string/format semantics are modelled.',
    technique='Rocq proof over source-regenerated tables (module values plus fail-closed AST extraction) with '
              'computational table checks + differential correspondence (cases.v/vm_compute, 20 case kinds) + '
              'round-trip/injectivity oracle',
    ref='DESIGN.md section 7 C15')

CLAIMED['C04'] = dict(
    engine='E-cell',
    text=('Rocq theorems for all histories of events and cycles in which instances of one affinity declare the same limits '
         '(the property\'s own proviso): C04_invariant / C04_cycle, C04_server_counts, C04_server_limit (no server holds '
         'more instances of an affinity than they allow at server level); C04_bucket_counts / C04_cell_counts / '
         'C04_counts_cycle: in every reachable state the affinity counter kept by EVERY bucket (rack, pod, cell) equals '
         'the number of instances of that affinity placed on the servers below it, through topology changes and every '
         'path of a cycle - so "the per-node affinity counts equal the true counts" is a theorem at every level. '
         'C04_levels_refuted: machine-checked witness that limits above server level are exceeded through the eviction '
         'path on the code as it is (known finding, TODO in the source); limits above server level are therefore decided '
         'by the correspondence and the recount oracle, every violation found goes through a direct put or a topology '
         'change under load and is listed in known_findings.json.'),
    note=SCHED_NOTE + ' Hypotheses (wf_ops_aff): those of C01 plus: a new instance declares the same limits as the '
         'existing instances of its affinity.',
    technique=('Rocq proof (inductive invariants over primitive transitions; bucket counters by a finer step relation and the '
              'exact effect of the upward counter walk) + refutation witness + per-operation digest correspondence + '
              'oracle'),
    ref='DESIGN.md section 7 C04')
CLAIMED['C03'] = dict(
    engine='E-cell',
    text=('Rocq theorems on the model. C03_new_assignment: for every reachable state (any history of the operation alphabet) '
         'and the cycle run from it, an instance that ends the cycle on a server other than the one it started on is '
         'on a server that is up and - measured before the cycle - has the partition label of the instance\'s '
         'allocation, every trait of the instance and of its allocation, and (non-zero lease) a reboot time after '
         'now + lease; the proof goes through every placing path (Bucket.put walk, eviction scan, restore of an '
         'eviction, failed renewal). C03_cycle_spec (the same from any state with the invariants), C03_put_guard, '
         'C03_fresh_put_only_up / C03_eviction_only_up, C03_cycle_is_guarded_steps. C03_after_refuted: machine-checked '
         'witness that the "after every cycle" half fails on the code as it is (an instance re-assigned to an '
         'allocation of another partition keeps its old server; known finding). Loader glue (third session, '
         'sub-agent): Master/LoadApp.v + Props/C03Load.v, 31 theorems over a model of Loader.load_app / create_server / '
         'Application.__init__ whose key-to-argument table is re-extracted from the AST every run (C03L_tables_ok): '
         'every declared attribute - partition label with the _default fallback, traits, lease and data retention '
         'in seconds for every spelling, affinity and its limits, demand and capacity order, identity group, the '
         'priority rule - reaches the scheduler object unchanged; a reload of an existing instance refreshes only '
         'priority, data retention and the blacklist flag (C06L_refresh_frame); correspondence stage on 2400 / 40000 '
         'structured manifests and server records through the real Loader. Where valid_until comes from (sub-agent): '
         'Sched/Reboot.v + Props/C03Reboot.v, 21 theorems over a model of Partition / RebootBucket / reboot_dates '
         '(constants and statement shapes re-extracted every run, C03R_tables_ok): the chosen reboot time is a '
         'bucket of the partition, lies in [up_since + MIN_SERVER_UPTIME, up_since + DEFAULT_SERVER_UPTIME] whenever '
         'such a bucket exists and the server is not overdue, the overdue rule, least-loaded with ties to the latest, '
         'and for every reachable Partition state no server is scheduled for a reboot earlier than MIN_SERVER_UPTIME '
         'after its boot (C03R_no_early_reboot); correspondence on the real Partition objects after every call, and '
         'oracle-only flows through the real Master/Loader.'),
    note=SCHED_NOTE + ' Hypotheses of the all-histories theorems (wf_ops_all): a new server or instance has a fresh name and vectors of '
         'the cell dimension, a new instance record is not placed and holds no identity, configured counts are '
         'non-negative.',
    technique=('Rocq proof (guard specification, per-turn specification and loop invariant of _find_placements, partition '
              'composition, invariants over all histories) + refutation witness + per-operation digest '
              'correspondence + oracle'),
    ref='DESIGN.md section 7 C03')
CLAIMED['C08'] = dict(
    engine='E-cell',
    text=('Rocq theorems on the model, for every reachable state and the cycle run from it: C08_keeps_placement (an '
         'instance on a server that is down for less than its data-retention time, or frozen and not marked for '
         'unscheduling, that is not blacklisted, not flagged for renewal, holds an identity valid for the current group '
         'size and is not ranked beyond the utilisation cap, is on the same server with the same expiry and identity '
         'after the cycle - the phases leave it alone, nothing evicts it, its own turn passes it over), '
         'C08_loses_placement (retention run out, or marked for unscheduling on a frozen server: not on that server '
         'after the cycle), C08_blacklisted_unplaced (a blacklisted instance ends the cycle with no server and no '
         'identity); a server that is not up receives no new instance (C03_new_assignment). For every cell state: '
         'C08_retention_decision + C08_expired, C08_no_capacity_eviction_meanwhile / C08_nonup_receives_nothing, '
         'C08_blacklisted_skipped. Master level: C08_master_since over the model Master/SrvState.v of the Loader\'s '
         'server-state bookkeeping - the since against which retention is measured is the time a master first saw the '
         'presence gone, through restarts, fail-overs and record reloads, and an up server never keeps a record saying '
         'down - tied by its own correspondence stage on E-master histories, plus a retention oracle on the real Master. '
         'C08_shrink_refuted / C08_renewal_refuted: machine-checked witnesses of the two exemptions the statement does not '
         'list (identity-group shrink; failing lease renewal) - known findings, hence the premises of C08_keeps_placement.'),
    note=SCHED_NOTE + ' Hypotheses of the all-histories theorems (wf_ops_all): a new server or instance has a fresh name and vectors of '
         'the cell dimension, a new instance record is not placed and holds no identity, configured counts are '
         'non-negative.',
    technique=('Rocq proof (phase-by-phase and loop invariants for one protected instance, partition composition, invariants '
              'over all histories) + refutation witness + per-operation digest correspondence + oracle'),
    ref='DESIGN.md section 7 C08')
CLAIMED['C07'] = dict(
    engine='E-cell',
    text='Rocq theorems on the model. C07_displaced_only_for_one_ahead: for every reachable state and the cycle run from '
         'it, an instance that sits on a server, is not blacklisted, not flagged for renewal, holds a valid identity, is '
         'not ranked beyond the utilisation cap, is not due to be moved off an inactive server, and whose placement is '
         'still admissible for its allocation (label and traits) EITHER is on the same server after the cycle OR some '
         'other instance that was not on that server before the cycle is on it afterwards and had its turn strictly '
         'before it in the cycle\'s turn order (concatenation of the partition queues). Proof: resource accounting over '
         'the loop - a restore can only be refused when somebody new took the room or the affinity head-room '
         '(restore_guard), loop invariants over queue positions (waiting/done), composition over partitions. '
         'C07_victims_behind, C07_attempt_touches_nobody_else, C07_victims_on_up_servers, C07_blacklisted_inert for '
         'every cell state. C07_stale_refuted: machine-checked witness that the admissibility proviso is necessary on '
         'the code as it is (known finding: an instance whose placement is stale for its allocation is evicted for an '
         'instance ahead that then fails to place, and cannot be restored).',
    note=SCHED_NOTE + ' Hypotheses of reachability (reachableA): fresh names, vectors of the cell dimension, a new '
         'instance record is unplaced and holds no identity, counts >= 0, instances of one affinity declare the same '
         'limits.',
    technique='Rocq proof (resource-accounting lemma for Server.restore, loop invariants over queue positions, '
              'partition composition, invariants over all histories) + refutation witness + per-operation digest '
              'correspondence + oracle',
    ref='DESIGN.md section 7 C07')
CLAIMED['C02'] = dict(
    engine='E-cell',
    text=('Rocq theorems on the model. C02_aggregates_never_hide: in every reachable state (any history: servers and buckets '
         'added, moved, removed, going down/frozen/up, every path of a cycle) no stored aggregate hides an up server - every '
         'bucket above it stores a free vector >= the server\'s, its partition label and its traits - and the tree is well '
         'formed; C02_walk_complete: in every reachable state, if some up server passes Server.put\'s guard for a pending '
         'instance and the affinity counters leave head-room on the way down, the placement walk from the cell root places '
         'it (the spread cursor visits every live child; failed sibling attempts only move cursors); C02_turn_places: a '
         'pending instance whose turn it is (not blacklisted, not over the cap, identity available, not held back by the '
         'feasibility tracker) ends its turn placed whenever such a server exists at that moment; C02_attempt_is_local, '
         'C02_attempt_steps. C02_tracker_refuted: machine-checked witness of the known finding (the tracker shape omits the '
         'instance\'s traits), hence the tracker premise. Left to the correspondence and the quiescent-probe oracle: that '
         'the turns ahead of the probe leave the fitting server as it is in a quiescent cell.'),
    note=SCHED_NOTE + ' Side conditions of the all-histories theorems (wf_ops, wf_ops_agg): fresh names (a new bucket name is '
         'neither a server nor a bucket, a new server name not a bucket), an existing parent bucket for a new or moved '
         'node, vectors of the cell dimension.',
    technique=('Rocq proof (edge-local aggregate invariant through adjust_capacity_up/down with their early returns, '
              'add_labels, trait propagation, topology operations and every step of a cycle; completeness of the '
              'cursor walk by induction on the depth) + refutation witness + per-operation digest correspondence + '
              'quiescent-probe oracle'),
    ref='DESIGN.md section 7 C02')

NOT_YET = {}


def main():
    with open(os.path.join(HERE, 'properties.jsonl')) as f:
        pids = [json.loads(l)['id'] for l in f if l.strip()]
    checks = []
    for pid in pids:
        if pid not in CLAIMED:
            continue
        c = CLAIMED[pid]
        checks.append({
            'property_id': pid,
            'quick_cmd': './check %s --tier quick' % pid,
            'thorough_cmd': './check %s --tier thorough' % pid,
            'evidence_file': 'evidence/%s.json' % pid,
            'replay_cmd_template': './check replay {path}',
            'engine': c['engine'],
            'level_claimed': {'category': 'proof', 'text': c['text'], 'design_ref': c['ref']},
            'level_note': c['note'],
            'technique': c['technique'],
        })
    na = [{'property_id': pid,
           'reason': NOT_YET.get(pid, 'not claimed yet: model and proofs for this property are designed '
                                      '(DESIGN.md section 7) but not built in this tree; the technique applies')}
          for pid in pids if pid not in CLAIMED]
    man = {
        'version': 1,
        'setup_cmd': './check setup',
        'hooks': {'guard': 'TREADMILL_VERIF', 'enable': 'none needed: the harness wraps treadmill from outside',
                  'baseline_off_cmd': 'cd /repo && /venv/bin/python -m pytest -ra -q -p no:cacheprovider '
                                      '--timeout=900 --continue-on-collection-errors',
                  'source_commits': [], 'add_only': True},
        'engines': [
            {'name': 'E-api', 'path': 'harness/props/c19.py', 'serves_properties': ['C19'],
             'kind_free_text': 'differential: real api.allocation._check_capacity with fake admin objects vs '
                               'Gallina model evaluated by vm_compute'},
            {'name': 'E-mon', 'path': 'harness/props/c20.py', 'serves_properties': ['C20'],
             'kind_free_text': 'differential: real sproc.appmonitor._run_sync with fake ZooKeeper, clock and REST '
                               'API vs the Gallina model evaluated by vm_compute'},
            {'name': 'E-node', 'path': 'harness/props/c12.py', 'serves_properties': ['C12', 'C13'],
             'kind_free_text': 'differential: real EventMgr/fs.write_safe/AppCfgMgr/monitor/cleanup on temp trees with '
                               'fault injection vs Node/Cache.v, Node/AppCfg.v'},
            {'name': 'E-own', 'path': 'harness/props/c14.py', 'serves_properties': ['C14', 'C16'],
             'kind_free_text': 'differential: real VipMgr/RuleMgr/EndpointsMgr/NetworkResourceService and '
                               '_unshare_network/_cleanup_network on temp dirs vs Node/Owners.v, Node/NetReg.v'},
            {'name': 'E-zk', 'path': 'harness/props/c17.py', 'serves_properties': ['C17', 'C18'],
             'kind_free_text': 'differential: real PresenceResourceService (baton-passing threads) and trace '
                               'cleanup functions (cut at every write) on an in-memory ZooKeeper vs Node/Presence.v, '
                               'Trace/Archive.v'},
            {'name': 'E-master', 'path': 'harness/emaster.py', 'serves_properties': ['C09', 'C10', 'C11'],
             'kind_free_text': 'real master.Master over an in-memory scheduler Backend, driven through its handlers; '
                               'every backend write of every publication is a crash point; write lists vs Master/Publish.v'},
            {'name': 'E-codec', 'path': 'harness/props/c15.py', 'serves_properties': ['C15'],
             'kind_free_text': 'differential: real codec functions vs Codec/*.v on structured and malformed inputs'},
            {'name': 'E-cell', 'path': 'harness/ecell.py', 'serves_properties': ['C01', 'C02', 'C03', 'C04', 'C05',
                                                                                 'C06', 'C07', 'C08'],
             'kind_free_text': 'differential: real treadmill.scheduler Cell/Bucket/Server/Allocation/Application '
                               'objects driven by generated histories (virtual clock) vs Sched/Events.v run_case; '
                               'digest of the canonical dump after every operation'},
        ],
        'checks': checks,
        'not_applicable': na,
        'notes': 'Single CLI ./check; Coq development under coq/theories (full .vo build, no -vos); '
                 'Gen/Tables.v is regenerated from /repo on every run.',
    }
    with open(os.path.join(HERE, 'MANIFEST.json'), 'w') as f:
        json.dump(man, f, indent=1)
        f.write('\n')


if __name__ == '__main__':
    main()
