#!/usr/bin/env python3
"""Regenerate MANIFEST.json from the table below (kept here so the manifest stays valid and uniform)."""
import json
import os

HERE = os.path.dirname(os.path.dirname(os.path.abspath(__file__)))

CLAIMED = {
    'C19': dict(
        engine='E-api',
        text='Rocq theorems C19_sound_complete (accept <-> fits overall and every limited trait; reject <-> not; '
             'never a service failure) and C19_sequences (any request sequence keeps the partition within '
             'capacity), proved for every partition, reservation set and request; the dataflow of '
             '_calc_free/_calc_free_traits/_check_limit is regenerated from the Python AST on every run and must '
             'be the canonical one (C19_table_is_canonical by vm_compute); _check_capacity control flow tied by '
             'differential execution of model (vm_compute) and implementation on generated cases.',
        note='Coq kernel; translator harness/tables.py; structured spellings stand for strings; fake admin objects '
             'for LDAP; inputs well-formed as the REST schema admits.',
        technique='Rocq proof over AST-regenerated dataflow table + differential correspondence (cases.v/vm_compute)',
        ref='DESIGN.md section 7 C19'),
}

NOT_YET = {}


def main():
    with open(os.path.join(HERE, 'properties.jsonl')) as f:
        pids = [json.loads(l)['id'] for l in f if l.strip()]
    checks = []
    for pid in pids:
        if pid not in CLAIMED:
            continue
        c = CLAIMED[pid]
        checks.append({
            'property_id': pid,
            'quick_cmd': './check %s --tier quick' % pid,
            'thorough_cmd': './check %s --tier thorough' % pid,
            'evidence_file': 'evidence/%s.json' % pid,
            'replay_cmd_template': './check replay {path}',
            'engine': c['engine'],
            'level_claimed': {'category': 'proof', 'text': c['text'], 'design_ref': c['ref']},
            'level_note': c['note'],
            'technique': c['technique'],
        })
    na = [{'property_id': pid,
           'reason': NOT_YET.get(pid, 'not claimed yet: model and proofs for this property are designed '
                                      '(DESIGN.md section 7) but not built in this tree; the technique applies')}
          for pid in pids if pid not in CLAIMED]
    man = {
        'version': 1,
        'setup_cmd': './check setup',
        'hooks': {'guard': 'TREADMILL_VERIF', 'enable': 'none needed: the harness wraps treadmill from outside',
                  'baseline_off_cmd': 'cd /repo && /venv/bin/python -m pytest -ra -q -p no:cacheprovider '
                                      '--timeout=900 --continue-on-collection-errors',
                  'source_commits': [], 'add_only': True},
        'engines': [
            {'name': 'E-api', 'path': 'harness/props/c19.py', 'serves_properties': ['C19'],
             'kind_free_text': 'differential: real api.allocation._check_capacity with fake admin objects vs '
                               'Gallina model evaluated by vm_compute'},
        ],
        'checks': checks,
        'not_applicable': na,
        'notes': 'Single CLI ./check; Coq development under coq/theories (full .vo build, no -vos); '
                 'Gen/Tables.v is regenerated from /repo on every run.',
    }
    with open(os.path.join(HERE, 'MANIFEST.json'), 'w') as f:
        json.dump(man, f, indent=1)
        f.write('\n')


if __name__ == '__main__':
    main()
