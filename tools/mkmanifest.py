#!/usr/bin/env python3
"""Regenerate MANIFEST.json from the table below (kept here so the manifest stays valid and uniform)."""
import json
import os

HERE = os.path.dirname(os.path.dirname(os.path.abspath(__file__)))

CLAIMED = {
    'C19': dict(
        engine='E-api',
        text='Rocq theorems C19_sound_complete (accept <-> fits overall and every limited trait; reject <-> not; '
             'never a service failure) and C19_sequences (any request sequence keeps the partition within '
             'capacity), proved for every partition, reservation set and request; the dataflow of '
             '_calc_free/_calc_free_traits/_check_limit is regenerated from the Python AST on every run and must '
             'be the canonical one (C19_table_is_canonical by vm_compute); _check_capacity control flow tied by '
             'differential execution of model (vm_compute) and implementation on generated cases.',
        note='Coq kernel; translator harness/tables.py; structured spellings stand for strings; fake admin objects '
             'for LDAP; inputs well-formed as the REST schema admits.',
        technique='Rocq proof over AST-regenerated dataflow table + differential correspondence (cases.v/vm_compute)',
        ref='DESIGN.md section 7 C19'),
}

CLAIMED['C20'] = dict(
    engine='E-mon',
    text='Rocq theorems over the executable model Mon/AppMon.v, for every state satisfying the invariant and every '
         'unbounded event history with an advancing clock. Per evaluation: created = min(missing, floor(available)) '
         '<= both bounds, 0 <= available <= 2*count, deletes are exactly the surplus prefix (fifo/none) or suffix '
         '(lifo) and oldest/newest on the sorted list, at most one REST call per application (never create+delete), '
         'nothing for suspended/removed monitors, tokens deducted for successful creations only '
         '(C20_create_bounded/_complete, C20_delete_exact/_complete/_oldest_or_newest, C20_one_call_per_app, '
         'C20_inactive_no_action, C20_tokens_after). Histories: C20_invariant, C20_budget (created <= available(t0) '
         '+ 2*count/3600*(t1-t0) while the monitor is not reconfigured), C20_removed_no_action. Constants '
         'regenerated from the Python AST each run (C20_constants_canonical by vm_compute). Model tied by '
         'differential execution of the real _run_sync loop (vm_compute over cases files).',
    note='Coq kernel; translator tables_c20.py; fakes for ZooKeeper/time/cell API/alerts; tokens compared on the '
         'integer lattice 1/(_INTERVAL*tps), float-ambiguous cases skipped and counted; scheduled list as read by '
         'each evaluation (watch lag = environment); no concurrent watch callbacks; alert_f total; wait-time values '
         'and api/instance.py quotas not modelled; budget theorem per configuration epoch.',
    technique='Rocq proof (induction over event histories, scaled-integer token bucket) over AST-regenerated '
              'constants + differential correspondence of the real _run_sync loop (cases.v/vm_compute)',
    ref='DESIGN.md section 7 C20')

SCHED_NOTE = ('Coq kernel; hand-written model Sched/*.v of treadmill.scheduler tied by per-operation digest '
              'correspondence on generated histories (E-cell); set.pop() choices fed from the implementation; exact '
              'rationals for utilisation with the x+eps case split; virtual clock; integer vectors of dimension 3; '
              'SpreadStrategy only.')
CLAIMED['C06'] = dict(
    engine='E-cell',
    text='Rocq theorems for every allocation tree (any depth) and population: C06_perm/C06_each_once (each instance '
         'of the partition considered exactly once), C06_rank_mono (ranks non-decreasing along the queue, given '
         'rank_adjustment >= 0, priorities >= 0, non-negative demands and reservations), C06_alloc_order (inside an '
         'allocation: priority, running before pending, first-come), C06_rank_decision + C06_boost + C06_cap (boosted '
         'rank <=> utilisation before the instance negative and within the cap; unplaced rank <=> utilisation after '
         'exceeds cap-1); scheduler constants regenerated from the source (C06_constants). Partial: preservation of '
         'each sub-allocation\'s internal order by the parent merge and priority-0-last within a rank are decided '
         'by the correspondence (queue in every cycle digest) and the oracle only.',
    note=SCHED_NOTE,
    technique='Rocq proof (induction over the nested allocation tree, k-way merge lemmas) + per-operation digest '
              'correspondence of the real scheduler objects (cases.v/vm_compute)',
    ref='DESIGN.md section 7 C06')

NOT_YET = {}


def main():
    with open(os.path.join(HERE, 'properties.jsonl')) as f:
        pids = [json.loads(l)['id'] for l in f if l.strip()]
    checks = []
    for pid in pids:
        if pid not in CLAIMED:
            continue
        c = CLAIMED[pid]
        checks.append({
            'property_id': pid,
            'quick_cmd': './check %s --tier quick' % pid,
            'thorough_cmd': './check %s --tier thorough' % pid,
            'evidence_file': 'evidence/%s.json' % pid,
            'replay_cmd_template': './check replay {path}',
            'engine': c['engine'],
            'level_claimed': {'category': 'proof', 'text': c['text'], 'design_ref': c['ref']},
            'level_note': c['note'],
            'technique': c['technique'],
        })
    na = [{'property_id': pid,
           'reason': NOT_YET.get(pid, 'not claimed yet: model and proofs for this property are designed '
                                      '(DESIGN.md section 7) but not built in this tree; the technique applies')}
          for pid in pids if pid not in CLAIMED]
    man = {
        'version': 1,
        'setup_cmd': './check setup',
        'hooks': {'guard': 'TREADMILL_VERIF', 'enable': 'none needed: the harness wraps treadmill from outside',
                  'baseline_off_cmd': 'cd /repo && /venv/bin/python -m pytest -ra -q -p no:cacheprovider '
                                      '--timeout=900 --continue-on-collection-errors',
                  'source_commits': [], 'add_only': True},
        'engines': [
            {'name': 'E-api', 'path': 'harness/props/c19.py', 'serves_properties': ['C19'],
             'kind_free_text': 'differential: real api.allocation._check_capacity with fake admin objects vs '
                               'Gallina model evaluated by vm_compute'},
            {'name': 'E-mon', 'path': 'harness/props/c20.py', 'serves_properties': ['C20'],
             'kind_free_text': 'differential: real sproc.appmonitor._run_sync with fake ZooKeeper, clock and REST '
                               'API vs the Gallina model evaluated by vm_compute'},
            {'name': 'E-cell', 'path': 'harness/ecell.py', 'serves_properties': ['C01', 'C02', 'C03', 'C04', 'C05',
                                                                                 'C06', 'C07', 'C08'],
             'kind_free_text': 'differential: real treadmill.scheduler Cell/Bucket/Server/Allocation/Application '
                               'objects driven by generated histories (virtual clock) vs Sched/Events.v run_case; '
                               'digest of the canonical dump after every operation'},
        ],
        'checks': checks,
        'not_applicable': na,
        'notes': 'Single CLI ./check; Coq development under coq/theories (full .vo build, no -vos); '
                 'Gen/Tables.v is regenerated from /repo on every run.',
    }
    with open(os.path.join(HERE, 'MANIFEST.json'), 'w') as f:
        json.dump(man, f, indent=1)
        f.write('\n')


if __name__ == '__main__':
    main()
